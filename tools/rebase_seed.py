#!/venv/bin/python
"""Re-create a stored seeded change on /repo's current HEAD after a `fix:` commit moved its context.

usage: tools/rebase_seed.py <seed-id> [--patch new.diff]
Without --patch the stored patch is applied with `patch -p1 --fuzz=3` in a scratch copy of HEAD (temp dir, removed
afterwards); with --patch a hand-rebased diff (same change, new context) is used.  The demonstration must pass on the
clean copy and fail on the patched one; the pinned suite must pass with the patch.  On success the old diff is kept as
patch.orig.diff, the new one replaces patch.diff and meta.json records the rebase and the refreshed check verdicts."""
import argparse
import json
import os
import shutil
import subprocess
import sys
import tempfile

VERIF = os.path.dirname(os.path.dirname(os.path.abspath(__file__)))
PY = "/venv/bin/python"


def main():
    ap = argparse.ArgumentParser()
    ap.add_argument("seed_id")
    ap.add_argument("--patch")
    ap.add_argument("--skip-tests", action="store_true")
    a = ap.parse_args()
    d = os.path.join(VERIF, "seeded", a.seed_id)
    tmp = tempfile.mkdtemp(prefix="seedrebase-")
    try:
        subprocess.check_call(f"git -C /repo archive HEAD | tar -x -C {tmp}", shell=True)
        subprocess.check_call("git init -q . && git add -A && git -c user.email=x@y -c user.name=x commit -q -m base", shell=True, cwd=tmp)
        src = os.path.abspath(a.patch) if a.patch else os.path.join(d, "patch.diff")
        r = subprocess.run(["patch", "-p1", "--fuzz=3", "--no-backup-if-mismatch", "-i", src], cwd=tmp, capture_output=True, text=True)
        if r.returncode != 0:
            print("patch does not apply even with fuzz:\n" + r.stdout + r.stderr)
            sys.exit(1)
        new = subprocess.check_output(["git", "diff", "--", "torchsde"], cwd=tmp, text=True)
        new_path = os.path.join(tmp, "_new.diff")
        open(new_path, "w").write(new)
        cmd = [PY, os.path.join(VERIF, "tools", "seedcheck.py"), new_path, "--demo", os.path.join(d, "demo.py"), "--json", os.path.join(tmp, "_res.json")]
        if not a.skip_tests:
            cmd.append("--tests")
        subprocess.check_call(cmd)
        res = json.load(open(os.path.join(tmp, "_res.json")))
        problems = []
        if res.get("demo_clean_exit") != 0:
            problems.append(f"demo fails on the clean HEAD (exit {res.get('demo_clean_exit')})")
        if res.get("demo_patched_exit") in (0, None):
            problems.append("demo does not fail with the rebased patch")
        if not a.skip_tests and res.get("tests_exit") != 0:
            problems.append(f"suite: {res.get('tests_summary')}")
        if problems:
            print("NOT REBASED:", "; ".join(problems))
            sys.exit(1)
        if not os.path.exists(os.path.join(d, "patch.orig.diff")):
            shutil.copy(os.path.join(d, "patch.diff"), os.path.join(d, "patch.orig.diff"))
        open(os.path.join(d, "patch.diff"), "w").write(new)
        meta = json.load(open(os.path.join(d, "meta.json")))
        head = subprocess.check_output(["git", "-C", "/repo", "rev-parse", "--short", "HEAD"], text=True).strip()
        fired = {k: v["rules"] for k, v in res["checks"].items() if v["exit"] == 1}
        meta["rebased"] = {"onto_repo_commit": head, "why": "a later fix: commit in /repo moved the context of the original diff "
                           "(kept as patch.orig.diff); same change, re-confirmed",
                           "demo_on_clean_tree_exit": res.get("demo_clean_exit"), "demo_with_patch_exit": res.get("demo_patched_exit"),
                           "test_suite_with_patch": res.get("tests_summary", "not run")}
        meta["checks_that_fire"] = fired
        meta["checks_exit_2"] = {k: v["errors"] for k, v in res["checks"].items() if v["exit"] == 2}
        meta["detected_by_target_property_check"] = meta["breaks_property"] in fired
        meta["checks_refreshed_against_repo_commit"] = head
        json.dump(meta, open(os.path.join(d, "meta.json"), "w"), indent=1)
        print(f"rebased {a.seed_id} onto {head}: fires {fired}")
    finally:
        shutil.rmtree(tmp, ignore_errors=True)


if __name__ == "__main__":
    main()
