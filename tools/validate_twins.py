#!/venv/bin/python
"""Show that the whole-package twins of tsverif/twins.py are behaviour-preserving as far as the repository's own test
suite can tell: each twin of /repo's HEAD is built in a temp dir (removed afterwards) and the pinned suite is run
against it.  usage: tools/validate_twins.py [twin ...]   (default: all seven)   [-n JOBS]"""
import argparse
import os
import shutil
import subprocess
import sys
import tempfile

VERIF = os.path.dirname(os.path.dirname(os.path.abspath(__file__)))
sys.path.insert(0, VERIF)
from tsverif import twins  # noqa: E402

TWINS = {
    "unparse": lambda d: twins.transform_tree(d, rename=False),
    "rename-locals": lambda d: twins.transform_tree(d, rename=True),
    "logging": twins.transform_tree_logging,
    "control": twins.transform_tree_control,
    "temps": twins.transform_tree_temps,
    "hoist": twins.transform_tree_hoist,
    "argstyle": twins.transform_tree_argstyle,
}


def main():
    ap = argparse.ArgumentParser()
    ap.add_argument("names", nargs="*")
    ap.add_argument("-n", default="8")
    ap.add_argument("-k", default=None, help="pytest -k expression (default: whole suite)")
    a = ap.parse_args()
    bad = 0
    for name in (a.names or list(TWINS)):
        tmp = tempfile.mkdtemp(prefix=f"twin-{name}-")
        try:
            subprocess.check_call(f"git -C /repo archive HEAD | tar -x -C {tmp}", shell=True)
            TWINS[name](tmp)
            env = dict(os.environ, PYTHONPATH=tmp, OMP_NUM_THREADS="1", MKL_NUM_THREADS="1")
            cmd = ["/venv/bin/python", "-m", "pytest", "-q", "-p", "no:cacheprovider", "--timeout=900", "-n", a.n, "tests"]
            if a.k:
                cmd += ["-k", a.k]
            r = subprocess.run(cmd, cwd=tmp, env=env, capture_output=True, text=True)
            tail = (r.stdout.strip().splitlines() or ["?"])[-1]
            print(f"{name}: exit {r.returncode}: {tail}", flush=True)
            bad += r.returncode != 0
        finally:
            shutil.rmtree(tmp, ignore_errors=True)
    sys.exit(1 if bad else 0)


if __name__ == "__main__":
    main()
