#!/venv/bin/python
"""Replace the generated seed table of DESIGN.md section 10.6 (between the seed-table markers) by tools/seed_table.py's output."""
import os
import subprocess

VERIF = os.path.dirname(os.path.dirname(os.path.abspath(__file__)))
p = os.path.join(VERIF, "DESIGN.md")
s = open(p).read()
a, b = s.index("<!-- seed-table:begin -->"), s.index("<!-- seed-table:end -->")
tbl = subprocess.check_output(["/venv/bin/python", os.path.join(VERIF, "tools", "seed_table.py")], text=True).strip()
open(p, "w").write(s[:a] + "<!-- seed-table:begin -->\n" + tbl + "\n" + s[b:])
print("rows:", tbl.count("\n") - 1)
