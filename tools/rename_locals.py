#!/venv/bin/python
"""Generic behaviour-preserving transformation used to stress the checkers (see tsverif/twins.py): in a scratch copy of
the package every function-local variable gets the suffix `_r` and every file is re-emitted by ast.unparse.
usage: tools/rename_locals.py <scratch-root> [--unparse-only]"""
import os
import sys

sys.path.insert(0, os.path.dirname(os.path.dirname(os.path.abspath(__file__))))
from tsverif.twins import transform_tree  # noqa: E402

if __name__ == "__main__":
    n = transform_tree(sys.argv[1], rename="--unparse-only" not in sys.argv)
    print(f"transformed {n} files")
