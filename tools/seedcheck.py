#!/venv/bin/python
"""Run every claimed check against a seeded change without touching /repo.

usage: tools/seedcheck.py <patch.diff> [--demo demo.py] [--tests]
Creates a scratch copy of /repo's HEAD under a temp dir (outside /repo and /verif), applies the patch, runs each
check's quick tier with --root on the copy (evidence not written), optionally the demonstration and the pinned test
suite, prints which rules fire, and removes the copy.
"""
import argparse
import json
import os
import shutil
import subprocess
import sys
import tempfile

VERIF = os.path.dirname(os.path.dirname(os.path.abspath(__file__)))
PY = "/venv/bin/python"


def main():
    ap = argparse.ArgumentParser()
    ap.add_argument("patch")
    ap.add_argument("--demo")
    ap.add_argument("--tests", action="store_true")
    ap.add_argument("--sequential", action="store_true",
                    help="run the pinned suite exactly as BASELINE.json does (one process, --timeout=900) instead of -n 8")
    ap.add_argument("--keep", action="store_true")
    ap.add_argument("--json")
    a = ap.parse_args()
    tmp = tempfile.mkdtemp(prefix="seedcheck-")
    res = {"patch": a.patch, "checks": {}}
    try:
        subprocess.check_call(f"git -C /repo archive HEAD | tar -x -C {tmp}", shell=True)
        if a.demo:
            r0 = subprocess.run([PY, os.path.abspath(a.demo)], cwd=tmp, env=dict(os.environ, PYTHONPATH=tmp, OMP_NUM_THREADS="4"),
                                capture_output=True, text=True)
            res["demo_clean_exit"] = r0.returncode
        man = json.load(open(os.path.join(VERIF, "MANIFEST.json")))

        touches_brownian = "_brownian" in open(a.patch).read()

        patch_text = open(a.patch).read()
        touches_driver = any(d in patch_text for d in ("_core/base_solver.py", "_core/methods/", "_core/interp.py", "_brownian/derived.py"))

        def run_one(pid, replay):
            env = dict(os.environ)
            if replay:
                if replay == "skip":
                    env["TSVERIF_REPLAY"] = replay
                if not touches_driver:
                    env["TSVERIF_SOLVER_REPLAY"] = "skip"
            r = subprocess.run([PY, "-m", "tsverif.check", pid, "--root", tmp, "--no-write"], cwd=VERIF,
                               capture_output=True, text=True, env=env)
            viol = {}
            for ln in r.stdout.splitlines():
                if ": R" in ln and "[" in ln and not ln.startswith(("VIOLATION", "ANALYSIS", "NOTE")):
                    rest = ln.split(": ", 1)[1]
                    viol[rest.split("]")[0]] = rest.split(" ")[0]
            return pid, (r.returncode, viol, [ln[:300] for ln in r.stdout.splitlines() if ln.startswith("ANALYSIS-ERROR")])

        def run_checks(replay=None):
            import concurrent.futures
            with concurrent.futures.ThreadPoolExecutor(max_workers=int(os.environ.get("SEEDCHECK_JOBS", "3"))) as ex:
                return dict(ex.map(lambda c: run_one(c["property_id"], replay), man["checks"]))

        # verdicts are relative to the unpatched HEAD; those depend on (HEAD, the checks) only and are kept between runs
        import hashlib
        head = subprocess.check_output(["git", "-C", "/repo", "rev-parse", "HEAD"], text=True).strip()
        dig = hashlib.sha256()
        for root_, _, files in sorted(os.walk(os.path.join(VERIF, "tsverif"))):
            for f in sorted(files):
                if f.endswith(".py"):
                    dig.update(open(os.path.join(root_, f), "rb").read())
        dig.update(open(os.path.join(VERIF, "known_findings.json"), "rb").read())
        cache = os.path.join(tempfile.gettempdir(), f"seedcheck-base-{head[:12]}-{dig.hexdigest()[:12]}.json")
        if os.path.exists(cache):
            base = {k: tuple(v) for k, v in json.load(open(cache)).items()}
        else:
            base = run_checks()
            json.dump(base, open(cache + ".part", "w"))
            os.replace(cache + ".part", cache)
        r_apply = subprocess.run(["git", "apply", "--directory", tmp, "--unsafe-paths", os.path.abspath(a.patch)], cwd="/",
                                 capture_output=True, text=True)
        if r_apply.returncode != 0:
            # the context moved (a later fix: commit in /repo): same change, located with fuzz
            subprocess.check_call(["patch", "-p1", "--fuzz=3", "--no-backup-if-mismatch", "-s", "-i", os.path.abspath(a.patch)], cwd=tmp)
            res["applied_with_fuzz"] = True
        # the replay rules read torchsde/_brownian only: a patch that leaves it alone leaves their verdict alone
        for pid, (code, viol, errors) in run_checks("patched" if touches_brownian else "skip").items():
            new = {k: v for k, v in viol.items() if k not in base[pid][1]}
            res["checks"][pid] = {"exit": 1 if new else (2 if code == 2 and base[pid][0] != 2 else 0),
                                  "rules": sorted(set(new.values())), "errors": errors,
                                  "base_exit": base[pid][0]}
        if a.demo:
            r1 = subprocess.run([PY, os.path.abspath(a.demo)], cwd=tmp, env=dict(os.environ, PYTHONPATH=tmp, OMP_NUM_THREADS="4"),
                                capture_output=True, text=True)
            res["demo_patched_exit"] = r1.returncode
            res["demo_patched_tail"] = (r1.stdout + r1.stderr)[-400:]
        if a.tests:
            cmd = [PY, "-m", "pytest", "-q", "-p", "no:cacheprovider", "--timeout=900"]
            cmd += ["-ra", "--continue-on-collection-errors"] if a.sequential else ["-n", "8"]
            r2 = subprocess.run(cmd + ["tests"], cwd=tmp,
                                env=dict(os.environ, PYTHONPATH=tmp, OMP_NUM_THREADS="4" if a.sequential else "1"),
                                capture_output=True, text=True)
            res["tests_cmd"] = " ".join(cmd + ["tests"])
            res["tests_exit"] = r2.returncode
            res["tests_summary"] = r2.stdout.strip().splitlines()[-1] if r2.stdout.strip() else r2.stderr[-300:]
    finally:
        if not a.keep:
            shutil.rmtree(tmp, ignore_errors=True)
    fired = {k: v for k, v in res["checks"].items() if v["exit"] == 1}
    errs = {k: v for k, v in res["checks"].items() if v["exit"] == 2}
    print(f"patch {a.patch}")
    for k, v in fired.items():
        print(f"  FIRES   {k}: {', '.join(v['rules'])}")
    for k, v in errs.items():
        print(f"  EXIT-2  {k}: {v['errors'][:1]}")
    print(f"  silent: {sorted(k for k, v in res['checks'].items() if v['exit'] == 0)}")
    for k in ("demo_clean_exit", "demo_patched_exit", "tests_exit", "tests_summary"):
        if k in res:
            print(f"  {k}: {res[k]}")
    if a.json:
        json.dump(res, open(a.json, "w"), indent=1)


if __name__ == "__main__":
    main()
