#!/venv/bin/python
"""Confirm a seeded change and store it under /verif/seeded/<id>/.

usage: tools/register_seed.py <seed-id> <property> <seed-dir> --needs "<what it needs to manifest>" [--skip-tests]
<seed-dir> holds patch.diff and demo.py (as delivered by a seeding sub-agent).  In a scratch copy of /repo's HEAD
(temp dir, removed afterwards) this script: runs the demo on the clean tree (must exit 0), applies the patch, runs the
demo again (must exit non-zero), runs the pinned test suite (must pass), and runs every claimed check with --root.
Only if all confirmations hold are patch.diff, demo.py, notes.md and meta.json written to /verif/seeded/<id>/.
"""
import argparse
import json
import os
import shutil
import subprocess
import sys
import tempfile

VERIF = os.path.dirname(os.path.dirname(os.path.abspath(__file__)))
PY = "/venv/bin/python"


def main():
    ap = argparse.ArgumentParser()
    ap.add_argument("seed_id")
    ap.add_argument("prop")
    ap.add_argument("seed_dir")
    ap.add_argument("--needs", required=True)
    ap.add_argument("--skip-tests", action="store_true")
    ap.add_argument("--sequential", action="store_true")
    ap.add_argument("--note", default="")
    a = ap.parse_args()
    patch, demo = os.path.join(a.seed_dir, "patch.diff"), os.path.join(a.seed_dir, "demo.py")
    out_json = tempfile.mktemp(suffix=".json")
    cmd = [PY, os.path.join(VERIF, "tools", "seedcheck.py"), patch, "--demo", demo, "--json", out_json]
    if not a.skip_tests:
        cmd.append("--tests")
    if a.sequential:
        cmd.append("--sequential")
    subprocess.check_call(cmd)
    res = json.load(open(out_json))
    os.remove(out_json)
    problems = []
    if res.get("demo_clean_exit") != 0:
        problems.append(f"demo does not pass on the clean tree (exit {res.get('demo_clean_exit')})")
    if res.get("demo_patched_exit") in (0, None):
        problems.append("demo does not fail with the patch")
    if not a.skip_tests and res.get("tests_exit") != 0:
        problems.append(f"test suite does not pass with the patch: {res.get('tests_summary')}")
    if problems:
        print("NOT REGISTERED:", "; ".join(problems))
        sys.exit(1)
    dst = os.path.join(VERIF, "seeded", a.seed_id)
    os.makedirs(dst, exist_ok=True)
    shutil.copy(patch, os.path.join(dst, "patch.diff"))
    shutil.copy(demo, os.path.join(dst, "demo.py"))
    if os.path.exists(os.path.join(a.seed_dir, "notes.md")):
        shutil.copy(os.path.join(a.seed_dir, "notes.md"), os.path.join(dst, "notes.md"))
    fired = {k: v["rules"] for k, v in res["checks"].items() if v["exit"] == 1}
    meta = {
        "seed_id": a.seed_id,
        "breaks_property": a.prop,
        "needs_to_manifest": a.needs,
        "origin": "independent sub-agent given only the property text and its own scratch worktree of /repo",
        "confirmed": {
            "demo_on_clean_tree_exit": res.get("demo_clean_exit"),
            "demo_with_patch_exit": res.get("demo_patched_exit"),
            "demo_with_patch_output_tail": res.get("demo_patched_tail", "")[-300:],
            "test_suite_with_patch": res.get("tests_summary", "not run"),
            "test_suite_command": res.get("tests_cmd", ""),
            "note": a.note,
            "how": "tools/register_seed.py: scratch copy of /repo HEAD under a temp dir, removed afterwards",
        },
        "checks_that_fire": fired,
        "checks_exit_2": {k: v["errors"] for k, v in res["checks"].items() if v["exit"] == 2},
        "detected_by_target_property_check": a.prop in fired,
    }
    json.dump(meta, open(os.path.join(dst, "meta.json"), "w"), indent=1)
    print(f"registered {dst}: fires {fired}")


if __name__ == "__main__":
    main()
