#!/venv/bin/python
"""Re-run every claimed check against every stored seeded change (scratch copies of /repo's HEAD, removed afterwards)
and refresh `checks_that_fire` / `checks_exit_2` / `detected_by_target_property_check` in seeded/<id>/meta.json.
The demonstration and the test-suite confirmation recorded at registration time are left as they are.
usage: tools/refresh_seeds.py [seed-id ...]"""
import concurrent.futures
import json
import os
import subprocess
import sys
import tempfile

VERIF = os.path.dirname(os.path.dirname(os.path.abspath(__file__)))


def one(sid):
    d = os.path.join(VERIF, "seeded", sid)
    if json.load(open(os.path.join(d, "meta.json"))).get("superseded_by_repair"):
        return sid, "superseded", "the construct this seed edits was rebuilt by a later repair (see meta.json); verdicts kept as recorded"
    out = tempfile.mktemp(suffix=".json")
    r = subprocess.run(["/venv/bin/python", os.path.join(VERIF, "tools", "seedcheck.py"), os.path.join(d, "patch.diff"),
                        "--json", out], capture_output=True, text=True)
    if r.returncode != 0 or not os.path.exists(out):
        return sid, None, (r.stdout + r.stderr)[-400:]
    res = json.load(open(out))
    os.remove(out)
    meta = json.load(open(os.path.join(d, "meta.json")))
    fired = {k: v["rules"] for k, v in res["checks"].items() if v["exit"] == 1}
    meta["checks_that_fire"] = fired
    meta["checks_exit_2"] = {k: v["errors"] for k, v in res["checks"].items() if v["exit"] == 2}
    meta["detected_by_target_property_check"] = meta["breaks_property"] in fired
    meta["checks_refreshed_against_repo_commit"] = subprocess.check_output(["git", "-C", "/repo", "rev-parse", "--short", "HEAD"], text=True).strip()
    json.dump(meta, open(os.path.join(d, "meta.json"), "w"), indent=1)
    return sid, fired, meta["checks_exit_2"]


def main():
    ids = sys.argv[1:] or sorted(os.listdir(os.path.join(VERIF, "seeded")))
    with concurrent.futures.ThreadPoolExecutor(max_workers=int(os.environ.get("REFRESH_JOBS", "5"))) as ex:
        for sid, fired, extra in ex.map(one, ids):
            if fired == "superseded":
                print(f"{sid}: superseded -- {extra}")
            elif fired is None:
                print(f"{sid}: FAILED {extra}")
            else:
                tgt = json.load(open(os.path.join(VERIF, "seeded", sid, "meta.json")))["breaks_property"]
                print(f"{sid}: target {tgt} {'caught' if tgt in fired else 'MISSED'}; fires {fired}" + (f"; exit-2 {list(extra)}" if extra else ""))


if __name__ == "__main__":
    main()
