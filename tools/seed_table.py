#!/venv/bin/python
"""Print the markdown table of /verif/seeded/*/meta.json (used for DESIGN.md section 10.6)."""
import glob
import json
import os

VERIF = os.path.dirname(os.path.dirname(os.path.abspath(__file__)))
rows = []
for f in sorted(glob.glob(os.path.join(VERIF, "seeded", "*", "meta.json"))):
    m = json.load(open(f))
    fired = "; ".join(f"{k}: {', '.join(v)}" for k, v in sorted(m["checks_that_fire"].items())) or "none"
    tgt = "yes" if m.get("detected_by_target_property_check") else "NO"
    rows.append(f"| `{m['seed_id']}` | {m['breaks_property']} | {m['needs_to_manifest'][:230]} | {fired} | {tgt} |")
print("| seeded change | breaks | needs, in order to manifest | checks that fire (quick tier) | caught by the target property's check |")
print("|---|---|---|---|---|")
print("\n".join(rows))
