#!/venv/bin/python
"""Re-run a few claimed checks against stored seeded changes and merge their verdicts into seeded/<id>/meta.json.
usage: tools/refresh_some_checks.py C03,C04,C05 [seed-id ...]     (default: the seeds whose patch touches torchsde/_brownian)
For rule additions to a few checks, where a full tools/refresh_seeds.py run (all twenty checks per seed) is not needed.  Verdicts
are relative to the unpatched HEAD, like seedcheck's."""
import concurrent.futures
import json
import os
import shutil
import subprocess
import sys
import tempfile

VERIF = os.path.dirname(os.path.dirname(os.path.abspath(__file__)))
PY = "/venv/bin/python"


def run_check(pid, root):
    r = subprocess.run([PY, "-m", "tsverif.check", pid, "--root", root, "--no-write"], cwd=VERIF, capture_output=True, text=True)
    viol = {}
    for ln in r.stdout.splitlines():
        if ": R" in ln and "[" in ln and not ln.startswith(("VIOLATION", "ANALYSIS", "NOTE")):
            rest = ln.split(": ", 1)[1]
            viol[rest.split("]")[0]] = rest.split(" ")[0]
    return r.returncode, viol, [ln[:300] for ln in r.stdout.splitlines() if ln.startswith("ANALYSIS-ERROR")]


def one(args):
    sid, pids, base = args
    d = os.path.join(VERIF, "seeded", sid)
    meta = json.load(open(os.path.join(d, "meta.json")))
    if meta.get("superseded_by_repair"):
        return sid, "superseded"
    tmp = tempfile.mkdtemp(prefix="seedcheck-")
    try:
        subprocess.check_call(f"git -C /repo archive HEAD | tar -x -C {tmp}", shell=True)
        patch = os.path.join(d, "patch.diff")
        if subprocess.run(["git", "apply", "--directory", tmp, "--unsafe-paths", patch], cwd="/", capture_output=True).returncode != 0:
            subprocess.check_call(["patch", "-p1", "--fuzz=3", "--no-backup-if-mismatch", "-s", "-i", patch], cwd=tmp)
        for pid in pids:
            code, viol, errors = run_check(pid, tmp)
            new = sorted({v for k, v in viol.items() if k not in base[pid][1]})
            meta["checks_that_fire"].pop(pid, None)
            meta["checks_exit_2"].pop(pid, None)
            if new:
                meta["checks_that_fire"][pid] = new
            elif code == 2 and base[pid][0] != 2:
                meta["checks_exit_2"][pid] = errors
        meta["checks_that_fire"] = dict(sorted(meta["checks_that_fire"].items()))
        meta["detected_by_target_property_check"] = meta["breaks_property"] in meta["checks_that_fire"]
        json.dump(meta, open(os.path.join(d, "meta.json"), "w"), indent=1)
        return sid, {p: meta["checks_that_fire"].get(p) for p in pids}
    finally:
        shutil.rmtree(tmp, ignore_errors=True)


def main():
    pids = sys.argv[1].split(",")
    ids = sys.argv[2:] or sorted(s for s in os.listdir(os.path.join(VERIF, "seeded"))
                                 if "_brownian" in open(os.path.join(VERIF, "seeded", s, "patch.diff")).read())
    base = {pid: run_check(pid, "/repo") for pid in pids}
    with concurrent.futures.ThreadPoolExecutor(max_workers=int(os.environ.get("REFRESH_JOBS", "5"))) as ex:
        for sid, res in ex.map(one, [(s, pids, base) for s in ids]):
            print(sid, res, flush=True)


if __name__ == "__main__":
    main()
