"""Syntax-tree queries shared by the rules (structured control flow only: the analysed package has no goto-like
flow besides early return / raise, which :func:`path_conditions` handles)."""
import ast
import hashlib

from .model import own_nodes


def unparse(node):
    return ast.unparse(node)


def norm(node):
    """Normalised statement/expression text (whitespace, quotes, parentheses, comments removed by ast.unparse)."""
    return ast.unparse(node)


def digest(node):
    return hashlib.sha1(norm(node).encode()).hexdigest()[:10]


def dotted(expr):
    """'a.b.c' for Name/Attribute chains, else None."""
    parts = []
    while isinstance(expr, ast.Attribute):
        parts.append(expr.attr)
        expr = expr.value
    if isinstance(expr, ast.Name):
        parts.append(expr.id)
        return ".".join(reversed(parts))
    return None


def root_name(expr):
    while isinstance(expr, (ast.Attribute, ast.Subscript, ast.Call, ast.Starred)):
        expr = expr.value if not isinstance(expr, ast.Call) else expr.func
    return expr.id if isinstance(expr, ast.Name) else None


def names_loaded(expr):
    return {n.id for n in ast.walk(expr) if isinstance(n, ast.Name) and isinstance(n.ctx, ast.Load)}


def names_in(expr):
    return {n.id for n in ast.walk(expr) if isinstance(n, ast.Name)}


def parent_map(fn_node):
    pm = {}
    for n in ast.walk(fn_node):
        for c in ast.iter_child_nodes(n):
            pm[c] = n
    return pm


def loc(fi, node=None):
    ln = getattr(node, "lineno", None) if node is not None else fi.node.lineno
    return f"{fi.module.relpath}:{ln}"


def calls(fi):
    return [n for n in own_nodes(fi.node) if isinstance(n, ast.Call)]


def call_name(call):
    """Dotted callee text, e.g. 'self.sde.f' or 'misc.vjp'; falls back to unparse."""
    d = dotted(call.func)
    return d if d is not None else ast.unparse(call.func)


def kwarg(call, name, default=None):
    for k in call.keywords:
        if k.arg == name:
            return k.value
    return default


def arg_or_kw(call, pos, name, default=None):
    if pos is not None and pos < len(call.args) and not any(isinstance(a, ast.Starred) for a in call.args[:pos + 1]):
        return call.args[pos]
    return kwarg(call, name, default)


def always_exits(stmts):
    """True if the statement list cannot fall through (ends in return/raise/continue/break on every path)."""
    for s in stmts:
        if isinstance(s, (ast.Return, ast.Raise, ast.Continue, ast.Break)):
            return True
        if isinstance(s, ast.If):
            if s.orelse and always_exits(s.body) and always_exits(s.orelse):
                return True
        if isinstance(s, ast.With) and always_exits(s.body):
            return True
        if isinstance(s, ast.Try):
            handlers_exit = all(always_exits(h.body) for h in s.handlers)
            if always_exits(s.body) and handlers_exit:
                return True
            if s.finalbody and always_exits(s.finalbody):
                return True
    return False


def _stored_names(stmts):
    out = set()
    for s in stmts:
        for n in ast.walk(s):
            if isinstance(n, ast.Name) and isinstance(n.ctx, (ast.Store, ast.Del)):
                out.add(n.id)
            elif isinstance(n, ast.Attribute) and isinstance(n.ctx, (ast.Store, ast.Del)):
                d = dotted(n)
                if d:
                    out.add(d)
    return out


def _cond_roots(cond):
    out = set()
    for n in ast.walk(cond):
        if isinstance(n, ast.Name):
            out.add(n.id)
        elif isinstance(n, ast.Attribute):
            d = dotted(n)
            if d:
                out.add(d)
    return out


_BLOCK_FIELDS = ("body", "orelse", "finalbody")


def path_conditions(fi, target):
    """Conditions that hold whenever `target` (a node inside fi) executes, as a list of (test_expr, polarity,
    kind) with kind in {'enclosing-if', 'early-exit', 'assert', 'while', 'except'}.

    Syntax-directed dominance: enclosing ``if`` arms, plus earlier sibling statements ``if C: <always exits>``
    (giving ``not C``) and ``assert C``, dropped when a name the condition mentions is re-bound in between.
    """
    found = []

    def contains(node):
        return any(n is target for n in ast.walk(node))

    def visit_block(stmts):
        for i, s in enumerate(stmts):
            if not contains(s):
                continue
            # facts from earlier siblings
            for j in range(i):
                p = stmts[j]
                fact = None
                if isinstance(p, ast.If):
                    be, oe = always_exits(p.body), bool(p.orelse) and always_exits(p.orelse)
                    if be and not oe:
                        fact = (p.test, False, "early-exit")
                    elif oe and not be:
                        fact = (p.test, True, "early-exit")
                elif isinstance(p, ast.Assert):
                    fact = (p.test, True, "assert")
                if fact is not None:
                    rebound = _stored_names(stmts[j + 1:i])
                    if not (rebound & _cond_roots(fact[0])):
                        found.append(fact)
            visit_stmt(s)
            return

    def visit_stmt(s):
        if s is target:
            return
        if isinstance(s, ast.If):
            if contains(s.test):
                return
            if any(contains(x) for x in s.body):
                found.append((s.test, True, "enclosing-if"))
                visit_block(s.body)
            elif any(contains(x) for x in s.orelse):
                found.append((s.test, False, "enclosing-if"))
                visit_block(s.orelse)
            return
        if isinstance(s, ast.While):
            if any(contains(x) for x in s.body):
                found.append((s.test, True, "while"))
                visit_block(s.body)
            elif any(contains(x) for x in s.orelse):
                visit_block(s.orelse)
            return
        if isinstance(s, (ast.For, ast.AsyncFor)):
            if any(contains(x) for x in s.body):
                visit_block(s.body)
            elif any(contains(x) for x in s.orelse):
                visit_block(s.orelse)
            return
        if isinstance(s, (ast.With, ast.AsyncWith)):
            if any(contains(x) for x in s.body):
                visit_block(s.body)
            return
        if isinstance(s, ast.Try):
            if any(contains(x) for x in s.body):
                visit_block(s.body)
                return
            for h in s.handlers:
                if any(contains(x) for x in h.body):
                    if h.type is not None:
                        found.append((h.type, True, "except"))
                    visit_block(h.body)
                    return
            if any(contains(x) for x in s.orelse):
                visit_block(s.orelse)
            elif any(contains(x) for x in s.finalbody):
                visit_block(s.finalbody)
            return
        # an expression inside a conditional expression: (a if c else b)
        for n in ast.walk(s):
            if isinstance(n, ast.IfExp):
                if any(x is target for x in ast.walk(n.body)):
                    found.append((n.test, True, "enclosing-if"))
                elif any(x is target for x in ast.walk(n.orelse)):
                    found.append((n.test, False, "enclosing-if"))

    body = fi.node.body if isinstance(fi.node.body, list) else [ast.Expr(fi.node.body)]
    visit_block(body)
    # one form per fact: a leading `not` is folded into the polarity, so `if not c: B else: A` reads like `if c: A else: B`
    out = []
    for cond, pol, kind in found:
        while isinstance(cond, ast.UnaryOp) and isinstance(cond.op, ast.Not):
            cond, pol = cond.operand, not pol
        out.append((cond, pol, kind))
    return out


def enclosing_stmts(fi, target, types=(ast.With, ast.If, ast.For, ast.While, ast.Try)):
    """Enclosing compound statements of `target`, outermost first."""
    out = []

    def rec(stmts):
        for s in stmts:
            if not any(n is target for n in ast.walk(s)):
                continue
            if isinstance(s, types) and s is not target:
                out.append(s)
            for f in _BLOCK_FIELDS:
                blk = getattr(s, f, None)
                if isinstance(blk, list) and blk and isinstance(blk[0], ast.stmt):
                    rec(blk)
            if isinstance(s, ast.Try):
                for h in s.handlers:
                    rec(h.body)
            return
    body = fi.node.body if isinstance(fi.node.body, list) else []
    rec(body)
    return out


def with_contexts(fi, target):
    """Text of every context-manager expression whose ``with`` block encloses `target` (outermost first)."""
    out = []
    for s in enclosing_stmts(fi, target, types=(ast.With,)):
        for item in s.items:
            out.append(ast.unparse(item.context_expr))
    return out


def stmt_of(fi, target):
    """The innermost statement of fi containing `target`."""
    best = None
    for n in own_nodes(fi.node):
        if isinstance(n, ast.stmt) and any(x is target for x in ast.walk(n)):
            if best is None or any(x is n for x in ast.walk(best)):
                best = n
    return best


def is_const(expr, value):
    return isinstance(expr, ast.Constant) and expr.value == value and type(expr.value) is type(value)


def cond_text(cond, polarity):
    t = ast.unparse(cond)
    return t if polarity else f"not ({t})"


def find_stmts(fi, pred):
    return [n for n in own_nodes(fi.node) if isinstance(n, ast.stmt) and pred(n)]


def assignments_to(fi, name):
    """All (stmt, value_expr_or_None) assigning the simple name `name` inside fi (tuple targets give value None
    unless the value is a tuple of the same arity)."""
    out = []
    for n in own_nodes(fi.node):
        if isinstance(n, ast.Assign):
            for t in n.targets:
                if isinstance(t, ast.Name) and t.id == name:
                    out.append((n, n.value))
                elif isinstance(t, (ast.Tuple, ast.List)):
                    for i, e in enumerate(t.elts):
                        if isinstance(e, ast.Name) and e.id == name:
                            v = None
                            if isinstance(n.value, (ast.Tuple, ast.List)) and len(n.value.elts) == len(t.elts):
                                v = n.value.elts[i]
                            out.append((n, v))
        elif isinstance(n, ast.AugAssign) and isinstance(n.target, ast.Name) and n.target.id == name:
            out.append((n, None))
        elif isinstance(n, ast.AnnAssign) and isinstance(n.target, ast.Name) and n.target.id == name:
            out.append((n, n.value))
        elif isinstance(n, (ast.For, ast.AsyncFor)):
            for e in ast.walk(n.target):
                if isinstance(e, ast.Name) and e.id == name:
                    out.append((n, None))
        elif isinstance(n, ast.With):
            for it in n.items:
                if it.optional_vars is not None:
                    for e in ast.walk(it.optional_vars):
                        if isinstance(e, ast.Name) and e.id == name:
                            out.append((n, None))
    return out


def flatten_fact(cond, pol):
    """Conjuncts (text, polarity) known to hold given that `cond` evaluates to `pol`."""
    if isinstance(cond, ast.BoolOp) and isinstance(cond.op, ast.And) and pol:
        out = []
        for v in cond.values:
            out += flatten_fact(v, True)
        return out
    if isinstance(cond, ast.BoolOp) and isinstance(cond.op, ast.Or) and not pol:
        out = []
        for v in cond.values:
            out += flatten_fact(v, False)
        return out
    if isinstance(cond, ast.UnaryOp) and isinstance(cond.op, ast.Not):
        return flatten_fact(cond.operand, not pol)
    return [(ast.unparse(cond), pol)]


def facts_at(fi, node):
    """Flattened path facts [(text, polarity)] holding whenever `node` executes."""
    out = []
    for cond, pol, kind in path_conditions(fi, node):
        out += flatten_fact(cond, pol)
    return out


def resolve_alias(fi, expr, hops=3):
    """Follow single-assignment name aliases: x = y; y = <expr>  ->  <expr>."""
    while hops > 0 and isinstance(expr, ast.Name):
        binds = [v for _, v in assignments_to(fi, expr.id)]
        if len(binds) != 1 or binds[0] is None:
            return expr
        expr = binds[0]
        hops -= 1
    return expr
