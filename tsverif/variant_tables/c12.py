from ..variants import V, CORE

BS = CORE + "base_solver.py"

VARIANTS = [
    V("step-to-output", BS, "next_t = min(curr_t + step_size, ts[-1])", "next_t = min(curr_t + step_size, out_t)",
      rule="R12.1"),
    V("step-size-from-output", BS, "                    curr_t = next_t\n",
      "                    curr_t = next_t\n                    step_size = min(self.dt, out_t - curr_t) if out_t > curr_t else self.dt\n",
      rule="R12"),
    V("no-clip", BS, "next_t = min(curr_t + step_size, ts[-1])", "next_t = curr_t + step_size", rule="R12.2"),
    V("while-le", BS, "while curr_t < out_t:", "while curr_t <= out_t:", rule="R12.2"),
    V("while-prev", BS, "while curr_t < out_t:", "while prev_t < out_t:", rule="R12.2"),
    V("drop-prev", BS, "                else:\n                    prev_t, prev_y = curr_t, curr_y\n",
      "                else:\n", rule="R12.4"),
    V("prev-after-step", BS,
      "                    prev_t, prev_y = curr_t, curr_y\n                    curr_y, curr_extra = self.step(curr_t, next_t, curr_y, curr_extra)\n                    curr_t = next_t\n",
      "                    curr_y, curr_extra = self.step(curr_t, next_t, curr_y, curr_extra)\n                    prev_t, prev_y = curr_t, curr_y\n                    curr_t = next_t\n",
      rule="R12.4"),
    V("interp-swapped", BS, "interp.linear_interp(t0=prev_t, y0=prev_y, t1=curr_t, y1=curr_y, t=out_t)",
      "interp.linear_interp(t0=prev_t, y0=curr_y, t1=curr_t, y1=prev_y, t=out_t)", rule="R12.4"),
    V("append-curr", BS, "ys.append(interp.linear_interp(t0=prev_t, y0=prev_y, t1=curr_t, y1=curr_y, t=out_t))",
      "ys.append(curr_y)", rule="R12.4"),
    V("interp-weights", CORE + "interp.py", "y = (t1 - t) / (t1 - t0) * y0 + (t - t0) / (t1 - t0) * y1",
      "y = (t - t0) / (t1 - t0) * y0 + (t1 - t) / (t1 - t0) * y1", rule="R12.4"),
    V("interp-not-affine", CORE + "interp.py", "y = (t1 - t) / (t1 - t0) * y0 + (t - t0) / (t1 - t0) * y1",
      "y = (t1 - t) / (t1 - t0) * y0 + (t - t0) / (t1 - t0 + 1e-6) * y1", rule="R12.4"),
    V("ys-init", BS, "ys = [y0]", "ys = [y0 * (1 + 1e-12)]", rule="R12.3"),
    V("twin-ys-clone", BS, "ys = [y0]", "ys = [y0.clone() * 1.0]", expect="silent"),
    V("stack-dim", BS, "return torch.stack(ys, dim=0), curr_extra", "return torch.stack(ys, dim=1), curr_extra", rule="R12.3"),
    V("ts-dtype", CORE + "sdeint.py", "ts = torch.tensor(ts, dtype=y0.dtype, device=y0.device)",
      "ts = torch.tensor(ts, device=y0.device)", rule="R12.5"),
    V("for-skips", BS, "for out_t in ts[1:]:", "for out_t in ts[2:]:", rule="R12.3"),
    V("tail-advances-prev-t", BS, "            ys.append(interp.linear_interp(t0=prev_t, y0=prev_y, t1=curr_t, y1=curr_y, t=out_t))\n",
      "            ys.append(interp.linear_interp(t0=prev_t, y0=prev_y, t1=curr_t, y1=curr_y, t=out_t))\n            prev_t = out_t\n", rule="R12.4"),
    V("tail-snaps-curr", BS, "            ys.append(interp.linear_interp(t0=prev_t, y0=prev_y, t1=curr_t, y1=curr_y, t=out_t))\n",
      "            ys.append(interp.linear_interp(t0=prev_t, y0=prev_y, t1=curr_t, y1=curr_y, t=out_t))\n            curr_t, curr_y = out_t, ys[-1]\n", rule="R12"),
    # twins
    # once listed as a twin: equal over the reals, but not bit-identical at t = t1 (round-2 seed C13)
    V("interp-increment-form-w", CORE + "interp.py", "y = (t1 - t) / (t1 - t0) * y0 + (t - t0) / (t1 - t0) * y1",
      "w = (t - t0) / (t1 - t0)\n    y = y0 + w * (y1 - y0)", rule="R12.8"),
    V("twin-while-flip", BS, "while curr_t < out_t:", "while out_t > curr_t:", expect="silent"),
    V("twin-min-order", BS, "next_t = min(curr_t + step_size, ts[-1])", "next_t = min(ts[-1], step_size + curr_t)",
      expect="silent"),
    V("twin-positional", BS, "interp.linear_interp(t0=prev_t, y0=prev_y, t1=curr_t, y1=curr_y, t=out_t)",
      "interp.linear_interp(prev_t, prev_y, curr_t, curr_y, out_t)", expect="silent"),
]

SNAP = "                if ts[-1] - next_t < 1e-3 * step_size:\n"
VARIANTS += [
    V("grid-merge-half-step", CORE + "base_solver.py", SNAP, "                if ts[-1] - next_t < 0.6 * step_size:\n", rule="R12.7"),
    V("grid-merge-to-output-time", CORE + "base_solver.py", SNAP + "                    # The grid", "                if out_t - next_t < 1e-3 * step_size:\n                    # The grid", rule="R12.1"),
    V("grid-snap-sets-output-time", CORE + "base_solver.py", "                    next_t = ts[-1]\n", "                    next_t = out_t\n", rule="R12.1"),
    V("twin-grid-merge-le", CORE + "base_solver.py", SNAP, "                if ts[-1] - next_t <= 1e-3 * step_size:\n", expect="silent"),
    V("twin-grid-no-merge", CORE + "base_solver.py", SNAP, "                if ts[-1] - next_t < 0 * step_size:\n", expect="silent"),
]

LI = CORE + "interp.py"
FORM = "    y = (t1 - t) / (t1 - t0) * y0 + (t - t0) / (t1 - t0) * y1\n"
VARIANTS += [
    V("interp-increment-form", LI, FORM, "    y = y0 + (t - t0) / (t1 - t0) * (y1 - y0)\n", rule="R12.8"),
    V("interp-increment-from-right", LI, FORM, "    y = y1 - (t1 - t) / (t1 - t0) * (y1 - y0)\n", rule="R12.8"),
    V("twin-interp-weights", LI, FORM, "    w = (t - t0) / (t1 - t0)\n    y = (1 - w) * y0 + w * y1\n", expect="silent"),
    V("twin-interp-commuted", LI, FORM, "    y = (t - t0) / (t1 - t0) * y1 + (t1 - t) / (t1 - t0) * y0\n", expect="silent"),
]

VARIANTS += [
    V("twin-interp-endpoint-shortcut", LI, FORM, "    if t == t1:\n        return y1\n" + FORM, expect="silent"),
    V("interp-near-endpoint-shortcut-absolute", LI, FORM, "    if t1 - t <= 1e-5 * abs(t1):\n        return y1\n" + FORM, rule="R12"),
    V("twin-outputs-in-preallocated-tensor", CORE + "base_solver.py", "        ys = [y0]\n",
      "        ys = torch.empty(len(ts), *y0.shape, dtype=y0.dtype, device=y0.device)\n        ys[0] = y0\n", expect="silent",
      more=(("        for out_t in ts[1:]:\n", "        for i, out_t in enumerate(ts[1:], start=1):\n"),
            ("            ys.append(interp.linear_interp(t0=prev_t, y0=prev_y, t1=curr_t, y1=curr_y, t=out_t))\n",
             "            ys[i] = interp.linear_interp(t0=prev_t, y0=prev_y, t1=curr_t, y1=curr_y, t=out_t)\n"),
            ("        return torch.stack(ys, dim=0), curr_extra\n", "        return ys, curr_extra\n"))),
    V("buffer-written-at-wrong-row", CORE + "base_solver.py", "        ys = [y0]\n",
      "        ys = torch.empty(len(ts), *y0.shape, dtype=y0.dtype, device=y0.device)\n        ys[0] = y0\n", rule="R12.3",
      more=(("        for out_t in ts[1:]:\n", "        for i, out_t in enumerate(ts[1:], start=1):\n"),
            ("            ys.append(interp.linear_interp(t0=prev_t, y0=prev_y, t1=curr_t, y1=curr_y, t=out_t))\n",
             "            ys[i - 1] = interp.linear_interp(t0=prev_t, y0=prev_y, t1=curr_t, y1=curr_y, t=out_t)\n"),
            ("        return torch.stack(ys, dim=0), curr_extra\n", "        return ys, curr_extra\n"))),
]

VARIANTS += [
    # round-5 C17 seed: Brownian-bridge dense output for the additive declaration. The reported value inside a step is no
    # longer the linear interpolant (C12), but the solver still continues from the grid state and the reported values
    # converge at least as fast (C01 holds)
    V("additive-bridge-dense-output", CORE + "base_solver.py", "            ys.append(interp.linear_interp(t0=prev_t, y0=prev_y, t1=curr_t, y1=curr_y, t=out_t))",
      "            out_y = interp.linear_interp(t0=prev_t, y0=prev_y, t1=curr_t, y1=curr_y, t=out_t)\n            if self.sde.noise_type == NOISE_TYPES.additive and prev_t < out_t < curr_t:\n                theta = (out_t - prev_t) / (curr_t - prev_t)\n                bridge = self.bm(prev_t, out_t) - theta * self.bm(prev_t, curr_t)\n                out_y = out_y + self.sde.g_prod(prev_t, prev_y, bridge)\n            ys.append(out_y)", rule="R12.4"),
]

TSCONV = "ts = torch.tensor(ts, dtype=y0.dtype, device=y0.device)"
VARIANTS += [
    # round-5 C13 seed: the list is first held in torch's default dtype
    V("ts-through-default-dtype", CORE + "sdeint.py", TSCONV, "ts = torch.tensor(ts).to(y0)", rule="R12.5"),
    V("ts-as-tensor-default-then-type-as", CORE + "sdeint.py", TSCONV, "ts = torch.as_tensor(ts).type_as(y0)", rule="R12.5"),
    V("ts-float32-then-y0", CORE + "sdeint.py", TSCONV, "ts = torch.tensor(ts, dtype=torch.float32).to(y0)", rule="R12.5"),
    V("ts-wrong-device", CORE + "sdeint.py", TSCONV, "ts = torch.tensor(ts, dtype=y0.dtype)", rule="R12.5"),
    # other spellings of the same conversion
    V("twin-ts-dtype-then-device", CORE + "sdeint.py", TSCONV, "ts = torch.tensor(ts, dtype=y0.dtype).to(y0.device)", expect="silent"),
    V("twin-ts-float64-then-y0", CORE + "sdeint.py", TSCONV, "ts = torch.tensor(ts, dtype=torch.float64).to(y0)", expect="silent"),
    V("twin-ts-as-tensor", CORE + "sdeint.py", TSCONV, "ts = torch.as_tensor(ts, dtype=y0.dtype, device=y0.device)", expect="silent"),
    V("twin-ts-to-keywords", CORE + "sdeint.py", TSCONV, "ts = torch.tensor(ts, dtype=torch.float64).to(dtype=y0.dtype, device=y0.device)", expect="silent"),
]

GUARD = "                if not next_t > curr_t:\n"
VARIANTS += [
    # session-4 repair: the stepping loop raises when the trial step cannot advance the clock (the unrepaired code looped)
    V("clock-guard-removed", BS, GUARD, "                if False:\n", rule="R12.9"),
    V("clock-guard-strict-only", BS, GUARD, "                if next_t < curr_t:\n", rule="R12.9"),
    V("twin-clock-guard-spelled-le", BS, GUARD, "                if next_t <= curr_t:\n", expect="silent"),
]

APPEND = "            ys.append(interp.linear_interp(t0=prev_t, y0=prev_y, t1=curr_t, y1=curr_y, t=out_t))"
BUF_MORE = (("        for out_t in ts[1:]:\n", "        for i, out_t in enumerate(ts[1:], start=1):\n"),
            (APPEND, "            ys[i] = interp.linear_interp(t0=prev_t, y0=prev_y, t1=curr_t, y1=curr_y, t=out_t)"),
            ("        return torch.stack(ys, dim=0), curr_extra", "        return ys, curr_extra"))
VARIANTS += [
    # round-6 seed: the output tensor preallocated from ts (its dtype, not y0's)
    V("output-buffer-allocated-from-ts", BS, "        ys = [y0]\n", "        ys = ts.new_empty((len(ts), *y0.shape))\n        ys[0] = y0\n",
      rule="R12.3", more=BUF_MORE),
    V("twin-output-buffer-allocated-from-y0", BS, "        ys = [y0]\n", "        ys = y0.new_empty((len(ts), *y0.shape))\n        ys[0] = y0\n",
      expect="silent", more=BUF_MORE),
]

VARIANTS += [
    # R12.10's clock pre-pass (the step function replaced by a recorder): drivers that step off the grid ts[0] + k dt are
    # reported from the (t0, t1) pairs alone and their states are not evaluated (round-1 / round-5 seeds that made the
    # replay of the states run for an hour before the pre-pass existed)
    V("replay-steps-snap-to-output-times", BS, "next_t = min(curr_t + step_size, ts[-1])\n",
      "next_t = curr_t + step_size\n                if next_t > out_t - 1e-5 * step_size:\n                    next_t = out_t\n",
      rule="R12.10"),
    V("replay-continues-from-interpolated-output", BS, APPEND,
      "            out_y = interp.linear_interp(t0=prev_t, y0=prev_y, t1=curr_t, y1=curr_y, t=out_t)\n"
      "            if prev_t < out_t < curr_t:\n                curr_t, curr_y = out_t, out_y\n            ys.append(out_y)", rule="R12.10"),
    V("twin-replay-clip-spelled-with-if", BS, "next_t = min(curr_t + step_size, ts[-1])\n",
      "next_t = curr_t + step_size\n                if next_t > ts[-1]:\n                    next_t = ts[-1]\n", expect="silent"),
]

VARIANTS += [
    # R12.11: seeded random output-time lists against the real driver with an uninterpreted chained step
    V("chained-output-near-step-end-returns-step-end", BS, APPEND,
      "            if curr_t - out_t < 1e-3 * step_size:\n                ys.append(curr_y)\n            else:\n    " + APPEND,
      rule="R12.11"),
    V("chained-grid-anchored-at-zero", BS, "next_t = min(curr_t + step_size, ts[-1])\n",
      "next_t = min((torch.floor(curr_t / step_size + 1e-9) + 1) * step_size, ts[-1])\n", rule="R12.11"),
    V("twin-chained-interp-keywords-reordered", BS, APPEND,
      "            ys.append(interp.linear_interp(t=out_t, t0=prev_t, y0=prev_y, t1=curr_t, y1=curr_y))", expect="silent"),
]
