from ..variants import V, CORE

BS = CORE + "base_solver.py"
AD = CORE + "adaptive_stepping.py"

VARIANTS = [
    V("accept-all", BS, "if error_estimate <= 1 or step_size <= self.dt_min:", "if True or error_estimate <= 1:", rule="R14.1"),
    V("accept-threshold", BS, "if error_estimate <= 1 or step_size <= self.dt_min:",
      "if error_estimate <= 2 or step_size <= self.dt_min:", rule="R14.1"),
    V("accept-strict-dtmin", BS, "if error_estimate <= 1 or step_size <= self.dt_min:",
      "if error_estimate <= 1 or step_size < self.dt_min:", rule="R14.1"),
    V("accept-and", BS, "if error_estimate <= 1 or step_size <= self.dt_min:",
      "if error_estimate <= 1 and step_size <= self.dt_min:", rule="R14.1"),
    V("advance-outside-accept", BS,
      "                        curr_t, curr_y, curr_extra = next_t, next_y, next_extra\n",
      "                        pass\n                    curr_t, curr_y, curr_extra = next_t, next_y, next_extra\n", rule="R14.1"),
    V("error-full-vs-full", BS, "adaptive_stepping.compute_error(next_y_full, next_y, self.rtol, self.atol)",
      "adaptive_stepping.compute_error(next_y_full, next_y_full, self.rtol, self.atol)", rule="R14.2"),
    V("accept-full-step", BS, "curr_t, curr_y, curr_extra = next_t, next_y, next_extra",
      "curr_t, curr_y, curr_extra = next_t, next_y_full, next_extra", rule="R14.2"),
    V("midpoint-third", BS, "midpoint_t = 0.5 * (curr_t + next_t)", "midpoint_t = curr_t + (next_t - curr_t) / 3", rule="R14.2"),
    V("tols-swapped", BS, "compute_error(next_y_full, next_y, self.rtol, self.atol)",
      "compute_error(next_y_full, next_y, self.atol, self.rtol)", rule="R14.2"),
    V("rms-no-clamp", AD, "return torch.sqrt(sum((x_ ** 2.).sum() for x_ in x) / sum(x_.numel() for x_ in x)).clamp_min(eps)",
      "return torch.sqrt(sum((x_ ** 2.).sum() for x_ in x) / sum(x_.numel() for x_ in x))", rule="R14.2"),
    V("norm-no-rtol", AD, "(rtol * torch.max(torch.abs(y11_), torch.abs(y12_)) + atol).clamp_min(eps)",
      "(0 * rtol * torch.max(torch.abs(y11_), torch.abs(y12_)) + atol).clamp_min(eps)", rule="R14.2"),
    V("norm-sum-not-rms", AD, "return torch.sqrt(sum((x_ ** 2.).sum() for x_ in x) / sum(x_.numel() for x_ in x)).clamp_min(eps)",
      "return torch.sqrt(sum((x_ ** 2.).sum() for x_ in x)).clamp_min(eps)", rule="R14.2"),
    V("controller-safety", AD, "def update_step_size(error_estimate, prev_step_size, safety=0.9,",
      "def update_step_size(error_estimate, prev_step_size, safety=1.1,", rule="R14.3"),
    V("controller-facmin-accept", AD, "        prev_error_ratio = error_ratio\n        facmin = 1.0\n",
      "        prev_error_ratio = error_ratio\n        facmin = 0.5\n", rule="R14.3"),
    V("controller-ifactor-neg", AD, "ifactor = 1 / 1.5  # 1 / 5", "ifactor = -1 / 1.5", rule="R14.3"),
    V("controller-pfactor-reject", AD, "        pfactor = 0\n", "        pfactor = 0.2\n", rule="R14.3"),
    V("controller-sum", AD, "new_step_size = prev_step_size * factor", "new_step_size = prev_step_size + factor", rule="R14.3"),
    V("no-clamp", BS, "                        step_size = self.dt_min\n", "                        pass\n", rule="R14.4"),
    V("control-with-grad", BS, "                    with torch.no_grad():\n", "                    if True:\n", rule="R14.5"),
    V("stale-half-step", BS, "midpoint_y, midpoint_extra = self.step(curr_t, midpoint_t, curr_y, curr_extra)",
      "midpoint_y, midpoint_extra = self.step(curr_t, midpoint_t, next_y_full, curr_extra)", rule="R14"),
    # twins
    V("twin-accept-demorgan", BS, "if error_estimate <= 1 or step_size <= self.dt_min:",
      "if not (error_estimate > 1 and step_size > self.dt_min):", expect="silent"),
    V("twin-midpoint-form", BS, "midpoint_t = 0.5 * (curr_t + next_t)", "midpoint_t = curr_t + (next_t - curr_t) / 2",
      expect="silent"),
    V("twin-facmax", AD, "facmin=0.2, facmax=1.4", "facmin=0.1, facmax=2.0", expect="silent"),
]

VARIANTS += [
    # the defect repaired by 0650c92: the controller scaled the nominal step size instead of the (clipped) trial
    V("controller-scales-nominal-step", BS, "prev_step_size=next_t - curr_t,", "prev_step_size=step_size,", rule="R14.3"),
    V("twin-controller-trial-length-temporary", BS, "                    with torch.no_grad():\n                        error_estimate", "                    tried = next_t - curr_t\n                    with torch.no_grad():\n                        error_estimate", expect="silent"),
    # the defect repaired in /repo: the initial step size is not clamped to dt_min
    V("first-trial-unclamped", CORE + "base_solver.py", "        if self.adaptive and step_size < self.dt_min:\n", "        if False and step_size < self.dt_min:\n", rule="R14.7"),
    V("first-trial-clamped-to-twice-dt-min", CORE + "base_solver.py", "            # The initial step size is a proposal like any later one: no trial step is shorter than `dt_min`.\n            step_size = self.dt_min\n", "            step_size = 2 * self.dt_min\n", rule="R14.7"),
    V("twin-first-trial-max", CORE + "base_solver.py", "        if self.adaptive and step_size < self.dt_min:\n            # The initial step size is a proposal like any later one: no trial step is shorter than `dt_min`.\n            step_size = self.dt_min\n",
      "        if self.adaptive:\n            step_size = max(step_size, self.dt_min)\n", expect="silent"),
    V("reject-shrink-factor-unclamped", CORE + "adaptive_stepping.py", "    factor = min(facmax, max(facmin, factor))\n",
      "    factor = min(facmax, factor) if error_estimate > 1 else min(facmax, max(facmin, factor))\n", rule="R14.3"),
]

VARIANTS += [
    V("clock-guard-removed", CORE + "base_solver.py", "                if not next_t > curr_t:\n", "                if False:\n", rule="R14.8"),
    V("twin-clock-guard-spelled-le", CORE + "base_solver.py", "                if not next_t > curr_t:\n", "                if next_t <= curr_t:\n", expect="silent"),
]

ACCEPT = "                    if error_estimate <= 1 or step_size <= self.dt_min:\n"
VARIANTS += [
    # R14.9: the statement on traces of the real adaptive driver under seeded scripted controller schedules
    V("scripted-accepts-every-trial", BS, ACCEPT, "                    if True:\n", rule="R14.9"),
    V("scripted-accepts-the-full-step", BS, "                        curr_t, curr_y, curr_extra = next_t, next_y, next_extra\n",
      "                        curr_t, curr_y, curr_extra = next_t, next_y_full, next_extra\n", rule="R14.9"),
    V("scripted-error-of-first-half-step", BS, "adaptive_stepping.compute_error(next_y_full, next_y, self.rtol, self.atol)",
      "adaptive_stepping.compute_error(next_y_full, midpoint_y, self.rtol, self.atol)", rule="R14.9"),
    V("scripted-retry-not-smaller", BS, "                        step_size = self.dt_min\n                        prev_error_ratio = None\n",
      "                        step_size = self.dt_min\n                        prev_error_ratio = None\n"
      "                    if error_estimate > 1 and step_size > self.dt_min:\n                        step_size = max(step_size, next_t - curr_t)\n",
      rule="R14.9"),
    V("twin-scripted-accept-spelled-by-de-morgan", BS, ACCEPT,
      "                    if not (error_estimate > 1 and step_size > self.dt_min):\n", expect="silent"),
]
