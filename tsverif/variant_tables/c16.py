from ..variants import V, CORE

BS = CORE + "base_sde.py"

VARIANTS = [
    V("default1-wrong-pair", BS, "        return self.f(t, y), self.g_prod(t, y, v)\n", "        return self.g_prod(t, y, v), self.f(t, y)\n", rule="R16.1"),
    V("default2-no-prod", BS, "        f, g = self.f_and_g(t, y)\n        return f, self.prod(g, v)", "        f, g = self.f_and_g(t, y)\n        return f, g * v.unsqueeze(-2)", rule="R16.1"),
    V("fandg-default-swapped", BS, "        return self.f(t, y), self.g(t, y)\n", "        return self.g(t, y), self.f(t, y)\n", rule="R16.1"),
    V("gprod-default-time", BS, "        return self.prod(self.g(t, y), v)\n", "        return self.prod(self.g(0 * t, y), v)\n", rule="R16.1"),
    V("registration-prefers-default", BS, "        if hasattr(sde, 'f_and_g_prod'):\n            self.f_and_g_prod = sde.f_and_g_prod\n        elif hasattr(sde, 'f') and hasattr(sde, 'g_prod'):",
      "        if hasattr(sde, 'f_and_g_prod') and not hasattr(sde, 'f'):\n            self.f_and_g_prod = sde.f_and_g_prod\n        elif hasattr(sde, 'f') and hasattr(sde, 'g_prod'):", rule="R16.1"),
    V("f-default-silent", BS, "        raise RuntimeError(\"Method `f` has not been provided, but is required for this method.\")",
      "        return 0. * y", rule="R16.1"),
    V("g-slot-mixup", BS, "        self.g = getattr(sde, 'g', self.g_default)", "        self.g = getattr(sde, 'g_prod', self.g_default)", rule="R16.1"),
    V("prod-diagonal-general", BS, "            NOISE_TYPES.diagonal: self.prod_diagonal\n        }.get(sde.noise_type, self.prod_default)",
      "            NOISE_TYPES.diagonal: self.prod_diagonal\n        }.get(sde.noise_type)", rule="R16"),
    V("prod-table-swapped", BS, "            NOISE_TYPES.diagonal: self.prod_diagonal\n", "            NOISE_TYPES.general: self.prod_diagonal\n", rule="R16"),
    V("batch-mvp-dim", CORE + "misc.py", "return torch.bmm(m, v.unsqueeze(-1)).squeeze(dim=-1)", "return torch.bmm(m.transpose(1, 2), v.unsqueeze(-1)).squeeze(dim=-1)", rule="R16.2"),
    V("rename-shifted", BS, "                               (drift, diffusion, prior_drift, diffusion_prod, drift_and_diffusion,\n                                drift_and_diffusion_prod)):",
      "                               (drift, diffusion, diffusion_prod, prior_drift, drift_and_diffusion,\n                                drift_and_diffusion_prod)):", rule="R16.3"),
    V("rename-default", BS, "drift_and_diffusion='f_and_g', drift_and_diffusion_prod='f_and_g_prod'):", "drift_and_diffusion='f_and_g_prod', drift_and_diffusion_prod='f_and_g'):", rule="R16.3"),
    V("rename-fallback", BS, "            except AttributeError:\n                pass\n", "            except AttributeError:\n                setattr(self, name, None)\n", rule="R16.3"),
    V("names-key-typo", CORE + "sdeint.py", "key in (\"drift\", \"diffusion\", \"prior_drift\", \"drift_and_diffusion\",", "key in (\"drift\", \"difusion\", \"prior_drift\", \"drift_and_diffusion\",", rule="R16.3"),
    V("solver-uses-missing-slot", CORE + "methods/euler.py", "f, g_prod = self.sde.f_and_g_prod(t0, y0, I_k)", "f, g_prod = self.sde.f_and_gprod(t0, y0, I_k)", rule="R16"),
    V("levy-jac-ga-transposed", BS, "            ga = torch.bmm(g, a)\n            dg_ga_jvp = [", "            ga = torch.bmm(g, a.transpose(1, 2))\n            dg_ga_jvp = [", rule="R16.6"),
    V("levy-jac-wrong-column", BS, "                    grad_inputs=ga[..., col_idx],\n", "                    grad_inputs=ga[..., 0],\n", rule="R16.6"),
    V("levy-jac-table", BS, "        }.get(sde.noise_type, self._return_zero)", "        }.get(sde.noise_type, self.dg_ga_jvp_column_sum_v1)", rule="R16.6"),
    V("gdg-additive-nonzero", BS, "        return self.g_prod(t, y, v1), 0.\n", "        return self.g_prod(t, y, v1), self.g_prod(t, y, v2)\n", rule="R16.5"),
    V("fast-jac-repeat-tile", BS, "y_dup = torch.repeat_interleave(y, repeats=m, dim=0)", "y_dup = y.repeat(m, 1)", rule="R16.7"),
    V("fast-jac-flatten-order", BS, "ga_flat = ga.transpose(1, 2).flatten(0, 1)", "ga_flat = ga.permute(2, 0, 1).flatten(0, 1)", rule="R16.7"),
    V("fast-jac-reshape-order", BS, "dg_ga_jvp = dg_ga_jvp.reshape(batch_size, m, d, m).permute(0, 2, 1, 3)", "dg_ga_jvp = dg_ga_jvp.reshape(m, batch_size, d, m).permute(1, 2, 0, 3)", rule="R16.7"),
    V("fast-jac-no-transpose", BS, "ga_flat = ga.transpose(1, 2).flatten(0, 1)", "ga_flat = ga.flatten(0, 1)", rule="R16.7"),
    V("fast-jac-wrong-diagonal", BS, "dg_ga_jvp = dg_ga_jvp.diagonal(dim1=-2, dim2=-1).sum(-1)", "dg_ga_jvp = dg_ga_jvp.diagonal(dim1=1, dim2=3).sum(-1)", rule="R16.7"),
    V("twin-fast-jac-consistent-tile", BS, "            y_dup = torch.repeat_interleave(y, repeats=m, dim=0)\n            g_dup = self.g(t, y_dup)\n            ga_flat = ga.transpose(1, 2).flatten(0, 1)",
      "            y_dup = y.repeat(m, 1)\n            g_dup = self.g(t, y_dup)\n            ga_flat = ga.permute(2, 0, 1).flatten(0, 1)", rule="R16.7"),
    # twins
    V("twin-fast-jac-all-tiled", BS, "            y_dup = torch.repeat_interleave(y, repeats=m, dim=0)\n            g_dup = self.g(t, y_dup)\n            ga_flat = ga.transpose(1, 2).flatten(0, 1)\n            dg_ga_jvp, = misc.jvp(\n                outputs=g_dup,\n                inputs=y_dup,\n                grad_inputs=ga_flat,\n                create_graph=requires_grad,\n                allow_unused=True\n            )\n            dg_ga_jvp = dg_ga_jvp.reshape(batch_size, m, d, m).permute(0, 2, 1, 3)",
      "            y_dup = y.repeat(m, 1)\n            g_dup = self.g(t, y_dup)\n            ga_flat = ga.permute(2, 0, 1).flatten(0, 1)\n            dg_ga_jvp, = misc.jvp(\n                outputs=g_dup,\n                inputs=y_dup,\n                grad_inputs=ga_flat,\n                create_graph=requires_grad,\n                allow_unused=True\n            )\n            dg_ga_jvp = dg_ga_jvp.reshape(m, batch_size, d, m).permute(1, 2, 0, 3)", expect="silent"),
    V("twin-default2-inline", BS, "        f, g = self.f_and_g(t, y)\n        return f, self.prod(g, v)", "        fg = self.f_and_g(t, y)\n        return fg[0], self.prod(fg[1], v)", expect="silent"),
]

VARIANTS += [
    # round-3 seed: misc.jvp "tidied" to return a bare tensor for a single output while one caller still indexes [0]
    V("misc-jvp-returns-bare-tensor", "torchsde/_core/misc.py", "    return convert_none_to_zeros(_jvp, dummy_outputs)\n",
      "    _jvp = convert_none_to_zeros(_jvp, dummy_outputs)\n    return _jvp[0] if len(_jvp) == 1 else _jvp\n", rule="R16"),
    V("twin-misc-jvp-temporary", "torchsde/_core/misc.py", "    return convert_none_to_zeros(_jvp, dummy_outputs)\n",
      "    out = convert_none_to_zeros(_jvp, dummy_outputs)\n    return out\n", expect="silent"),
]

VARIANTS += [
    # session-4 repair: a combined method under its default name outlives the renaming of a part (the unrepaired code)
    V("rename-keeps-stale-fused", BS, "            if name in stale:\n                continue\n", "", rule="R16.9"),
    V("rename-stale-forgets-fused-prod", BS, "            if drift_and_diffusion_prod == 'f_and_g_prod':\n                stale.add('f_and_g_prod')\n", "", rule="R16.9"),
    V("rename-stale-only-for-drift", BS, "        if drift != 'f' or diffusion != 'g':\n            if drift_and_diffusion", "        if drift != 'f':\n            if drift_and_diffusion", rule="R16.9"),
    V("rename-stale-drops-explicitly-renamed-fused", BS, "            if drift_and_diffusion == 'f_and_g':\n                stale.add('f_and_g')\n", "            stale.add('f_and_g')\n", rule="R16"),
    V("twin-rename-stale-as-list", BS, "        stale = set()\n        if diffusion != 'g' and diffusion_prod == 'g_prod':\n            stale.add('g_prod')\n",
      "        stale = set()\n        if diffusion_prod == 'g_prod' and not diffusion == 'g':\n            stale.update(['g_prod'])\n", expect="silent"),
]

VARIANTS += [
    # session-4 repair: the autograd helpers refuse inference mode (the unrepaired helpers returned silent zeros)
    V("vjp-runs-under-inference-mode", "torchsde/_core/misc.py", "def vjp(outputs, inputs, **kwargs):\n    _assert_autograd_available()\n",
      "def vjp(outputs, inputs, **kwargs):\n", rule="R16.10"),
    V("inference-mode-guard-warns-only", "torchsde/_core/misc.py", "        raise RuntimeError(\"This computation differentiates",
      "        warnings.warn(\"This computation differentiates", rule="R16.10"),
    V("twin-inference-mode-guard-inline", "torchsde/_core/misc.py", "def vjp(outputs, inputs, **kwargs):\n    _assert_autograd_available()\n",
      "def vjp(outputs, inputs, **kwargs):\n    if torch.is_inference_mode_enabled():\n        raise RuntimeError('no autograd under torch.inference_mode()')\n", expect="silent"),
]
