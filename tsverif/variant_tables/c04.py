from ..variants import V, BI

VARIANTS = [
    V("same-seed-X2", BI, "X2 = parent._randn(parent._H_seed)", "X2 = parent._randn(parent._W_seed)", rule="R04"),
    V("bridge-v-coefficient", BI, "v = 0.5 * math.sqrt(left_diff * right_diff / (left_diff_cubed + right_diff_cubed))",
      "v = 0.5 * math.sqrt(left_diff * right_diff / (left_diff_cubed + right_diff_squared))", rule="R04.1"),
    V("bridge-rsqrt3", BI, "_rsqrt3 = 1 / math.sqrt(3)", "_rsqrt3 = 1 / math.sqrt(2)", rule="R04.1"),
    V("bridge-third", BI, "third_coeff = 2 * (a * left_diff + b * right_diff) * h_reciprocal",
      "third_coeff = (a * left_diff + b * right_diff) * h_reciprocal", rule="R04.1"),
    V("bridge-c-swap", BI, "out_H = first_coeff ** 2 * H - a * X1 + c * right_diff * X2",
      "out_H = first_coeff ** 2 * H - a * X1 + c * left_diff * X2", rule="R04.1"),
    V("noH-var", BI, "var = left_diff * right_diff * h_reciprocal", "var = left_diff * right_diff", rule="R04.1"),
    V("top-H-scale", BI, "H = self._randn(initial_H_seed) * math.sqrt((self._end - self._start) / 12)",
      "H = self._randn(initial_H_seed) * math.sqrt((self._end - self._start) / 10)", rule="R04.2"),
    V("top-W-scale", BI, "W = self._randn(initial_W_seed) * math.sqrt(self._end - self._start)",
      "W = self._randn(initial_W_seed) * (self._end - self._start)", rule="R04.2"),
    V("top-same-seed", BI, "H = self._randn(initial_H_seed) * math.sqrt((self._end - self._start) / 12)",
      "H = self._randn(initial_W_seed) * math.sqrt((self._end - self._start) / 12)", rule="R04"),
    V("supplied-W-rescaled", BI, "            _assert_floating_tensor('W', W)\n",
      "            _assert_floating_tensor('W', W)\n            W = W * 1.0000001\n", rule="R04.2"),
    V("node-seeds-three", BI, "self._W_seed, self._H_seed, self._left_a_seed, self._right_a_seed = generator.generate_state(4, dtype=np.uint64)",
      "self._W_seed, self._H_seed, self._left_a_seed = generator.generate_state(3, dtype=np.uint64)\n        self._right_a_seed = self._left_a_seed",
      rule="R04.3"),
    V("levy-seed-same-child", BI, "return self._parent._left_a_seed if self._is_left else self._parent._right_a_seed",
      "return self._parent._left_a_seed", rule="R04.3"),
    V("davie-std", BI, "std = math.sqrt(0.5 * _r12 * h ** 2)", "std = math.sqrt(_r12 * h ** 2)", rule="R04.4"),
    V("foster-const", BI, "std = (tenth_h * (0.25 * h + H_squared.unsqueeze(-1) + H_squared.unsqueeze(-2))).sqrt()",
      "std = (tenth_h * (tenth_h + H_squared.unsqueeze(-1) + H_squared.unsqueeze(-2))).sqrt()", rule="R04.4"),
    V("levy-mean-sign", BI, "A = H.unsqueeze(-1) * W.unsqueeze(-2) - W.unsqueeze(-1) * H.unsqueeze(-2)",
      "A = W.unsqueeze(-1) * H.unsqueeze(-2) - H.unsqueeze(-1) * W.unsqueeze(-2)", rule="R04.4"),
    V("noise-broadcast-shape", BI, "        size = self._top._size\n        return _randn(size, self._top._dtype, self._top._device, seed)",
      "        size = self._top._size[-1:]\n        return _randn(size, self._top._dtype, self._top._device, seed)", rule="R04.5"),
    V("levy-noise-shape", BI, "size = (*self._top._size, *self._top._size[-1:])\n        return _randn(",
      "size = (*self._top._size[-1:], *self._top._size[-1:])\n        return _randn(", rule="R04.5"),
    V("agg-A-cross-sign", BI, "A = A + Ai + 0.5 * (W.unsqueeze(-1) * Wi.unsqueeze(-2) - Wi.unsqueeze(-1) * W.unsqueeze(-2))",
      "A = A + Ai + 0.5 * (Wi.unsqueeze(-1) * W.unsqueeze(-2) - W.unsqueeze(-1) * Wi.unsqueeze(-2))", rule="R04.6"),
    V("agg-A-cross-dropped", BI, "A = A + Ai + 0.5 * (W.unsqueeze(-1) * Wi.unsqueeze(-2) - Wi.unsqueeze(-1) * W.unsqueeze(-2))",
      "A = A + Ai", rule="R04.6"),
    V("agg-H-weights", BI, "term1 = (interval._end - interval._start) * (Hi + 0.5 * W)", "term1 = (interval._end - interval._start) * (Hi + 0.25 * W)", rule="R04.7"),
    V("agg-H-no-cross", BI, "term2 = (interval._start - ta) * (H - 0.5 * Wi)", "term2 = (interval._start - ta) * H", rule="R04.7"),
    # twins
    V("twin-v-form", BI, "v = 0.5 * math.sqrt(left_diff * right_diff / (left_diff_cubed + right_diff_cubed))",
      "v = math.sqrt(0.25 * left_diff * right_diff / (left_diff_cubed + right_diff_cubed))", expect="silent"),
    V("twin-davie-form", BI, "std = math.sqrt(0.5 * _r12 * h ** 2)", "std = h * math.sqrt(1 / 24)", expect="silent"),
    V("twin-top-scale", BI, "H = self._randn(initial_H_seed) * math.sqrt((self._end - self._start) / 12)",
      "H = math.sqrt(_r12 * (self._end - self._start)) * self._randn(initial_H_seed)", expect="silent"),
]

VARIANTS += [
    # the defect repaired by 1782d79: rounding grid coarser than tol
    V("ndigits-truncated", BI, "ndigits = math.ceil(-math.log10(tol))", "ndigits = -int(math.log10(tol))", rule="R04.8"),
    V("ndigits-floor", BI, "ndigits = math.ceil(-math.log10(tol))", "ndigits = math.floor(-math.log10(tol))", rule="R04.8"),
    V("twin-ndigits-int-ceil", BI, "ndigits = math.ceil(-math.log10(tol))", "ndigits = int(math.ceil(-math.log10(tol)))", expect="silent"),
    V("twin-ndigits-one-finer", BI, "ndigits = math.ceil(-math.log10(tol))", "ndigits = math.ceil(-math.log10(tol)) + 1", expect="silent"),
    # the defect repaired by 81158f6: 32-bit seeds
    V("node-seeds-32-bit", BI, "generator.generate_state(4, dtype=np.uint64)", "generator.generate_state(4)", rule="R04.9"),
    V("top-seeds-32-bit", BI, "generator.generate_state(3, dtype=np.uint64)", "generator.generate_state(3, dtype=np.uint32)", rule="R04.9"),
    V("twin-seeds-positional-dtype", BI, "generator.generate_state(3, dtype=np.uint64)", "generator.generate_state(3, np.uint64)", expect="silent"),
    # the defect repaired by caeeaa1: a 32-bit consumer of the 64-bit seeds on CPU
    V("cpu-noise-from-torch-generator-again", BI, "    if torch.device(device).type == 'cpu':\n", "    if False:\n", rule="R04.9"),
    V("twin-cpu-noise-philox", BI, "np.random.Generator(np.random.PCG64(int(seed)))", "np.random.Generator(np.random.Philox(int(seed)))", expect="silent"),
]

VARIANTS += [
    # session-4 repair: the root's variance is the length of the node it covers (the unrepaired code used t1 - t0)
    V("root-variance-unrounded-length", BI, "W = self._randn(initial_W_seed) * math.sqrt(self._end - self._start)",
      "W = self._randn(initial_W_seed) * math.sqrt(t1 - t0)", rule="R04.2"),
    V("root-H-variance-unrounded-length", BI, "H = self._randn(initial_H_seed) * math.sqrt((self._end - self._start) / 12)",
      "H = self._randn(initial_H_seed) * math.sqrt((t1 - t0) / 12)", rule="R04.2"),
    V("twin-root-length-temporary", BI, "            W = self._randn(initial_W_seed) * math.sqrt(self._end - self._start)",
      "            length = self._round(t1) - self._round(t0)\n            W = self._randn(initial_W_seed) * math.sqrt(length)", expect="silent"),
]

VARIANTS += [
    # positive fixture of R04.12 (the law over all distinct intervals of seeded random histories)
    V("random-histories-space-time-noise-scale", BI, "                c = v * _rsqrt3\n", "                c = v * 0.5\n", rule="R04.12"),
]
