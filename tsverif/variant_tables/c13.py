from ..variants import V, M, CORE

BS = CORE + "base_solver.py"
SD = CORE + "sdeint.py"

VARIANTS = [
    V("solver-caches-step", M + "midpoint.py", "        y1 = y0 + dt * f_prime + g_prod_prime\n", "        y1 = y0 + dt * f_prime + g_prod_prime\n        self._prev_f = f_prime\n", rule="R13.1"),
    V("solver-step-counter", BS, "                    curr_t = next_t\n", "                    curr_t = next_t\n                    self.num_steps = getattr(self, 'num_steps', 0) + 1\n", rule="R13.1"),
    V("sde-memo", CORE + "base_sde.py", "    def g_prod_default(self, t, y, v):\n        return self.prod(self.g(t, y), v)", "    def g_prod_default(self, t, y, v):\n        self._last_g = self.g(t, y)\n        return self.prod(self._last_g, v)", rule="R13.1"),
    V("module-cache", CORE + "misc.py", "def seq_add(*seqs):\n    return [sum(seq) for seq in zip(*seqs)]", "_CACHE = {}\n\n\ndef seq_add(*seqs):\n    _CACHE['last'] = seqs\n    return [sum(seq) for seq in zip(*seqs)]", rule="R13.1"),
    V("global-step-size", BS, "        step_size = self.dt\n", "        global _LAST_DT\n        step_size = self.dt\n        _LAST_DT = step_size\n", rule="R13.1"),
    V("options-mutated-in-step", M + "milstein.py", "        if self.options[METHOD_OPTIONS.grad_free]:\n            f, g = self.sde.f_and_g(t0, y0)", "        if self.options.setdefault(METHOD_OPTIONS.grad_free, False):\n            f, g = self.sde.f_and_g(t0, y0)", expect="silent"),
    V("extra-state-ignored", SD, "    if extra_solver_state is None:\n        extra_solver_state = solver.init_extra_solver_state(ts[0], y0)\n    ys, extra_solver_state = solver.integrate(y0, ts, extra_solver_state)",
      "    extra_solver_state = solver.init_extra_solver_state(ts[0], y0)\n    ys, extra_solver_state = solver.integrate(y0, ts, extra_solver_state)", rule="R13.2"),
    V("extra-init-at-end", SD, "        extra_solver_state = solver.init_extra_solver_state(ts[0], y0)\n    ys, extra_solver_state = solver.integrate(y0, ts, extra_solver_state)\n\n    return parse_return",
      "        extra_solver_state = solver.init_extra_solver_state(ts[-1], y0)\n    ys, extra_solver_state = solver.integrate(y0, ts, extra_solver_state)\n\n    return parse_return", rule="R13.2"),
    V("returns-initial-extra", BS, "        return torch.stack(ys, dim=0), curr_extra", "        return torch.stack(ys, dim=0), extra0", rule=None),
    V("extra-not-carried", BS, "                    curr_y, curr_extra = self.step(curr_t, next_t, curr_y, curr_extra)", "                    curr_y, _ = self.step(curr_t, next_t, curr_y, curr_extra)", rule="R13"),
    V("revheun-extra-z", M + "reversible_heun.py", "        return y1, (f1, g1, z1)", "        return y1, (f1, g1, y1)", rule=None),
    V("parse-return-drops-extra", SD, "        if extra:\n            return ys, extra_solver_state\n        else:\n            return ys", "        if extra:\n            return ys, ()\n        else:\n            return ys", rule="R13.2"),
    # twins
    V("twin-local-object", CORE + "adjoint.py", "        reverse_bm = ReverseBrownian(ctx.bm)\n", "        reverse_bm = ReverseBrownian(ctx.bm)\n        reverse_bm.tag = 'reverse'\n", expect="silent"),
]

VARIANTS += [
    V("interp-increment-form", "torchsde/_core/interp.py", "    y = (t1 - t) / (t1 - t0) * y0 + (t - t0) / (t1 - t0) * y1\n",
      "    y = y0 + (t - t0) / (t1 - t0) * (y1 - y0)\n", rule="R12.8"),
    V("twin-interp-weights", "torchsde/_core/interp.py", "    y = (t1 - t) / (t1 - t0) * y0 + (t - t0) / (t1 - t0) * y1\n",
      "    w = (t - t0) / (t1 - t0)\n    y = (1 - w) * y0 + w * y1\n", expect="silent"),
    # outputs assembled in a preallocated tensor: same values, but a fixed dtype converts the loop state on the way out
    V("outputs-in-buffer-of-y0-dtype", CORE + "base_solver.py", "        ys = [y0]\n",
      "        ys = torch.empty(len(ts), *y0.shape, dtype=y0.dtype, device=y0.device)\n        ys[0] = y0\n", rule="R13.6",
      more=(("        for out_t in ts[1:]:\n", "        for i, out_t in enumerate(ts[1:], start=1):\n"),
            ("            ys.append(interp.linear_interp(t0=prev_t, y0=prev_y, t1=curr_t, y1=curr_y, t=out_t))\n",
             "            ys[i] = interp.linear_interp(t0=prev_t, y0=prev_y, t1=curr_t, y1=curr_y, t=out_t)\n"),
            ("        return torch.stack(ys, dim=0), curr_extra\n", "        return ys, curr_extra\n"))),
]

VARIANTS += [
    # R13.9: seeded random chunkings against the real driver with an uninterpreted chained step
    V("chunks-extra-state-reinitialised", CORE + "base_solver.py", "        curr_extra = extra0\n",
      "        curr_extra = self.init_extra_solver_state(ts[0], y0)\n", rule="R13.9"),
    V("chunks-first-step-of-a-call-halved", CORE + "base_solver.py", "        ys = [y0]\n",
      "        ys = [y0]\n        first = True\n", rule="R13.9",
      more=(("                next_t = min(curr_t + step_size, ts[-1])\n",
             "                next_t = min(curr_t + (0.5 * step_size if first else step_size), ts[-1])\n                first = False\n"),)),
]
