from ..variants import V, CORE

BS = CORE + "base_sde.py"
SD = CORE + "sdeint.py"

VARIANTS = [
    V("half-dropped-diag", BS, "    def f_diagonal(self, t, y: Tensor):\n        y = y[:, :-1]\n        f, g, h = self._base_f(t, y), self._base_g(t, y), self._base_h(t, y)\n        u = misc.stable_division(f - h, g)\n        f_logqp = .5 * (u ** 2).sum(dim=1, keepdim=True)",
      "    def f_diagonal(self, t, y: Tensor):\n        y = y[:, :-1]\n        f, g, h = self._base_f(t, y), self._base_g(t, y), self._base_h(t, y)\n        u = misc.stable_division(f - h, g)\n        f_logqp = (u ** 2).sum(dim=1, keepdim=True)", rule="R18"),
    V("fandg-diag-differs", BS, "    def f_and_g_diagonal(self, t, y: Tensor):\n        y = y[:, :-1]\n        f, g, h = self._base_f(t, y), self._base_g(t, y), self._base_h(t, y)\n        u = misc.stable_division(f - h, g)\n        f_logqp = .5 * (u ** 2).sum(dim=1, keepdim=True)",
      "    def f_and_g_diagonal(self, t, y: Tensor):\n        y = y[:, :-1]\n        f, g, h = self._base_f(t, y), self._base_g(t, y), self._base_h(t, y)\n        u = misc.stable_division(f - h, g)\n        f_logqp = .5 * (u ** 2).sum(dim=1, keepdim=True) * 1.01", rule="R18"),
    V("general-no-pinv", BS, "    def f_general(self, t, y: Tensor):\n        y = y[:, :-1]\n        f, g, h = self._base_f(t, y), self._base_g(t, y), self._base_h(t, y)\n        u = misc.batch_mvp(g.pinverse(), f - h)",
      "    def f_general(self, t, y: Tensor):\n        y = y[:, :-1]\n        f, g, h = self._base_f(t, y), self._base_g(t, y), self._base_h(t, y)\n        u = misc.batch_mvp(g.transpose(1, 2), f - h)", rule="R18"),
    V("general-h-sign", BS, "    def f_and_g_general(self, t, y: Tensor):\n        y = y[:, :-1]\n        f, g, h = self._base_f(t, y), self._base_g(t, y), self._base_h(t, y)\n        u = misc.batch_mvp(g.pinverse(), f - h)",
      "    def f_and_g_general(self, t, y: Tensor):\n        y = y[:, :-1]\n        f, g, h = self._base_f(t, y), self._base_g(t, y), self._base_h(t, y)\n        u = misc.batch_mvp(g.pinverse(), f + h)", rule="R18"),
    V("sum-wrong-dim", BS, "        u = misc.batch_mvp(g.pinverse(), f - h)  # (batch_size, brownian_size).\n        f_logqp = .5 * (u ** 2).sum(dim=1, keepdim=True)\n        return torch.cat([f, f_logqp], dim=1)",
      "        u = misc.batch_mvp(g.pinverse(), f - h)  # (batch_size, brownian_size).\n        f_logqp = .5 * (u ** 2).sum(dim=0, keepdim=True).expand(f.size(0), 1)\n        return torch.cat([f, f_logqp], dim=1)", rule="R18"),
    V("base-sees-full-state", BS, "    def g_diagonal(self, t, y: Tensor):\n        y = y[:, :-1]\n        g = self._base_g(t, y)",
      "    def g_diagonal(self, t, y: Tensor):\n        g = self._base_g(t, y[:, :-1] + 0 * y[:, -1:])\n        y = y[:, :-1]", expect="silent"),
    V("noise-in-logqp-row", BS, "        g_logqp = y.new_zeros(size=(y.size(0), 1))\n        return torch.cat([g, g_logqp], dim=1)\n\n    def f_and_g_diagonal",
      "        g_logqp = y.new_zeros(size=(y.size(0), 1)) + 1e-6\n        return torch.cat([g, g_logqp], dim=1)\n\n    def f_and_g_diagonal", rule="R18.3"),
    V("drift-perturbed", BS, "        f_logqp = .5 * (u ** 2).sum(dim=1, keepdim=True)\n        g_logqp = y.new_zeros(size=(y.size(0), 1))\n        return torch.cat([f, f_logqp], dim=1), torch.cat([g, g_logqp], dim=1)",
      "        f_logqp = .5 * (u ** 2).sum(dim=1, keepdim=True)\n        g_logqp = y.new_zeros(size=(y.size(0), 1))\n        return torch.cat([f + 1e-9 * f_logqp, f_logqp], dim=1), torch.cat([g, g_logqp], dim=1)", rule="R18.3"),
    V("general-g-via-other", BS, "        g = self._base_sde.g(t, y)\n        g_logqp = y.new_zeros(size=(g.size(0), 1, g.size(-1)))", "        g = self._base_sde.g(t, y) * 1.0000001\n        g_logqp = y.new_zeros(size=(g.size(0), 1, g.size(-1)))", rule="R18"),
    V("increments-reversed", SD, "        log_ratio_increments = (log_ratio[1:] - log_ratio[:-1]).squeeze(dim=2)\n", "        log_ratio_increments = (log_ratio[:-1] - log_ratio[1:]).squeeze(dim=2)\n", rule="R18.6"),
    V("increments-off-by-one", SD, "        log_ratio_increments = (log_ratio[1:] - log_ratio[:-1]).squeeze(dim=2)\n", "        log_ratio_increments = (log_ratio[1:] - log_ratio[:1]).squeeze(dim=2)\n", rule="R18.6"),
    V("split-sizes", SD, "ys.split(split_size=(y0.size(1) - 1, 1), dim=2)", "ys.split(split_size=(y0.size(1) - 2, 2), dim=2)", rule="R18.6"),
    V("augment-two-columns", SD, "y0 = torch.cat((y0, y0.new_zeros(size=(y0.size(0), 1))), dim=1)", "y0 = torch.cat((y0, y0.new_zeros(size=(y0.size(0), 1)) + 1), dim=1)", rule="R18.4"),
    V("stable-division-unguarded", CORE + "misc.py", "    b = torch.where(b.abs().detach() > epsilon, b, torch.full_like(b, fill_value=epsilon).copysign(b))\n    return a / b",
      "    return a / (b + epsilon)", rule="R18.5"),
    # twins
    V("twin-half-form", BS, "    def f_diagonal(self, t, y: Tensor):\n        y = y[:, :-1]\n        f, g, h = self._base_f(t, y), self._base_g(t, y), self._base_h(t, y)\n        u = misc.stable_division(f - h, g)\n        f_logqp = .5 * (u ** 2).sum(dim=1, keepdim=True)",
      "    def f_diagonal(self, t, y: Tensor):\n        y = y[:, :-1]\n        f, g, h = self._base_f(t, y), self._base_g(t, y), self._base_h(t, y)\n        u = misc.stable_division(f - h, g)\n        f_logqp = (u * u * 0.5).sum(dim=1, keepdim=True)", expect="silent"),
    V("log-ratio-squeezed-without-axis", SD, "        log_ratio_increments = (log_ratio[1:] - log_ratio[:-1]).squeeze(dim=2)\n", "        log_ratio_increments = (log_ratio[1:] - log_ratio[:-1]).squeeze()\n", rule="R18.6"),
    V("twin-increments-stacked", SD, "        log_ratio_increments = (log_ratio[1:] - log_ratio[:-1]).squeeze(dim=2)\n",
      "        log_ratio_increments = torch.stack(\n            [log_ratio_t_plus_1 - log_ratio_t\n             for log_ratio_t_plus_1, log_ratio_t in zip(log_ratio[1:], log_ratio[:-1])], dim=0\n        ).squeeze(dim=2) if len(log_ratio) > 1 else log_ratio[1:].squeeze(dim=2)\n", expect="silent"),
    # the unrepaired differencing: a stack of nothing for a single output time
    V("increments-stacked-without-guard", SD, "        log_ratio_increments = (log_ratio[1:] - log_ratio[:-1]).squeeze(dim=2)\n",
      "        log_ratio_increments = torch.stack(\n            [log_ratio_t_plus_1 - log_ratio_t\n             for log_ratio_t_plus_1, log_ratio_t in zip(log_ratio[1:], log_ratio[:-1])], dim=0\n        ).squeeze(dim=2)\n", rule="R18.6"),
    # the defect repaired by c3f6f62: sign(0) = 0 leaves an exactly-zero divisor unguarded
    V("stable-division-sign-of-zero", CORE + "misc.py", "torch.full_like(b, fill_value=epsilon).copysign(b))", "torch.full_like(b, fill_value=epsilon) * b.sign())", rule="R18.5"),
    V("stable-division-one-sided", CORE + "misc.py", "    b = torch.where(b.abs().detach() > epsilon, b, torch.full_like(b, fill_value=epsilon).copysign(b))\n",
      "    b = b.clamp_min(epsilon)\n", rule="R18.5"),
    V("twin-stable-division-where-sign", CORE + "misc.py", "torch.full_like(b, fill_value=epsilon).copysign(b))",
      "torch.where(b < 0, torch.full_like(b, fill_value=-epsilon), torch.full_like(b, fill_value=epsilon)))", expect="silent"),
]
