from ..variants import V, BI, DERIVED

VARIANTS = [
    V("bridge-6-to-5", BI, "second_coeff = 6 * first_coeff * right_diff * h_reciprocal",
      "second_coeff = 5 * first_coeff * right_diff * h_reciprocal", rule="R03.1"),
    V("bridge-right-sign", BI, "out_W = first_coeff * W - second_coeff * H - third_coeff * X1",
      "out_W = first_coeff * W - second_coeff * H + third_coeff * X1", rule="R03.1"),
    V("bridge-H-coeff", BI, "out_H = first_coeff ** 2 * H - a * X1 + c * right_diff * X2",
      "out_H = first_coeff * H - a * X1 + c * right_diff * X2", rule="R03.1"),
    V("bridge-X2-sign", BI, "out_H = first_coeff ** 2 * H - b * X1 - c * left_diff * X2",
      "out_H = first_coeff ** 2 * H - b * X1 + c * left_diff * X2", rule="R03.1"),
    V("noH-right", BI, "                    out_W = W - left_W\n", "                    out_W = W * right_diff * h_reciprocal - math.sqrt(var) * noise * 0.5\n",
      rule="R03.1"),
    V("agg-W-first", BI,
      "                    W = W + Wi\n\n        U = None",
      "                    pass\n\n        U = None", rule="R03.2"),
    V("agg-W-order", BI, "                    if self._have_H:\n                        # Aggregate H:",
      "                    W = W + Wi\n                    if self._have_H:\n                        # Aggregate H:", rule="R03.2"),
    V("agg-H-term2", BI, "term2 = (interval._start - ta) * (H - 0.5 * Wi)", "term2 = (interval._start - ta) * (H + 0.5 * Wi)",
      rule="R03.2"),
    V("agg-H-denominator", BI, "H = (term1 + term2) / (interval._end - ta)", "H = (term1 + term2) / (tb - ta)", rule="R03.2"),
    V("agg-A-half", BI, "A = A + Ai + 0.5 * (W.unsqueeze(-1) * Wi.unsqueeze(-2) - Wi.unsqueeze(-1) * W.unsqueeze(-2))",
      "A = A + Ai + (W.unsqueeze(-1) * Wi.unsqueeze(-2) - Wi.unsqueeze(-1) * W.unsqueeze(-2))", rule="R03.2"),
    V("agg-A-sign", BI, "A = A + Ai + 0.5 * (W.unsqueeze(-1) * Wi.unsqueeze(-2) - Wi.unsqueeze(-1) * W.unsqueeze(-2))",
      "A = A + Ai - 0.5 * (W.unsqueeze(-1) * Wi.unsqueeze(-2) - Wi.unsqueeze(-1) * W.unsqueeze(-2))", rule="R03.2"),
    V("agg-A-not-antisym", BI, "A = A + Ai + 0.5 * (W.unsqueeze(-1) * Wi.unsqueeze(-2) - Wi.unsqueeze(-1) * W.unsqueeze(-2))",
      "A = A + Ai + 0.5 * (W.unsqueeze(-1) * Wi.unsqueeze(-2))", rule="R03"),
    V("H-to-U-node-length", BI, "U = _H_to_U(W, H, tb - ta)", "U = _H_to_U(W, H, self._end - self._start)",
      rule="R03.2"),
    V("H-to-U-formula", BI, "return h * (.5 * W + H)", "return h * (.5 * W - H)", rule="R03.2"),
    V("davie-not-antisym", BI, "noise = noise - noise.transpose(-1, -2)  # noise is skew symmetric of variance 2",
      "noise = noise + noise.transpose(-1, -2)", rule="R03.4"),
    V("zero-length-nonzero", BI, "            W = torch.zeros(self._size, dtype=self._dtype, device=self._device)\n            H = None",
      "            W = torch.zeros(self._size, dtype=self._dtype, device=self._device) + 1e-12\n            H = None", rule="R03.6"),
    V("reverse-not-reflected", DERIVED, "out = self.base_brownian(-tb, -ta, return_U=return_U, return_A=return_A)",
      "out = self.base_brownian(-ta, -tb, return_U=return_U, return_A=return_A)", rule="R03.7"),
    V("reverse-U-verbatim", DERIVED, "            return W, (tb - ta) * W - U\n", "            return W, U\n", rule="R03.7"),
    V("reverse-A-verbatim", DERIVED, "            return W, -A\n", "            return W, A\n", rule="R03.7"),
    V("path-w0-always", DERIVED, "        out = self._interval(t, tb, return_U=return_U, return_A=return_A)\n        if tb is None and not return_U and not return_A:\n            out = out + self._w0\n        return out\n\n    def __repr__(self):\n        return f\"{self.__class__.__name__}(interval={self._interval})\"\n\n    @property\n    def dtype(self):\n        return self._interval.dtype\n\n    @property\n    def device(self):\n        return self._interval.device\n\n    @property\n    def shape(self):\n        return self._interval.shape\n\n    @property\n    def levy_area_approximation(self):\n        return self._interval.levy_area_approximation\n\n\nclass BrownianTree",
      "        out = self._interval(t, tb, return_U=return_U, return_A=return_A)\n        if not return_U and not return_A:\n            out = out + self._w0\n        return out\n\n    def __repr__(self):\n        return f\"{self.__class__.__name__}(interval={self._interval})\"\n\n    @property\n    def dtype(self):\n        return self._interval.dtype\n\n    @property\n    def device(self):\n        return self._interval.device\n\n    @property\n    def shape(self):\n        return self._interval.shape\n\n    @property\n    def levy_area_approximation(self):\n        return self._interval.levy_area_approximation\n\n\nclass BrownianTree",
      rule="R03.7"),
    V("search-straddle-order", BI, "        yield self._left_child._loc_inner(ta, self._midway, out)\n        raise trampoline.TailCall(self._right_child._loc_inner(self._midway, tb, out))",
      "        yield self._right_child._loc_inner(self._midway, tb, out)\n        raise trampoline.TailCall(self._left_child._loc_inner(ta, self._midway, out))", rule="R03.8"),
    V("search-straddle-cut", BI, "        raise trampoline.TailCall(self._right_child._loc_inner(self._midway, tb, out))", "        raise trampoline.TailCall(self._right_child._loc_inner(ta, tb, out))", rule="R03.8"),
    V("search-left-boundary", BI, "        if tb <= self._midway:\n            # Strictly our left_child's problem", "        if tb < self._midway:\n            # Strictly our left_child's problem", rule="R03.8"),
    V("twin-search-flip", BI, "        if tb <= self._midway:\n            # Strictly our left_child's problem", "        if not tb > self._midway:\n            # Strictly our left_child's problem", expect="silent"),
    V("search-leaf-split-point", BI, "            if ta == self._start:\n                self._split(tb)\n", "            if ta == self._start:\n                self._split(0.5 * (ta + tb))\n", rule="R03.8"),
    V("search-leaf-wrong-child", BI, "            self._split(ta)\n            # Query our (newly created) right_child", "            self._split(ta)\n            raise trampoline.TailCall(self._left_child._loc_inner(ta, tb, out))\n            # Query our (newly created) right_child", rule="R03.8"),
    V("search-exact-also-descends", BI, "        if ta == self._start and tb == self._end:\n            out.append(self)\n            return\n", "        if ta == self._start and tb == self._end and self._midway is None:\n            out.append(self)\n            return\n", rule="R03.8"),
    # twins
    V("twin-agg-H-form", BI, "H = (term1 + term2) / (interval._end - ta)",
      "span = interval._end - ta\n                        H = term1 / span + term2 / span", expect="silent"),
    V("twin-bridge-reassoc", BI, "second_coeff = 6 * first_coeff * right_diff * h_reciprocal",
      "second_coeff = first_coeff * (6 * right_diff) * h_reciprocal", expect="silent"),
    V("twin-HtoU", BI, "return h * (.5 * W + H)", "return 0.5 * h * W + h * H", expect="silent"),
]

VARIANTS += [
    # the defect repaired in /repo: zero-length Levy area of the wrong shape for sample shapes with fewer than two axes
    V("zero-length-A-shape-always-square", BI, "                if len(self._size) < 2:\n", "                if len(self._size) < 0:\n", rule="R03.6"),
    V("twin-zero-length-A-shape-ndim", BI, "                if len(self._size) < 2:\n", "                if len(self._size) in (0, 1):\n", expect="silent"),
]

VARIANTS += [
    # round-6 seed: the zero-length shortcut decided by the length of the query instead of by its resolved end points
    V("zero-shortcut-by-length", BI, "        if self._round(ta) == self._round(tb):", "        if tb - ta <= self._tol:", rule="R03.2"),
    V("zero-shortcut-by-half-cell", BI, "        if self._round(ta) == self._round(tb):", "        if self._round(ta) == self._round(tb) or tb - ta < 0.5 * self._tol:", rule="R03.2"),
    V("twin-zero-shortcut-temporaries", BI, "        if self._round(ta) == self._round(tb):", "        ra = self._round(ta)\n        rb = self._round(tb)\n        if rb == ra:", expect="silent"),
]

VARIANTS += [
    # positive fixture of R03.13 (Chen over the triples of seeded random histories)
    V("random-histories-right-child-H-sign", BI, "                    out_H = first_coeff ** 2 * H - b * X1 - c * left_diff * X2\n",
      "                    out_H = first_coeff ** 2 * H + b * X1 - c * left_diff * X2\n", rule="R03.13"),
]
