from ..variants import V, M, CORE, BI

VARIANTS = [
    V("noise-row-shared", BI, "        size = self._top._size\n        return _randn(size, self._top._dtype, self._top._device, seed)",
      "        size = (1, *self._top._size[1:])\n        return _randn(size, self._top._dtype, self._top._device, seed).expand(self._top._size)", rule="R04.5"),
    V("euler-batch-mean", M + "euler.py", "        y1 = y0 + f * dt + g_prod\n", "        y1 = y0 + f * dt + g_prod - 1e-9 * g_prod.mean(dim=0, keepdim=True)\n", rule="R20.2"),
    V("heun-global-norm", M + "heun.py", "        y0_prime = y0 + dt * f + g_prod\n", "        y0_prime = y0 + dt * f + g_prod / (1 + 0 * g_prod.norm())\n", rule="R20.2"),
    V("milstein-row0", M + "milstein.py", "            g_ = g.squeeze(2) if g.dim() == 3 else g  # scalar noise vs diagonal noise\n",
      "            g_ = g.squeeze(2) if g.dim() == 3 else g  # scalar noise vs diagonal noise\n            g_ = g_ + 0 * g[0]\n", rule="R20.2"),
    V("srk-sum-builtin", M + "srk.py", "            y1 = y1 + srid2.alpha[s] * f * dt + g_prod\n", "            y1 = y1 + srid2.alpha[s] * f * dt + g_prod + 0 * sum(g_prod)\n", rule="R20.2"),
    V("logqp-sum-dim0", CORE + "base_sde.py", "    def f_general(self, t, y: Tensor):\n        y = y[:, :-1]\n        f, g, h = self._base_f(t, y), self._base_g(t, y), self._base_h(t, y)\n        u = misc.batch_mvp(g.pinverse(), f - h)  # (batch_size, brownian_size).\n        f_logqp = .5 * (u ** 2).sum(dim=1, keepdim=True)",
      "    def f_general(self, t, y: Tensor):\n        y = y[:, :-1]\n        f, g, h = self._base_f(t, y), self._base_g(t, y), self._base_h(t, y)\n        u = misc.batch_mvp(g.pinverse(), f - h)  # (batch_size, brownian_size).\n        f_logqp = .5 * (u ** 2).sum(dim=0, keepdim=True).t()", rule="R20.2"),
    V("mvp-flatten", CORE + "misc.py", "    return torch.bmm(m, v.unsqueeze(-1)).squeeze(dim=-1)", "    return torch.bmm(m, v.unsqueeze(-1)).flatten(0).reshape(v.size(0), -1)", rule="R20.2"),
    V("interp-mean", CORE + "interp.py", "    y = (t1 - t) / (t1 - t0) * y0 + (t - t0) / (t1 - t0) * y1\n", "    y = (t1 - t) / (t1 - t0) * y0 + (t - t0) / (t1 - t0) * y1\n    y = y - 0 * y.mean()\n", rule="R20.2"),
    # twins
    V("twin-trailing-sum", CORE + "base_sde.py", "            dg_ga_jvp = dg_ga_jvp.diagonal(dim1=-2, dim2=-1).sum(-1)", "            dg_ga_jvp = dg_ga_jvp.diagonal(dim1=-2, dim2=-1).sum(dim=-1)", expect="silent"),
    V("twin-squeeze", M + "milstein.py", "g_ = g.squeeze(2) if g.dim() == 3 else g  # scalar noise vs diagonal noise", "g_ = g.squeeze(-1) if g.dim() == 3 else g", expect="silent"),
    # R20.3: row independence decided at index level
    V("euler-drift-rolled-along-the-batch", M + "euler.py", "y1 = y0 + f * dt + g_prod", "y1 = y0 + f.roll(1, 0) * dt + g_prod", rule="R20.3"),
    V("milstein-gradfree-stacked-rows-misaligned", M + "milstein.py",
      "                g_prime_minus = self.sde.g(t0, y0 + self.y_prime_f_factor(dt, f) - g_ * sqrt_dt)\n",
      "                both = self.sde.g(t0, torch.cat([y0_prime, y0 + self.y_prime_f_factor(dt, f) - g_ * sqrt_dt], dim=0))\n                g_prime, g_prime_minus = both.unflatten(0, (-1, 2)).unbind(dim=1)\n",
      rule="R20.3", more=(("import abc\n", "import abc\nimport torch\n"),)),
    V("twin-milstein-gradfree-stacked-rows-split-in-halves", M + "milstein.py",
      "                g_prime_minus = self.sde.g(t0, y0 + self.y_prime_f_factor(dt, f) - g_ * sqrt_dt)\n",
      "                both = self.sde.g(t0, torch.cat([y0_prime, y0 + self.y_prime_f_factor(dt, f) - g_ * sqrt_dt], dim=0))\n                g_prime, g_prime_minus = both.chunk(2, dim=0)\n",
      expect="silent", more=(("import abc\n", "import abc\nimport torch\n"),)),
    V("heun-noise-of-the-first-row-for-all", M + "heun.py", "I_k = self.bm(t0, t1)", "I_k = self.bm(t0, t1)[:1]", rule="R20.3"),
]
