from ..variants import V, M, CORE

BASE = CORE + "base_sde.py"
SDEINT = CORE + "sdeint.py"
EH = M + "euler_heun.py"
MISC = CORE + "misc.py"

VARIANTS = [
    # the element-wise product is no longer the contraction with the embedded diagonal matrix
    V("prod-diagonal-abs", BASE, "    def prod_diagonal(self, g, v):\n        return g * v", "    def prod_diagonal(self, g, v):\n        return g * v * 1.0001", rule="R17"),
    # the batched mat-vec contracts the wrong axis of g
    V("mvp-contracts-transposed", MISC, "return torch.bmm(m, v.unsqueeze(-1)).squeeze(dim=-1)",
      "return torch.bmm(m.transpose(1, 2), v.unsqueeze(-1)).squeeze(dim=-1) if m.size(1) == m.size(2) else torch.bmm(m, v.unsqueeze(-1)).squeeze(dim=-1)", rule="R17.2"),
    # dispatch: additive noise gets the element-wise product
    V("prod-dispatch-additive-elementwise", BASE, "            NOISE_TYPES.diagonal: self.prod_diagonal\n        }",
      "            NOISE_TYPES.diagonal: self.prod_diagonal,\n            NOISE_TYPES.additive: self.prod_diagonal\n        }", rule="R17"),
    # the Levy-area Jacobian of a special type is not zero
    V("return-zero-not-zero", BASE, "    def _return_zero(self, t, y, v):  # noqa\n        return 0.", "    def _return_zero(self, t, y, v):  # noqa\n        return 1e-6 * y", rule="R17.1"),
    # a solver branches on the declared noise type with a different formula
    V("euler-heun-diagonal-branch", EH, "        y1 = y0 + dt * f + (g_prod + g_prod_prime) * 0.5\n",
      "        y1 = y0 + dt * f + (g_prod + g_prod_prime) * 0.5\n        if self.sde.noise_type == NOISE_TYPES.diagonal:\n            y1 = y0 + dt * f + g_prod_prime\n", rule="R17.1"),
    V("euler-heun-scalar-branch", EH, "        g_prod_prime = self.sde.g_prod(t1, y_prime, I_k)",
      "        g_prod_prime = self.sde.g_prod(t1 if self.sde.noise_type != NOISE_TYPES.scalar else t0, y_prime, I_k)", rule="R17.1"),
    # the advertised order (which depends on the declaration) reaches the step
    V("strong-order-on-solve-path", EH, "        y_prime = y0 + g_prod\n", "        y_prime = y0 + g_prod * (2 * self.strong_order if self.strong_order < 1 else 1.0)\n", rule="R17"),
    # default Brownian shape: diagonal noise takes the noise size from the wrong axis
    V("diagonal-noise-size-from-batch", SDEINT, "            noise_sizes.append(shape[1])", "            noise_sizes.append(shape[0])", rule="R17.4"),
    # the driver around the steps treats one declaration differently
    V("driver-additive-skips-clip", CORE + "base_solver.py", "                    next_t = ts[-1]\n                if self.adaptive:",
      "                    next_t = ts[-1] if self.sde.noise_type != NOISE_TYPES.additive else next_t\n                if self.adaptive:", rule="R17.5"),
    V("driver-scalar-output-at-step-end", CORE + "base_solver.py", "            ys.append(interp.linear_interp(t0=prev_t, y0=prev_y, t1=curr_t, y1=curr_y, t=out_t))",
      "            ys.append(curr_y if self.sde.noise_type == NOISE_TYPES.scalar else interp.linear_interp(t0=prev_t, y0=prev_y, t1=curr_t, y1=curr_y, t=out_t))", rule="R17.5"),
    V("twin-driver-branch-same-arms", CORE + "base_solver.py", "            ys.append(interp.linear_interp(t0=prev_t, y0=prev_y, t1=curr_t, y1=curr_y, t=out_t))",
      "            if self.sde.noise_type == NOISE_TYPES.additive:\n                out_y = interp.linear_interp(t0=prev_t, y0=prev_y, t1=curr_t, y1=curr_y, t=out_t)\n            else:\n                out_y = interp.linear_interp(prev_t, prev_y, curr_t, curr_y, out_t)\n            ys.append(out_y)", expect="silent"),
    # twins
    V("twin-prod-diagonal-commuted", BASE, "    def prod_diagonal(self, g, v):\n        return g * v", "    def prod_diagonal(self, g, v):\n        return v * g", expect="silent"),
    V("twin-mvp-temporary", MISC, "return torch.bmm(m, v.unsqueeze(-1)).squeeze(dim=-1)", "col = v.unsqueeze(-1)\n    out = torch.bmm(m, col)\n    return out.squeeze(dim=-1)", expect="silent"),
    V("twin-branch-same-formula", EH, "        y1 = y0 + dt * f + (g_prod + g_prod_prime) * 0.5\n",
      "        if self.sde.noise_type == NOISE_TYPES.diagonal:\n            y1 = y0 + f * dt + 0.5 * g_prod + 0.5 * g_prod_prime\n        else:\n            y1 = y0 + dt * f + (g_prod + g_prod_prime) * 0.5\n", expect="silent"),
    V("twin-prod-dispatch-explicit", BASE, "            NOISE_TYPES.diagonal: self.prod_diagonal\n        }",
      "            NOISE_TYPES.diagonal: self.prod_diagonal,\n            NOISE_TYPES.additive: self.prod_default\n        }", expect="silent"),
    V("twin-return-zero-int", BASE, "    def _return_zero(self, t, y, v):  # noqa\n        return 0.", "    def _return_zero(self, t, y, v):  # noqa\n        return 0", expect="silent"),
    V("twin-repr-reads-order", CORE + "base_solver.py", "return f\"{self.__class__.__name__} of strong order: {self.strong_order}, and weak order: {self.weak_order}\"",
      "so = self.strong_order\n        return f\"{self.__class__.__name__} of strong order: {so}, and weak order: {self.weak_order}\"", expect="silent"),
]
