from ..variants import V, M, T, CORE

VARIANTS = [
    V("bm-wrong-interval", M + "heun.py", "I_k = self.bm(t0, t1)", "I_k = self.bm(t0, t0 + 0.001)", rule="R01.1"),
    V("bm-shifted", M + "midpoint.py", "I_k = self.bm(t0, t1)", "I_k = self.bm(t0 - dt, t0)", rule="R01.1"),
    V("extra-randn", M + "euler.py", "        I_k = self.bm(t0, t1)\n",
      "        I_k = self.bm(t0, t1)\n        import torch\n        I_k = I_k + 0 * torch.randn_like(I_k)\n", rule="R01.1"),
    V("euler-heun-weight", M + "euler_heun.py", "y1 = y0 + dt * f + (g_prod + g_prod_prime) * 0.5",
      "y1 = y0 + dt * f + (g_prod + g_prod_prime) * 0.6", rule="R01.3"),
    V("heun-drift-weight", M + "heun.py", "y1 = y0 + (dt * (f + f_prime) + g_prod + g_prod_prime) * 0.5",
      "y1 = y0 + (dt * (f + 2 * f_prime) + g_prod + g_prod_prime) * 0.5", rule="R01.3"),
    V("revheun-y1", M + "reversible_heun.py", "y1 = y0 + (f0 + f1) * (0.5 * dt) + self.sde.prod(g0 + g1, 0.5 * dW)",
      "y1 = y0 + (f0 + f1) * (0.5 * dt) + self.sde.prod(g0 + g1, dW)", rule="R01.3"),
    V("srk-alpha", T + "srid2.py", "alpha = (1 / 6, 1 / 6, 2 / 3, 0)", "alpha = (1 / 6, 1 / 6, 1 / 3, 0)", rule="R01.3"),
    V("order-raised-euler", M + "euler.py", "self.strong_order = 1.0 if sde.noise_type == NOISE_TYPES.additive else 0.5",
      "self.strong_order = 1.0", rule="R01.4"),
    V("order-raised-midpoint", M + "midpoint.py",
      "self.strong_order = 0.5 if sde.noise_type == NOISE_TYPES.general else 1.0", "self.strong_order = 1.0",
      rule="R01.4"),
    V("order-raised-milstein", M + "milstein.py", "    strong_order = 1.0\n", "    strong_order = 1.5\n", rule="R01.4"),
    V("integrate-stale-state", CORE + "base_solver.py",
      "next_y, next_extra = self.step(midpoint_t, next_t, midpoint_y, midpoint_extra)",
      "next_y, next_extra = self.step(midpoint_t, next_t, curr_y, midpoint_extra)", rule="R01.2"),
    V("integrate-time-not-advanced", CORE + "base_solver.py",
      "                    curr_y, curr_extra = self.step(curr_t, next_t, curr_y, curr_extra)\n                    curr_t = next_t\n",
      "                    curr_y, curr_extra = self.step(curr_t, next_t, curr_y, curr_extra)\n                    curr_t = curr_t + step_size\n",
      rule="R01.2"),
    V("integrate-extra-stale", CORE + "base_solver.py",
      "curr_t, curr_y, curr_extra = next_t, next_y, next_extra", "curr_t, curr_y, curr_extra = next_t, next_y, midpoint_extra",
      rule="R01.2"),
    # twins
    V("twin-order-lowered", M + "heun.py", "self.strong_order = 0.5 if sde.noise_type == NOISE_TYPES.general else 1.0",
      "self.strong_order = 0.5", expect="silent"),
    V("twin-logode-tprime", M + "log_ode.py", "t_prime = t0 + half_dt", "t_prime = t0", expect="silent"),
    V("twin-integrate-rename", CORE + "base_solver.py", "                    curr_t = next_t\n",
      "                    t_new = next_t\n                    curr_t = t_new\n", expect="silent"),
]

VARIANTS += [
    # round-5 C17 seed: Brownian-bridge dense output for the additive declaration. The reported value inside a step is no
    # longer the linear interpolant (C12), but the solver still continues from the grid state and the reported values
    # converge at least as fast (C01 holds)
    V("additive-bridge-dense-output", CORE + "base_solver.py", "            ys.append(interp.linear_interp(t0=prev_t, y0=prev_y, t1=curr_t, y1=curr_y, t=out_t))",
      "            out_y = interp.linear_interp(t0=prev_t, y0=prev_y, t1=curr_t, y1=curr_y, t=out_t)\n            if self.sde.noise_type == NOISE_TYPES.additive and prev_t < out_t < curr_t:\n                theta = (out_t - prev_t) / (curr_t - prev_t)\n                bridge = self.bm(prev_t, out_t) - theta * self.bm(prev_t, curr_t)\n                out_y = out_y + self.sde.g_prod(prev_t, prev_y, bridge)\n            ys.append(out_y)", expect="silent"),
]

VARIANTS += [
    # round-6 seed: a supplied BrownianInterval of another dtype / device is silently re-created "with the same entropy"
    V("bm-recreated-in-state-dtype", CORE + "sdeint.py", "                              device=y0.device, levy_area_approximation=levy_area_approximation)\n",
      "                              device=y0.device, levy_area_approximation=levy_area_approximation)\n"
      "    elif isinstance(bm, BrownianInterval) and (bm.dtype != y0.dtype or bm.device != y0.device):\n"
      "        bm = BrownianInterval(t0=ts[0], t1=ts[-1], size=bm.shape, dtype=y0.dtype, device=y0.device,\n"
      "                              entropy=bm.entropy, levy_area_approximation=bm.levy_area_approximation)\n", rule="R01.6"),
    V("twin-bm-dtype-only-inspected", CORE + "sdeint.py", "                              device=y0.device, levy_area_approximation=levy_area_approximation)\n",
      "                              device=y0.device, levy_area_approximation=levy_area_approximation)\n"
      "    elif isinstance(bm, BrownianInterval) and bm.dtype != y0.dtype:\n"
      "        warnings.warn('The Brownian motion and the state have different dtypes.')\n", expect="silent"),
]
