from ..variants import V, BI, DERIVED, CORE

VARIANTS = [
    V("loc-direct-recursion", BI, "        yield self._left_child._loc_inner(ta, self._midway, out)\n",
      "        trampoline.trampoline(self._left_child._loc_inner(ta, self._midway, out))\n", rule="R07.1"),
    V("value-direct-recursion", BI, "W, H = yield parent._increment_and_space_time_levy_area()",
      "W, H = trampoline.trampoline(parent._increment_and_space_time_levy_area())", rule="R07.1"),
    V("split-recursive", BI, "                    interval = interval._right_child\n",
      "                    return interval._right_child._split(midway)\n", rule="R07.1"),
    V("lru-gt", BI, "elif len(self) >= self._max_size:", "elif len(self) > self._max_size:", rule="R07.4"),
    V("lru-no-evict", BI, "            del self[self._keys.pop(0)]\n", "            self._keys.pop(0)\n", rule="R07.4"),
    V("cache-update", BI, "            self._top._increment_and_space_time_levy_area_cache[self] = (out_W, out_H)\n",
      "            self._top._increment_and_space_time_levy_area_cache.update({self: (out_W, out_H)})\n", rule="R07.4"),
    V("lru-evict-a-quarter", BI, "            del self[self._keys.pop(0)]\n",
      "            for old_key in self._keys[:self._max_size // 4]:\n                del self[old_key]\n            del self._keys[:self._max_size // 4]\n", rule="R07.4"),
    V("twin-lru-evict-loop", BI, "            del self[self._keys.pop(0)]\n",
      "            for old_key in self._keys[:1]:\n                del self[old_key]\n            del self._keys[:1]\n", expect="silent"),
    # the defect repaired by 389e373
    V("tree-refined-to-current-query", BI, "                    self._create_dependency_tree(self._average_dt)\n",
      "                    self._create_dependency_tree(dt)\n", rule="R07.7"),
    V("tree-average-restarts-after-warmup", BI, "                self._average_dt = (dt + self._average_dt * (self._num_evaluations - 1)) / self._num_evaluations\n",
      "                n_avg = max(self._num_evaluations - 100, 1)\n                self._average_dt = (dt + self._average_dt * (n_avg - 1)) / n_avg\n", rule="R07.7"),
    V("tree-refined-to-min-of-both", BI, "                    self._create_dependency_tree(self._average_dt)\n",
      "                    self._create_dependency_tree(min(dt, self._average_dt))\n", rule="R07.7"),
    V("twin-tree-refined-to-max", BI, "                    self._create_dependency_tree(self._average_dt)\n",
      "                    self._create_dependency_tree(max(dt, self._average_dt))\n", expect="silent"),
    V("twin-tree-warmup-200", BI, "                if self._num_evaluations > 100 and self._average_dt < 0.5 * self._tree_dt:",
      "                if self._num_evaluations > 200 and self._average_dt < 0.5 * self._tree_dt:", expect="silent"),
    V("cache-size-plus-one", BI, "_LRUDict(max_size=cache_size)", "_LRUDict(max_size=cache_size + 1)", rule="R07.4"),
    V("zero-length-unrounded", BI, "if self._round(ta) == self._round(tb):", "if ta == tb:", rule="R07.5"),
    V("piece-length-zero", BI, "cache_size = max(min(self._cache_size, 100), 1)", "cache_size = min(self._cache_size, 100)",
      rule="R07.3"),
    V("children-unguarded", BI, "                    if interval._midway is not None:\n                        stack.append(interval._right_child)\n                        stack.append(interval._left_child)\n",
      "                    stack.append(interval._right_child)\n                    stack.append(interval._left_child)\n",
      expect="silent"),   # still after `_loc` on a strictly interior midpoint: lemma L-loc
    V("default-bm-horizon", CORE + "sdeint.py", "bm = BrownianInterval(t0=ts[0], t1=ts[-1],",
      "bm = BrownianInterval(t0=ts[0], t1=ts[-2],", rule="R07.6"),
    V("loc-inner-midway-guard-dropped", BI, "        if self._midway is None:\n            # It's up to us. Create subintervals (_split) if appropriate.\n            if ta == self._start:\n                self._split(tb)\n",
      "        if self._midway is None and ta == self._start:\n            if ta == self._start:\n                pass\n", rule="R07.2"),
    V("children-unguarded-no-interior", BI, "                if start < midway < end:\n                    interval._loc(start, midway)\n                    if interval._midway is not None:\n                        stack.append(interval._right_child)\n                        stack.append(interval._left_child)\n",
      "                if True:\n                    interval._loc(start, midway)\n                    if True:\n                        stack.append(interval._right_child)\n                        stack.append(interval._left_child)\n", rule="R07.2"),
    # twins
    V("twin-lru-not-lt", BI, "elif len(self) >= self._max_size:", "elif not len(self) < self._max_size:", expect="silent"),
    V("twin-rename-stack", BI, "        stack = [self]\n        while stack:\n            interval = stack.pop()",
      "        todo = [self]\n        stack = todo\n        while len(stack) > 0:\n            interval = stack.pop()", expect="silent"),
    V("twin-zero-length-names", BI, "if self._round(ta) == self._round(tb):",
      "ta_q = self._round(ta)\n        tb_q = self._round(tb)\n        if ta_q == tb_q:", expect="silent"),
]

VARIANTS += [
    # session-4 repair: the unrepaired dyadic descent (no guard on the quantised midpoint)
    V("dyadic-descent-without-guard", BI, "                if not interval._start < halfway < interval._end:", "                if False:", rule="R07.8"),
    V("dyadic-descent-guard-one-sided", BI, "                if not interval._start < halfway < interval._end:", "                if not interval._start < halfway:", rule="R07.8"),
    V("dyadic-descent-fallback-without-split", BI, "                    interval._split_exact(midway)\n                    break\n", "                    break\n", rule="R07.8"),
    V("twin-dyadic-descent-guard-spelled-out", BI, "                if not interval._start < halfway < interval._end:", "                if halfway <= interval._start or halfway >= interval._end:", expect="silent"),
]

LOOKUP = "        try:\n            return self._top._increment_and_space_time_levy_area_cache[self]\n        except KeyError:\n"
GETFORM = "        cached = self._top._increment_and_space_time_levy_area_cache.get(self)\n        if cached is not None:\n            return cached\n        else:\n"
VARIANTS += [
    # round-6 seed: the cache look-up through a method only dicts have (cache_size = 0 installs a stub that is not a dict)
    V("cache-lookup-through-get", BI, LOOKUP, GETFORM, rule="R07.4"),
    V("twin-cache-lookup-through-get-stub-answers", BI, LOOKUP, GETFORM, expect="silent",
      more=(("    def __getitem__(self, item):\n        raise KeyError\n", "    def __getitem__(self, item):\n        raise KeyError\n\n    def get(self, item, default=None):\n        return default\n"),)),
]
