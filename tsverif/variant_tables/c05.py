from ..variants import V, BI, M, CORE

VARIANTS = [
    V("unseeded-randn", BI, "    generator = torch.Generator(device).manual_seed(int(seed))\n    return torch.randn(size, dtype=dtype, device=device, generator=generator)",
      "    return torch.randn(size, dtype=dtype, device=device)", rule="R05.4"),
    V("global-seeded", BI, "    generator = torch.Generator(device).manual_seed(int(seed))\n    return torch.randn(size, dtype=dtype, device=device, generator=generator)",
      "    torch.manual_seed(int(seed))\n    return torch.randn(size, dtype=dtype, device=device)", rule="R05.4"),
    V("seed-plus-counter", BI, "    generator = torch.Generator(device).manual_seed(int(seed))",
      "    generator = torch.Generator(device).manual_seed(int(seed) + _CALLS[0])", rule="R05.4"),
    V("inplace-aggregate", BI, "                    W = W + Wi\n", "                    W += Wi\n", rule="R05.5"),
    V("inplace-H", BI, "                        H = (term1 + term2) / (interval._end - ta)\n",
      "                        H.mul_(interval._start - ta).add_(term1).div_(interval._end - ta)\n", rule="R05.5"),
    V("inplace-bridge", BI, "                if self._is_left:\n                    out_W = left_W\n",
      "                if self._is_left:\n                    out_W = W\n                    out_W -= W - left_W\n", rule="R05.5"),
    V("inplace-in-solver", M + "euler.py", "        y1 = y0 + f * dt + g_prod\n", "        I_k *= 1.0\n        y1 = y0 + f * dt + g_prod\n",
      rule="R05.5"),
    V("resplit-nonleaf", BI, "        if self._midway is None:\n            # It's up to us. Create subintervals (_split) if appropriate.\n",
      "        if self._midway is None or tb - ta < 1e-9:\n            # It's up to us. Create subintervals (_split) if appropriate.\n",
      rule="R05.2"),
    V("split-parent", BI, "                self._split(tb)\n", "                self._split(tb)\n                self._parent._split_exact(tb)\n",
      rule="R05.2"),
    V("value-reads-history", BI, "            h_reciprocal = 1 / (parent._end - parent._start)\n",
      "            h_reciprocal = 1 / (parent._end - parent._start)\n            _ = self._top._num_evaluations\n", rule="R05.3"),
    V("value-reads-last-interval", BI, "        size = self._top._size\n        return _randn(size, self._top._dtype, self._top._device, seed)",
      "        size = self._top._size\n        seed = seed + (1 if self._top._last_interval is self else 0)\n        return _randn(size, self._top._dtype, self._top._device, seed)",
      rule="R05.3"),
    V("seed-rewritten-on-query", BI, "            intervals = self._last_interval._loc(ta, tb)\n",
      "            intervals = self._last_interval._loc(ta, tb)\n            intervals[0]._W_seed = 0\n", rule="R05.1"),
    V("w_h-rewritten", BI, "            self._last_interval = intervals[-1]\n",
      "            self._last_interval = intervals[-1]\n            self._w_h = (self._w_h[0], self._w_h[1])\n", rule="R05.1"),
    V("cache-key-parent", BI, "            self._top._increment_and_space_time_levy_area_cache[self] = (out_W, out_H)\n",
      "            self._top._increment_and_space_time_levy_area_cache[parent] = (out_W, out_H)\n", rule="R05.6"),
    V("cache-stores-other", BI, "            self._top._increment_and_space_time_levy_area_cache[self] = (out_W, out_H)\n",
      "            self._top._increment_and_space_time_levy_area_cache[self] = (out_W * 1.0000001, out_H)\n", rule="R05.6"),
    V("interval-eq", BI, "    def _randn(self, seed):\n        # We generate random noise",
      "    def __eq__(self, other):\n        return (self._start, self._end) == (other._start, other._end)\n\n    def __hash__(self):\n        return hash((self._start, self._end))\n\n    def _randn(self, seed):\n        # We generate random noise",
      rule="R05.6"),
    # twins
    V("twin-aggregate-temp", BI, "                    W = W + Wi\n", "                    W_new = W + Wi\n                    W = W_new\n", expect="silent"),
    V("twin-fresh-inplace", BI, "        a_tilde = std * noise\n        A += a_tilde\n", "        A += std * noise\n", expect="silent"),
    V("twin-counter", BI, "                self._num_evaluations += 1\n", "                self._num_evaluations = self._num_evaluations + 1\n",
      expect="silent"),
    V("cpu-noise-unseeded-numpy-generator", BI, "np.random.Generator(np.random.PCG64(int(seed)))", "np.random.default_rng()", rule="R05.4"),
    V("cpu-noise-seeded-with-id", BI, "np.random.Generator(np.random.PCG64(int(seed)))", "np.random.Generator(np.random.PCG64(id(size)))", rule="R05.4"),
]

VARIANTS += [
    # positive fixture of R05.10 (repeatability over seeded random histories): what the cache hands back is not what a
    # recomputation gives (small caches evict, so both occur in one history)
    V("random-histories-cache-stores-another-value", BI, "            self._top._increment_and_space_time_levy_area_cache[self] = (out_W, out_H)\n",
      "            self._top._increment_and_space_time_levy_area_cache[self] = (out_W * 1.0000001, out_H)\n", rule="R05.10"),
]
