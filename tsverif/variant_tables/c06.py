from ..variants import V, BI, DERIVED

VARIANTS = [
    V("key-ignores-side", BI, "self._spawn_key = 2 * self._parent._spawn_key + (0 if self._is_left else 1)",
      "self._spawn_key = 2 * self._parent._spawn_key", rule="R06.1"),
    V("key-ignores-parent", BI, "self._spawn_key = 2 * self._parent._spawn_key + (0 if self._is_left else 1)",
      "self._spawn_key = (0 if self._is_left else 1)", rule="R06.1"),
    V("depth-constant", BI, "self._depth = self._parent._depth + 1", "self._depth = 1", rule="R06.1"),
    V("seed-from-midway", BI, "spawn_key=(self._spawn_key, self._depth),", "spawn_key=(self._spawn_key, self._depth, int(midway * 1e6)),",
      rule="R06.1"),
    V("seed-from-id", BI, "spawn_key=(self._spawn_key, self._depth),", "spawn_key=(self._spawn_key, id(self) % 7),", rule="R06.1"),
    V("entropy-dropped", BI, "generator = np.random.SeedSequence(entropy=self._top._entropy,",
      "generator = np.random.SeedSequence(entropy=None,", rule="R06.1"),
    V("top-entropy-dropped", BI, "generator = np.random.SeedSequence(entropy=entropy, pool_size=pool_size)",
      "generator = np.random.SeedSequence(pool_size=pool_size)", rule="R06.1"),
    V("dyadic-split-at-query", BI, "                halfway = self._top._round(0.5 * (interval._end + interval._start))",
      "                halfway = self._top._round(midway if interval is not self else 0.5 * (interval._end + interval._start))",
      rule="R06.2"),
    V("dyadic-biased", BI, "                halfway = self._top._round(0.5 * (interval._end + interval._start))",
      "                halfway = self._top._round(0.5 * (interval._end + interval._start) + 0 * midway)", expect="silent"),
    V("dyadic-weighted", BI, "                halfway = self._top._round(0.5 * (interval._end + interval._start))",
      "                halfway = self._top._round(0.25 * interval._end + 0.25 * interval._start + 0.5 * midway)", rule="R06.2"),
    V("unrounded-end", BI, "        self._end = top._round(end)  # the right hand edge of the interval",
      "        self._end = end", rule="R06.3"),
    V("unrounded-midway", BI, "        self._midway = self._top._round(midway)", "        self._midway = midway", rule="R06.3"),
    V("loc-unrounded", BI, "        tb = self._top._round(tb)\n        trampoline.trampoline(self._loc_inner(ta, tb, out))",
      "        trampoline.trampoline(self._loc_inner(ta, tb, out))", rule="R06.3"),
    V("children-swapped", BI, "                                     is_left=True,\n", "                                     is_left=False,\n", rule="R06.3"),
    V("dep-tree-in-dyadic-call", BI, "            if self._dt is None and not self._halfway_tree:", "            if self._dt is None:", rule="R06.4"),
    V("dep-tree-in-dyadic-init", BI, "        if not self._halfway_tree:\n            # We create a binary tree dependency",
      "        if True:\n            # We create a binary tree dependency", rule="R06.4"),
    V("tree-drops-entropy", DERIVED, "                                                            entropy=entropy,\n", "", rule="R06.5"),
    V("tree-not-dyadic", DERIVED, "                                                            halfway_tree=True,\n",
      "                                                            halfway_tree=False,\n", rule="R06.5"),
    V("tree-W", DERIVED, "            W = w1 - w0\n", "            W = w1\n", rule="R06.5"),
    V("tree-tol", DERIVED, "                                                            tol=tol,\n", "                                                            tol=1e-6,\n", rule="R06.5"),
    V("a-seed-numbered-by-request", BI, "        return self._parent._left_a_seed if self._is_left else self._parent._right_a_seed\n",
      "        n = getattr(self._parent, '_n_requests', 0)\n        self._parent._n_requests = n + 1\n        return self._parent._left_a_seed + n\n", rule="R06.6"),
    V("a-seed-swapped-children", BI, "        return self._parent._left_a_seed if self._is_left else self._parent._right_a_seed\n",
      "        return self._parent._left_a_seed\n", rule="R06.6"),
    # twins
    V("twin-a-seed-if-statement", BI, "        return self._parent._left_a_seed if self._is_left else self._parent._right_a_seed\n",
      "        if self._is_left:\n            return self._parent._left_a_seed\n        return self._parent._right_a_seed\n", expect="silent"),
    V("twin-key-shift", BI, "self._spawn_key = 2 * self._parent._spawn_key + (0 if self._is_left else 1)",
      "self._spawn_key = self._parent._spawn_key * 2 + (1 if not self._is_left else 0)", expect="silent"),
    V("twin-midpoint-form", BI, "                halfway = self._top._round(0.5 * (interval._end + interval._start))",
      "                halfway = self._top._round(interval._start + (interval._end - interval._start) / 2)", expect="silent"),
    # R06.7: a memo of the last query keyed on the rounded end points
    V("last-query-memo-on-rounded-end-points", BI, "        else:\n            if self._dt is None and not self._halfway_tree:\n",
      "        elif (self._round(ta), self._round(tb)) == getattr(self, '_memo_key', None):\n            W, H, A = self._memo_val\n        else:\n            if self._dt is None and not self._halfway_tree:\n",
      rule="R06.7", more=(("            self._last_interval = intervals[-1]\n", "            self._last_interval = intervals[-1]\n            self._memo_key = (self._round(ta), self._round(tb))\n"),
                          ("        U = None\n        if self._have_H:\n", "        self._memo_val = (W, H, A)\n        U = None\n        if self._have_H:\n"))),
]

VARIANTS += [
    # session-4 repair (C07 R07.8): the guard that ends the dyadic descent when there is nothing left to halve
    V("dyadic-fallback-always", BI, "                if not interval._start < halfway < interval._end:", "                if True:", rule="R06.2"),
]

SEEDS4 = "        self._W_seed, self._H_seed, self._left_a_seed, self._right_a_seed = generator.generate_state(4, dtype=np.uint64)\n"
VARIANTS += [
    # round-6 seed: node seeds memoised in a module-level table whose key leaves the pool size out
    V("node-seed-memo-without-pool-size", BI, SEEDS4,
      "        memo_key = (self._top._entropy, self._spawn_key, self._depth)\n"
      "        if memo_key not in _node_seed_memo:\n"
      "            _node_seed_memo[memo_key] = tuple(generator.generate_state(4, dtype=np.uint64))\n"
      "        self._W_seed, self._H_seed, self._left_a_seed, self._right_a_seed = _node_seed_memo[memo_key]\n",
      rule="R06.9", more=(("_rsqrt3 = 1 / math.sqrt(3)\n", "_rsqrt3 = 1 / math.sqrt(3)\n_node_seed_memo = {}\n"),)),
    V("twin-node-seed-memo-full-key", BI, SEEDS4,
      "        memo_key = (self._top._entropy, self._spawn_key, self._depth, self._top._pool_size)\n"
      "        if memo_key not in _node_seed_memo:\n"
      "            _node_seed_memo[memo_key] = tuple(generator.generate_state(4, dtype=np.uint64))\n"
      "        self._W_seed, self._H_seed, self._left_a_seed, self._right_a_seed = _node_seed_memo[memo_key]\n",
      expect="silent", more=(("_rsqrt3 = 1 / math.sqrt(3)\n", "_rsqrt3 = 1 / math.sqrt(3)\n_node_seed_memo = {}\n"),)),
]
