from ..variants import V, CORE

A = CORE + "adjoint_sde.py"
AD = CORE + "adjoint.py"

VARIANTS = [
    V("time-not-reflected-f", A, "            f = self.forward_sde.f(-t, y)\n            return self._f_uncorrected(f, y, adj_y, requires_grad)",
      "            f = self.forward_sde.f(t, y)\n            return self._f_uncorrected(f, y, adj_y, requires_grad)", rule="R11.1"),
    V("time-not-reflected-gprod", A, "            g_prod = self.forward_sde.g_prod(-t, y, v)\n", "            g_prod = self.forward_sde.g_prod(t, y, v)\n", rule="R11.1"),
    V("state-block-sign", A, "            f = f.detach()\n        return misc.flatten((-f, *vjp_y_and_params)).unsqueeze(0)\n\n    def _f_corrected_default",
      "            f = f.detach()\n        return misc.flatten((f, *vjp_y_and_params)).unsqueeze(0)\n\n    def _f_corrected_default", rule="R11.1"),
    V("gprod-block-sign", A, "        return misc.flatten((-g_prod, *vjp_y_and_params)).unsqueeze(0)", "        return misc.flatten((g_prod, *vjp_y_and_params)).unsqueeze(0)", rule="R11.1"),
    V("correction-single", A, "        # Double Stratonovich correction.\n        f = f - g_dg_vjp\n", "        # Double Stratonovich correction.\n        f = f - 0.5 * g_dg_vjp\n", rule="R11.1"),
    V("correction-sign-default", A, "        # Double Stratonovich correction.\n        f = f - dg_g_jvp\n", "        # Double Stratonovich correction.\n        f = f + dg_g_jvp\n", rule="R11.1"),
    V("ito-conversion-dropped", A, "        vjp_y_and_params = misc.seq_add(vjp_y_and_params, extra_vjp_y_and_params)\n        if not requires_grad:\n            # See corresponding note in _f_uncorrected.\n            f = f.detach()\n        return misc.flatten((-f, *vjp_y_and_params)).unsqueeze(0)\n\n    def _g_prod",
      "        if not requires_grad:\n            # See corresponding note in _f_uncorrected.\n            f = f.detach()\n        return misc.flatten((-f, *vjp_y_and_params)).unsqueeze(0)\n\n    def _g_prod", rule="R11.1"),
    V("vjp-wrong-cotangent", A, "            a_dg_vjp, = misc.vjp(\n                outputs=g_column,\n                inputs=y,\n                grad_outputs=adj_y,", "            a_dg_vjp, = misc.vjp(\n                outputs=g_column,\n                inputs=y,\n                grad_outputs=g_column,", rule="R11.1"),
    V("vjp-no-params", A, "    def _g_prod(self, g_prod, y, adj_y, requires_grad):\n        vjp_y_and_params = misc.vjp(\n            outputs=g_prod,\n            inputs=[y] + self.params,",
      "    def _g_prod(self, g_prod, y, adj_y, requires_grad):\n        vjp_y_and_params = misc.vjp(\n            outputs=g_prod,\n            inputs=[y] + self.params[:0] + [y][:0] + self.params[::-1],", expect="silent"),
    V("table-ito-scalar-uncorrected", A, "                NOISE_TYPES.scalar: self.f_corrected_default,\n", "                NOISE_TYPES.scalar: self.f_uncorrected,\n", rule="R11.1"),
    V("table-additive-corrected", A, "                NOISE_TYPES.additive: self.f_and_g_prod_uncorrected,\n", "                NOISE_TYPES.additive: self.f_and_g_prod_corrected_default,\n", rule="R11.1"),
    V("table-missing-general", A, "                NOISE_TYPES.general: self.f_corrected_default\n", "", rule="R11"),
    V("milstein-weight", A, "                grad_outputs=v2 * g,\n", "                grad_outputs=v2,\n", rule="R11.1"),
    V("milstein-mixed-sign", A, "vjp_y_and_params = misc.seq_sub(prod_partials_adj_y_and_params, mixed_partials_adj_y_and_params)",
      "vjp_y_and_params = misc.seq_add(prod_partials_adj_y_and_params, mixed_partials_adj_y_and_params)", rule="R11.1"),
    V("allow-unused-dropped", A, "            outputs=g_prod,\n            inputs=[y] + self.params,\n            grad_outputs=adj_y,\n            allow_unused=True,\n",
      "            outputs=g_prod,\n            inputs=[y] + self.params,\n            grad_outputs=adj_y,\n", rule="R11.2"),
    V("double-derivative-graph", A, "            grad_outputs=g,\n            allow_unused=True,\n            create_graph=True\n", "            grad_outputs=g,\n            allow_unused=True,\n            create_graph=requires_grad\n", rule="R11.2"),
    V("always-create-graph", A, "    def _g_prod(self, g_prod, y, adj_y, requires_grad):\n        vjp_y_and_params = misc.vjp(\n            outputs=g_prod,\n            inputs=[y] + self.params,\n            grad_outputs=adj_y,\n            allow_unused=True,\n            retain_graph=True,\n            create_graph=requires_grad\n",
      "    def _g_prod(self, g_prod, y, adj_y, requires_grad):\n        vjp_y_and_params = misc.vjp(\n            outputs=g_prod,\n            inputs=[y] + self.params,\n            grad_outputs=adj_y,\n            allow_unused=True,\n            retain_graph=True,\n            create_graph=True\n", rule="R11"),
    # the defect repaired by 614b9af: a detached weight inside a returned block (value right, derivative wrong)
    V("milstein-weight-detached-again", A, "                grad_outputs=adj_y * v2 * g,\n", "                grad_outputs=(adj_y * v2 * g).detach(),\n", rule="R11.6"),
    V("drift-detached-in-grad-mode", A, "        return misc.flatten((-f, *vjp_y_and_params)).unsqueeze(0)\n\n    def _f_corrected_default",
      "        return misc.flatten((-f.detach(), *vjp_y_and_params)).unsqueeze(0)\n\n    def _f_corrected_default", rule="R11.6"),
    V("milstein-dgdy-single-graph", A, "                create_graph=True  # Differentiated again below.\n", "                create_graph=requires_grad\n", rule="R11.2"),
    V("detach-idiom-removed", A, "        if not requires_grad:\n            # See corresponding note in _f_uncorrected.\n            g_prod = g_prod.detach()\n", "", rule="R11"),
    V("stub-g-returns", A, "        raise RuntimeError(\"Adjoint `g` not defined. Please report a bug to torchsde.\")", "        return self.forward_sde.g(-t, y)", rule="R11.4"),
    V("leaf-assert-removed", A, "        assert y_aug.is_leaf, \"Internal error: please report a bug to torchsde\"\n", "", rule="R11.5"),
    V("forward-no-detach", AD, "        y0 = y0.detach()\n", "", rule="R11.5"),
    V("grad-mode-late", A, "        requires_grad = torch.is_grad_enabled()\n\n        if extra_states:", "        requires_grad = True\n\n        if extra_states:", rule="R11.5"),
    # twins
    V("twin-neg-form", A, "        return misc.flatten((-g_prod, *vjp_y_and_params)).unsqueeze(0)", "        neg = -1 * g_prod\n        return misc.flatten((neg, *vjp_y_and_params)).unsqueeze(0)", expect="silent"),
]

MISC = "torchsde/_core/misc.py"
VARIANTS += [
    # the autograd helpers are evaluated from their own bodies (autograd_kit)
    V("misc-vjp-returns-reversed", MISC, "    return convert_none_to_zeros(_vjp, inputs)\n", "    return convert_none_to_zeros(_vjp, inputs)[::-1]\n", rule="R11.1"),
    V("misc-vjp-zero-fill-from-outputs", MISC, "    return convert_none_to_zeros(_vjp, inputs)\n", "    return convert_none_to_zeros(_vjp, inputs)[:1] * len(inputs)\n", rule="R11.1"),
    V("misc-jvp-tangent-dropped", MISC, "_jvp = torch.autograd.grad(_vjp, dummy_outputs, grad_outputs=grad_inputs, **kwargs)",
      "_jvp = torch.autograd.grad(_vjp, dummy_outputs, grad_outputs=grad_inputs * 2, **kwargs)", rule="R11"),
    V("twin-misc-vjp-temporary", MISC, "    return convert_none_to_zeros(_vjp, inputs)\n", "    out = convert_none_to_zeros(_vjp, inputs)\n    return out\n", expect="silent"),
]

VARIANTS += [
    # session-4 repair: with gradients disabled the adjoint Milstein blocks are detached on the way out (a vjp hands its cotangent
    # back where the Jacobian is the identity, and the cotangents were computed with gradients enabled)
    V("milstein-blocks-not-detached-under-no-grad", A, "            if not requires_grad:\n                # A vjp hands its cotangent back",
      "            if False:\n                # A vjp hands its cotangent back", rule="R11.3"),
    V("twin-milstein-blocks-detached-in-a-loop", A, "                gdg_blocks = tuple(block.detach() for block in gdg_blocks)\n",
      "                gdg_blocks = tuple([block.detach() for block in gdg_blocks])\n", expect="silent"),
]
