from ..variants import V, M, CORE

BS = CORE + "base_sde.py"
SOLV = CORE + "base_solver.py"

VARIANTS = [
    V("gdg-create-graph-dropped", BS, "                grad_outputs=g * v2,\n                retain_graph=True,\n                create_graph=requires_grad,\n",
      "                grad_outputs=g * v2,\n                retain_graph=True,\n", rule="R08.2"),
    V("gdg-create-graph-false", BS, "                    grad_inputs=gv[..., col_idx],\n                    retain_graph=True,\n                    create_graph=requires_grad,\n",
      "                    grad_inputs=gv[..., col_idx],\n                    retain_graph=True,\n                    create_graph=False,\n", rule="R08.2"),
    V("gdg-default-detached-weight", BS, "            gv = g * v2.unsqueeze(-2)\n", "            gv = g.detach() * v2.unsqueeze(-2)\n", rule="R08.1"),
    V("grad-mode-captured-late", BS, "    def g_prod_and_gdg_prod_diagonal(self, t, y, v1, v2):\n        requires_grad = torch.is_grad_enabled()\n        with torch.enable_grad():\n",
      "    def g_prod_and_gdg_prod_diagonal(self, t, y, v1, v2):\n        with torch.enable_grad():\n            requires_grad = torch.is_grad_enabled() and y.requires_grad\n", rule="R08.2"),
    V("jvp-v1-create-graph", BS, "                    grad_inputs=ga[..., col_idx],\n                    retain_graph=True,\n                    create_graph=requires_grad,\n",
      "                    grad_inputs=ga[..., col_idx],\n                    retain_graph=True,\n                    create_graph=y.requires_grad and False,\n", rule="R08.2"),
    V("jvp-inner-no-graph", CORE + "misc.py", "_vjp = torch.autograd.grad(outputs, inputs, grad_outputs=dummy_outputs, create_graph=True, allow_unused=True)",
      "_vjp = torch.autograd.grad(outputs, inputs, grad_outputs=dummy_outputs, create_graph=False, allow_unused=True)", rule="R08.2"),
    V("vjp-drops-kwargs", CORE + "misc.py", "    _vjp = torch.autograd.grad(outputs, inputs, **kwargs)\n    return convert_none_to_zeros(_vjp, inputs)",
      "    _vjp = torch.autograd.grad(outputs, inputs, grad_outputs=kwargs.get('grad_outputs'), allow_unused=True)\n    return convert_none_to_zeros(_vjp, inputs)", rule="R08.2"),
    V("detach-in-heun", M + "heun.py", "        y0_prime = y0 + dt * f + g_prod\n", "        y0_prime = y0 + dt * f + g_prod.detach()\n", rule="R08.1"),
    V("detach-in-srk-stage", M + "srk.py", "            H0.append(H0s)\n            H1.append(H1s)\n", "            H0.append(H0s)\n            H1.append(H1s.detach())\n", rule="R08.1"),
    V("detach-gdg-g", BS, "            y = y if y.requires_grad else y.detach().requires_grad_(True)\n            g = self.g(t, y)\n            vg_dg_vjp, = misc.vjp(\n                outputs=g,\n                inputs=y,\n                grad_outputs=g * v2,",
      "            y = y if y.requires_grad else y.detach().requires_grad_(True)\n            g = self.g(t, y)\n            vg_dg_vjp, = misc.vjp(\n                outputs=g,\n                inputs=y,\n                grad_outputs=g.detach() * v2,", rule="R08.1"),
    V("leafify-always", BS, "    def dg_ga_jvp_column_sum_v1(self, t, y, a):\n        requires_grad = torch.is_grad_enabled()\n        with torch.enable_grad():\n            y = y if y.requires_grad else y.detach().requires_grad_(True)",
      "    def dg_ga_jvp_column_sum_v1(self, t, y, a):\n        requires_grad = torch.is_grad_enabled()\n        with torch.enable_grad():\n            y = y.detach().requires_grad_(True)", rule="R08.1"),
    V("stable-division-detached-value", CORE + "misc.py", "    b = torch.where(b.abs().detach() > epsilon, b, torch.full_like(b, fill_value=epsilon).copysign(b))",
      "    b = torch.where(b.abs() > epsilon, b.detach(), torch.full_like(b, fill_value=epsilon).copysign(b))", rule="R08.1"),
    V("interp-data", CORE + "interp.py", "    y = (t1 - t) / (t1 - t0) * y0 + (t - t0) / (t1 - t0) * y1\n", "    y = (t1 - t) / (t1 - t0) * y0.data + (t - t0) / (t1 - t0) * y1\n", rule="R08.1"),
    V("no-grad-wider", SOLV, "                    # Estimate error based on difference between 1 full step and 2 half steps.\n                    with torch.no_grad():\n",
      "                    # Estimate error based on difference between 1 full step and 2 half steps.\n                    with torch.no_grad():\n                        next_y = next_y + 0\n", rule="R08.1"),
    V("no-grad-step", SOLV, "                    curr_y, curr_extra = self.step(curr_t, next_t, curr_y, curr_extra)\n",
      "                    with torch.no_grad():\n                        curr_y, curr_extra = self.step(curr_t, next_t, curr_y, curr_extra)\n", rule="R08.1"),
    V("logqp-item", BS, "        f_logqp = .5 * (u ** 2).sum(dim=1, keepdim=True)\n        return torch.cat([f, f_logqp], dim=1)\n\n    def g_diagonal",
      "        f_logqp = .5 * (u ** 2).sum(dim=1, keepdim=True)\n        f_logqp = f_logqp * float(f_logqp.mean() >= 0)\n        return torch.cat([f, f_logqp], dim=1)\n\n    def g_diagonal", rule="R08.1"),
    V("decorator-no-grad", M + "euler_heun.py", "    def step(self, t0, t1, y0, extra0):\n        del extra0", "    @torch.no_grad()\n    def step(self, t0, t1, y0, extra0):\n        del extra0", rule="R08.1"),
    # twins
    V("twin-leafify-if", BS, "    def g_prod_and_gdg_prod_default(self, t, y, v1, v2):\n        requires_grad = torch.is_grad_enabled()\n        with torch.enable_grad():\n            y = y if y.requires_grad else y.detach().requires_grad_(True)",
      "    def g_prod_and_gdg_prod_default(self, t, y, v1, v2):\n        requires_grad = torch.is_grad_enabled()\n        with torch.enable_grad():\n            if not y.requires_grad:\n                y = y.detach().requires_grad_(True)", expect="silent"),
    V("twin-rename-flag", BS, "    def g_prod_and_gdg_prod_diagonal(self, t, y, v1, v2):\n        requires_grad = torch.is_grad_enabled()",
      "    def g_prod_and_gdg_prod_diagonal(self, t, y, v1, v2):\n        keep = torch.is_grad_enabled()\n        requires_grad = keep", expect="silent"),
]
