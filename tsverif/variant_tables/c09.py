from ..variants import V, CORE

AD = CORE + "adjoint.py"

VARIANTS = [
    V("forward-uses-adjoint-rtol", AD, "    solver = solver_fn(\n        sde=sde,\n        bm=bm,\n        dt=dt,\n        adaptive=adaptive,\n        rtol=rtol,\n        atol=atol,",
      "    solver = solver_fn(\n        sde=sde,\n        bm=bm,\n        dt=dt,\n        adaptive=adaptive,\n        rtol=adjoint_rtol,\n        atol=atol,", rule="R09.1"),
    V("forward-uses-adjoint-adaptive", AD, "        dt=dt,\n        adaptive=adaptive,\n        rtol=rtol,\n        atol=atol,\n        dt_min=dt_min,\n        options=options\n    )\n    if extra_solver_state is None:\n        extra_solver_state = solver.init_extra_solver_state(ts[0], y0)\n\n    ys, *extra_solver_state",
      "        dt=dt,\n        adaptive=adjoint_adaptive,\n        rtol=rtol,\n        atol=atol,\n        dt_min=dt_min,\n        options=options\n    )\n    if extra_solver_state is None:\n        extra_solver_state = solver.init_extra_solver_state(ts[0], y0)\n\n    ys, *extra_solver_state", rule="R09.1"),
    V("check-contract-args", AD, "sdeint.check_contract(sde, y0, ts, bm, method, adaptive, options, names, logqp)", "sdeint.check_contract(sde, y0, ts, bm, method, adjoint_adaptive, options, names, logqp)", rule="R09.1"),
    V("apply-swapped-tols", AD, "        sde, ts, dt, bm, solver, method, adjoint_method, adjoint_adaptive, adjoint_rtol, adjoint_atol, dt_min,\n",
      "        sde, ts, dt, bm, solver, method, adjoint_method, adjoint_adaptive, adjoint_atol, adjoint_rtol, dt_min,\n", rule="R09.2"),
    V("none-count", AD, "            None, None, None, None, None, None, None, None, None, None, None, None, None, *out,",
      "            None, None, None, None, None, None, None, None, None, None, None, None, *out,", rule="R09.2"),
    V("loop-skips-first", AD, "        for i in range(ys.size(0) - 1, 0, -1):", "        for i in range(ys.size(0) - 1, 1, -1):", rule="R09.4"),
    V("cotangent-wrong-index", AD, "            aug_state[1] = aug_state[1] + grad_ys[i - 1]", "            aug_state[1] = aug_state[1] + grad_ys[i]", rule="R09.4"),
    V("cotangent-overwrites", AD, "            aug_state[1] = aug_state[1] + grad_ys[i - 1]", "            aug_state[1] = grad_ys[i - 1]", rule="R09.4"),
    V("state-not-reset", AD, "            aug_state[0] = ys[i - 1]\n", "", rule="R09.4"),
    V("interval-not-reflected", AD, "torch.stack([-ts[i], -ts[i - 1]]),", "torch.stack([-ts[i - 1], -ts[i]]),", rule="R09.4"),
    V("seed-cotangent", AD, "        aug_state = [ys[-1], grad_ys[-1]] + list(grad_extra_solver_state)", "        aug_state = [ys[-1], grad_ys[0]] + list(grad_extra_solver_state)", rule="R09.4"),
    V("bm-not-reversed", AD, "        reverse_bm = ReverseBrownian(ctx.bm)\n", "        reverse_bm = ctx.bm\n", rule="R09"),
    V("adjoint-solver-forward-tols", AD, "            rtol=ctx.adjoint_rtol,\n            atol=ctx.adjoint_atol,\n            dt_min=ctx.dt_min,\n            options=ctx.adjoint_options\n        )\n        if extra_solver_state is None:",
      "            rtol=ctx.adjoint_atol,\n            atol=ctx.adjoint_atol,\n            dt_min=ctx.dt_min,\n            options=ctx.adjoint_options\n        )\n        if extra_solver_state is None:", rule="R09.4"),
    V("params-filter-dropped", AD, "    adjoint_params = filter(lambda x: x.requires_grad, adjoint_params)\n", "", rule="R09.5"),
    V("saved-extras-shifted", AD, "            extra_solver_state = extras_and_adjoint_params[:ctx.len_extras]\n            adjoint_params = extras_and_adjoint_params[ctx.len_extras:]\n        else:\n            grad_extra_solver_state = ()",
      "            extra_solver_state = extras_and_adjoint_params[1:ctx.len_extras + 1]\n            adjoint_params = extras_and_adjoint_params[:1]\n        else:\n            grad_extra_solver_state = ()", rule="R09"),
    # R09.6: another solver starts to carry SDE evaluations in its initial extra state (computed outside the Function)
    V("every-solver-caches-initial-fields", CORE + "base_solver.py", "    def init_extra_solver_state(self, t0, y0) -> Tensors:\n        return ()\n",
      "    def init_extra_solver_state(self, t0, y0) -> Tensors:\n        return self.sde.f_and_g(t0, y0)\n", rule="R09.6"),
    # twins
    V("twin-loop-form", AD, "        for i in range(ys.size(0) - 1, 0, -1):", "        for i in reversed(range(1, ys.size(0))):", expect="silent"),
]

ADJ = AD
INIT = "        extra_solver_state = solver.init_extra_solver_state(ts[0], y0)\n\n    ys, *extra_solver_state = _SdeintAdjointMethod.apply("
VARIANTS += [
    # round-6 C10 seed: the initial solver state is computed without a graph when y0 is a constant
    V("init-extras-grad-only-if-y0-requires-grad", ADJ, INIT,
      "        with torch.set_grad_enabled(torch.is_grad_enabled() and y0.requires_grad):\n            extra_solver_state = solver.init_extra_solver_state(ts[0], y0)\n\n    ys, *extra_solver_state = _SdeintAdjointMethod.apply(", rule="R09.8"),
    V("init-extras-under-no-grad", ADJ, INIT,
      "        with torch.no_grad():\n            extra_solver_state = solver.init_extra_solver_state(ts[0], y0)\n\n    ys, *extra_solver_state = _SdeintAdjointMethod.apply(", rule="R09.8"),
    V("twin-init-extras-in-ambient-mode", ADJ, INIT,
      "        with torch.set_grad_enabled(torch.is_grad_enabled()):\n            extra_solver_state = solver.init_extra_solver_state(ts[0], y0)\n\n    ys, *extra_solver_state = _SdeintAdjointMethod.apply(", expect="silent"),
]

VARIANTS += [
    # session-4 repair: a single output time (the unrepaired backward pass never unpacked the augmented state)
    V("single-output-time-not-unpacked", AD, "        if ys.size(0) == 1:\n", "        if False:\n", rule="R09.9"),
    V("twin-single-output-time-by-length", AD, "        if ys.size(0) == 1:\n", "        if len(ys) == 1:\n", expect="silent"),
]
