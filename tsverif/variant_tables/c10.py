from ..variants import V, M, CORE

RH = M + "reversible_heun.py"
AD = CORE + "adjoint.py"

VARIANTS = [
    V("recon-z-sign", RH, "forward_z1 = 2 * forward_y0 - forward_z0 - forward_f0 * dt - self.forward_sde.prod(forward_g0, dW)",
      "forward_z1 = 2 * forward_y0 - forward_z0 + forward_f0 * dt - self.forward_sde.prod(forward_g0, dW)", rule="R10.1"),
    V("recon-y-half", RH, "forward_y1 = forward_y0 - (forward_f0 + forward_f1) * half_dt - self.forward_sde.prod(forward_g0 + forward_g1,\n                                                                                              half_dW)",
      "forward_y1 = forward_y0 - (forward_f0 + forward_f1) * half_dt - self.forward_sde.prod(forward_g0 + forward_g1,\n                                                                                              dW)", rule="R10.1"),
    V("recon-time", RH, "forward_f1, forward_g1 = self.forward_sde.f_and_g(-t1, forward_z1)", "forward_f1, forward_g1 = self.forward_sde.f_and_g(-t0, forward_z1)", rule="R10.1"),
    V("reeval-time", RH, "re_forward_f0, re_forward_g0 = self.forward_sde.f_and_g(-t0, forward_z0)", "re_forward_f0, re_forward_g0 = self.forward_sde.f_and_g(-t1, forward_z0)", rule="R10.2"),
    V("adj-y-factor", RH, "adj_y1 = adj_y1 + 2 * adj_z0", "adj_y1 = adj_y1 + adj_z0", rule="R10.2"),
    V("adj-z-sign", RH, "adj_z1 = -adj_z0", "adj_z1 = adj_z0", rule="R10.2"),
    V("adj-f1-dt", RH, "adj_f1 = adj_f1 + adj_z0 * dt", "adj_f1 = adj_f1 + adj_z0 * half_dt", rule="R10.2"),
    V("adj-g1-dW", RH, "adj_g1 = adj_g1 + self._adjoint_of_prod(adj_z0, dW)", "adj_g1 = adj_g1 + self._adjoint_of_prod(adj_z0, half_dW)", rule="R10.2"),
    V("adj-f0-missing", RH, "        adj_f0 = adj_f0 + adj_y0_half_dt\n", "        adj_f0 = adj_f0\n", rule="R10.2"),
    V("adj-params-dropped", RH, "        adj_params = misc.seq_add(adj_params, vjp_params)\n", "        adj_params = list(adj_params)\n", rule="R10.2"),
    V("vjp-order", RH, "grad_outputs=[adj_f0, adj_g0],", "grad_outputs=[adj_f1, adj_g1],", rule="R10.2"),
    V("vjp-before-accumulate", RH, "        adj_z0 = adj_z0 + vjp_z\n", "        adj_z0 = vjp_z\n", rule="R10.2"),
    V("adjoint-prod-general-transposed", RH, "self._adjoint_of_prod = lambda tensor1, tensor2: tensor1.unsqueeze(-1) * tensor2.unsqueeze(-2)",
      "self._adjoint_of_prod = lambda tensor1, tensor2: tensor1.unsqueeze(-2) * tensor2.unsqueeze(-1)", rule="R10.2"),
    V("state-order", RH, "y1 = misc.flatten([forward_y1, adj_y1, adj_f1, adj_g1, adj_z1] + adj_params).unsqueeze(0)",
      "y1 = misc.flatten([forward_y1, adj_y1, adj_g1, adj_f1, adj_z1] + adj_params).unsqueeze(0)", rule="R10.2"),
    V("extras-saved-always", AD, "        if method == METHODS.reversible_heun and adjoint_method == METHODS.adjoint_reversible_heun:",
      "        if method == METHODS.reversible_heun:", rule="R10.3"),
    V("extras-saved-never", AD, "            extras_for_backward = extra_solver_state\n", "            extras_for_backward = ()\n", rule="R10.3"),
    V("saved-order", AD, "ctx.save_for_backward(ys, ts, *extras_for_backward, *adjoint_params)", "ctx.save_for_backward(ys, ts, *adjoint_params, *extras_for_backward)", rule="R10.3"),
    # twins
    V("twin-recon-form", RH, "forward_z1 = 2 * forward_y0 - forward_z0 - forward_f0 * dt - self.forward_sde.prod(forward_g0, dW)",
      "forward_z1 = forward_y0 + forward_y0 - (forward_z0 + dt * forward_f0 + self.forward_sde.prod(forward_g0, dW))", expect="silent"),
    V("twin-adj-y", RH, "adj_y1 = adj_y1 + 2 * adj_z0", "adj_y1 = adj_y1 + adj_z0 + adj_z0", expect="silent"),
]

VARIANTS += [
    # R10.7 (known finding: forward and backward grids are anchored at opposite ends): other spellings of the same grid are
    # the same finding, not a new one
    V("twin-next-t-commuted", CORE + "base_solver.py", "next_t = min(curr_t + step_size, ts[-1])", "next_t = min(step_size + curr_t, ts[-1])", expect="silent"),
    V("twin-next-t-through-temporary", CORE + "base_solver.py", "next_t = min(curr_t + step_size, ts[-1])", "proposed = curr_t + step_size\n                next_t = min(proposed, ts[-1])", expect="silent"),
]
