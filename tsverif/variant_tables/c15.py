from ..variants import V, M, DERIVED

RH = M + "reversible_heun.py"

VARIANTS = [
    V("z1-coefficient", RH, "z1 = 2 * y0 - z0 + f0 * dt + self.sde.prod(g0, dW)", "z1 = 2 * y0 - z0 + f0 * dt + self.sde.prod(g0, 0.5 * dW)", rule="R15.1"),
    V("z1-not-reflection", RH, "z1 = 2 * y0 - z0 + f0 * dt + self.sde.prod(g0, dW)", "z1 = y0 + f0 * dt + self.sde.prod(g0, dW)", rule="R15.1"),
    V("y1-asymmetric", RH, "y1 = y0 + (f0 + f1) * (0.5 * dt) + self.sde.prod(g0 + g1, 0.5 * dW)",
      "y1 = y0 + (f0 + f1) * (0.5 * dt) + self.sde.prod(g0, 0.5 * dW) + self.sde.prod(g1, 0.4999 * dW)", rule="R15.1"),
    V("y1-drift-weights", RH, "y1 = y0 + (f0 + f1) * (0.5 * dt) + self.sde.prod(g0 + g1, 0.5 * dW)",
      "y1 = y0 + (0.4 * f0 + 0.6 * f1) * dt + self.sde.prod(g0 + g1, 0.5 * dW)", rule="R15.1"),
    V("fields-at-wrong-time", RH, "f1, g1 = self.sde.f_and_g(t1, z1)", "f1, g1 = self.sde.f_and_g(t0, z1)", rule="R15"),
    V("fields-at-y", RH, "        f1, g1 = self.sde.f_and_g(t1, z1)\n        y1 = y0 + (f0 + f1) * (0.5 * dt) + self.sde.prod(g0 + g1, 0.5 * dW)\n\n        return y1, (f1, g1, z1)",
      "        f1, g1 = self.sde.f_and_g(t1, z1)\n        y1 = y0 + (f0 + f1) * (0.5 * dt) + self.sde.prod(g0 + g1, 0.5 * dW)\n        f1, g1 = self.sde.f_and_g(t1, y1)\n\n        return y1, (f1, g1, z1)", rule="R15"),
    V("init-extras-order", RH, "return self.sde.f_and_g(t0, y0) + (y0,)", "return (y0,) + self.sde.f_and_g(t0, y0)", rule="R15.2"),
    V("reverse-bm-time-map", DERIVED, "out = self.base_brownian(-tb, -ta, return_U=return_U, return_A=return_A)",
      "out = self.base_brownian(-tb - 0.0, -ta + (tb - ta) * 0.0 + 1e-9, return_U=return_U, return_A=return_A)", rule="R15.1"),
    # twins
    V("twin-z1-form", RH, "z1 = 2 * y0 - z0 + f0 * dt + self.sde.prod(g0, dW)", "z1 = y0 + (y0 - z0) + dt * f0 + self.sde.prod(g0, dW)", expect="silent"),
    V("twin-y1-form", RH, "y1 = y0 + (f0 + f1) * (0.5 * dt) + self.sde.prod(g0 + g1, 0.5 * dW)",
      "y1 = y0 + 0.5 * dt * f0 + 0.5 * dt * f1 + 0.5 * self.sde.prod(g0, dW) + 0.5 * self.sde.prod(g1, dW)", expect="silent"),
]

BS = "torchsde/_core/base_solver.py"
SNAP = "                if ts[-1] - next_t < 1e-3 * step_size:\n"
VARIANTS += [
    # the defect repaired by 3ca4a9b: a rounding-size remainder becomes a step of its own
    V("grid-no-merge", BS, SNAP, "                if ts[-1] - next_t < 0 * step_size:\n", rule="R15.3"),
    V("grid-merge-absolute-tiny", BS, SNAP, "                if ts[-1] - next_t < 1e-30:\n", rule="R15.3"),
    V("grid-merge-wrong-sign", BS, SNAP, "                if next_t - ts[-1] > 1e-3 * step_size:\n", rule="R15.3"),
    V("grid-merge-half-step", BS, SNAP, "                if ts[-1] - next_t < 0.6 * step_size:\n", rule="R15.3"),
    V("grid-merge-to-output-time", BS, SNAP + "                    # The grid", "                if out_t - next_t < 1e-3 * step_size:\n                    # The grid", rule="R12.1"),
    V("twin-grid-merge-le", BS, SNAP, "                if ts[-1] - next_t <= 1e-3 * step_size:\n", expect="silent"),
    V("twin-grid-merge-1e-4", BS, SNAP, "                if ts[-1] - next_t < 1e-4 * step_size:\n", expect="silent"),
    V("twin-grid-merge-rearranged", BS, SNAP, "                if next_t + 1e-3 * step_size > ts[-1]:\n", expect="silent"),
]

VARIANTS += [
    # round-6 seed: times floored to the tolerance grid instead of rounded to the nearest grid point
    V("quantiser-floors", "torchsde/_brownian/brownian_interval.py", "            self._round = lambda x: round(x, ndigits)",
      "            self._round = lambda x: math.floor(x * 10 ** ndigits) / 10 ** ndigits", rule="R15.9"),
    V("twin-quantiser-named-function", "torchsde/_brownian/brownian_interval.py", "            self._round = lambda x: round(x, ndigits)",
      "            def _to_grid(x):\n                return round(x, ndigits)\n            self._round = _to_grid", expect="silent"),
]
