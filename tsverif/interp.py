"""E8 (front end) / E5 / E2 -- abstract evaluation of the repository's own function bodies over a mixed domain:
exact Python constants (ints and decimal literals as Fractions, strings, tuples, lists, dicts), polynomial normal
forms (:mod:`tsverif.nf`) for everything numeric that is not a constant, and abstract objects whose attributes and
callables are supplied by the rule.  This is constant propagation with a symbolic (canonical-form) value domain:
one forward pass over straight-line code, loops only over concretely known ranges / lists, branches only on
conditions that fold to a constant or that the rule decides by an explicit case split.  Nothing from the analysed
tree is imported; constructs outside the fragment raise AnalysisError (exit 2).
"""
import ast
from fractions import Fraction

from . import astq, nf
from .errors import AnalysisError
from .model import ClassInfo, FuncInfo, ModuleInfo
from .nf import Rat

MAX_LOOP = 64
MAX_DEPTH = 40


class SimRaise(Exception):
    """A ``raise`` statement of the analysed code reached during abstract evaluation."""

    def __init__(self, exc_name, message="", node=None, fi=None):
        super().__init__(f"{exc_name}: {message}")
        self.exc_name = exc_name
        self.message = message
        self.node = node
        self.fi = fi


_EXC_PARENTS = {
    "KeyError": "LookupError", "IndexError": "LookupError", "LookupError": "Exception",
    "AttributeError": "Exception", "ValueError": "Exception", "RuntimeError": "Exception",
    "NotImplementedError": "RuntimeError", "TypeError": "Exception", "AssertionError": "Exception",
    "Exception": "BaseException",
}


def exc_matches(name, handler_names):
    while name is not None:
        if name in handler_names:
            return True
        name = _EXC_PARENTS.get(name)
    return False


class Obj:
    """Abstract object: explicit attribute table, optional in-repo class for method lookup."""

    def __init__(self, name, cls=None, attrs=None, getattr_hook=None, call_hook=None, getitem_hook=None):
        self.name = name
        self.cls = cls
        self.attrs = dict(attrs or {})
        self.getattr_hook = getattr_hook
        self.call_hook = call_hook
        self.getitem_hook = getitem_hook
        self.setitem_log = []

    def __repr__(self):
        return f"<Obj {self.name}{':' + self.cls.name if self.cls else ''}>"


class BoundMethod:
    def __init__(self, fi, self_obj):
        self.fi = fi
        self.self_obj = self_obj

    def __repr__(self):
        return f"<bound {self.fi.qualname} of {self.self_obj!r}>"

    def __eq__(self, o):
        return isinstance(o, BoundMethod) and o.fi is self.fi and o.self_obj is self.self_obj

    def __hash__(self):
        return hash((id(self.fi), id(self.self_obj)))


class KwView(dict):
    """Keyword arguments of a call of a repository function, plus a read-only by-name view of the positional ones."""

    def __init__(self, real, named):
        super().__init__(real)
        self._named = named

    def get(self, k, default=None):
        if dict.__contains__(self, k):
            return dict.__getitem__(self, k)
        return self._named.get(k, default)

    def __getitem__(self, k):
        if dict.__contains__(self, k):
            return dict.__getitem__(self, k)
        return self._named[k]

    def __contains__(self, k):
        return dict.__contains__(self, k) or k in self._named


class Closure:
    def __init__(self, fi, env, node=None):
        self.fi = fi
        self.env = env
        self.node = node or fi.node


class ClassRef:
    def __init__(self, cls):
        self.cls = cls

    def __repr__(self):
        return f"<classref {self.cls.name}>"

    def __eq__(self, o):
        return isinstance(o, ClassRef) and o.cls is self.cls

    def __hash__(self):
        return hash(id(self.cls))


class ModuleRef:
    def __init__(self, mod):
        self.mod = mod


class External:
    """Reference to something outside the analysed package (``torch.zeros``, ``math.sqrt`` ...)."""

    def __init__(self, dotted):
        if dotted == "numpy" or dotted.startswith("numpy."):
            dotted = "np" + dotted[5:]
        self.dotted = dotted

    def __repr__(self):
        return f"<external {self.dotted}>"

    def __eq__(self, o):
        return isinstance(o, External) and o.dotted == self.dotted

    def __hash__(self):
        return hash(self.dotted)


class Intrinsic:
    def __init__(self, name, fn, params=None):
        self.name = name
        self.fn = fn
        self.params = params       # parameter names of the repository function this intrinsic stands for (without self)


class SuperProxy:
    def __init__(self, cls, obj):
        self.cls = cls
        self.obj = obj


class Cat:
    """torch.cat / torch.stack / misc.flatten result: ordered parts along an axis."""

    def __init__(self, kind, parts, dim=None):
        self.kind = kind
        self.parts = list(parts)
        self.dim = dim

    def __repr__(self):
        return f"{self.kind}{self.parts}@{self.dim}"


class Opaque:
    """A value the analysis does not model; using it arithmetically is an AnalysisError."""

    def __init__(self, tag):
        self.tag = tag

    def __repr__(self):
        return f"<opaque {self.tag}>"


def _dict_super_table():
    def setitem(interp, store):
        def f(it, a, k, n, fi):
            store[_hashable(a[0])] = a[1]
        return f

    def getitem(interp, store):
        def f(it, a, k, n, fi):
            if _hashable(a[0]) not in store:
                raise SimRaise("KeyError", repr(a[0]), n, fi)
            return store[_hashable(a[0])]
        return f

    def delitem(interp, store):
        def f(it, a, k, n, fi):
            if _hashable(a[0]) not in store:
                raise SimRaise("KeyError", repr(a[0]), n, fi)
            del store[_hashable(a[0])]
        return f

    def contains(interp, store):
        return lambda it, a, k, n, fi: _hashable(a[0]) in store

    def length(interp, store):
        return lambda it, a, k, n, fi: Fraction(len(store))

    def init(interp, store):
        return lambda it, a, k, n, fi: None

    def clear(interp, store):
        return lambda it, a, k, n, fi: store.clear()
    return {"__setitem__": setitem, "__getitem__": getitem, "__delitem__": delitem, "__contains__": contains,
            "__len__": length, "__init__": init, "clear": clear}


class _Return(Exception):
    def __init__(self, value):
        self.value = value


class _Break(Exception):
    pass


class _Continue(Exception):
    pass


NUM = (int, Fraction, float)
_DICT_SUPER = _dict_super_table()


def is_num(x):
    return isinstance(x, NUM) and not isinstance(x, bool)


def to_fraction_if_num(x):
    if is_num(x):
        return nf.frac(x)
    return x


class Hooks:
    """Rule-supplied semantics.  Every method may return NotImplemented to fall back to the default."""

    def decide(self, interp, test, env, fi):
        return NotImplemented

    def external_call(self, interp, dotted, args, kwargs, node, fi):
        return NotImplemented

    def tensor_method(self, interp, recv, name, args, kwargs, node, fi):
        return NotImplemented

    def tensor_attr(self, interp, recv, name, node, fi):
        return NotImplemented

    def truthy(self, interp, value, node, fi):
        """Truth value of a symbolic value in this scenario (e.g. a seed symbol stands for a non-zero seed)."""
        return NotImplemented

    def on_yield(self, interp, value, node, fi):
        return NotImplemented

    def on_with(self, interp, ctx_text, entering, fi):
        return None

    def subscript(self, interp, recv, index, node, fi):
        return NotImplemented

    def on_call(self, interp, callee, args, kwargs, node, fi):
        """Called before any in-repo function is entered; return a value to short-circuit."""
        return NotImplemented

    def isinstance(self, interp, obj, classes):
        return NotImplemented

    def global_name(self, interp, name, fi):
        """Override the meaning of a module-level name (e.g. a tableau module replaced by symbolic entries)."""
        return NotImplemented


def decide_by_model(interp, test, env, fi, values):
    """Decide a comparison of scalar expressions by evaluating both sides under a representative assignment of the
    scalar symbols (`values`: symbol name -> Fraction): a consistent choice of one *ordering* of the times involved.
    Returns True / False, or NotImplemented if the test is not such a comparison."""
    saved = interp.hooks
    interp.hooks = _PlainHooks(saved)
    try:
        def num(e):
            v = interp.eval(e, env, fi)
            if is_num(v):
                return nf.frac(v)
            if isinstance(v, Rat):
                table = {}
                for a in nf.all_atoms(v):
                    if a[0] == "s" and a[1] in values:
                        table[a] = Rat.const(values[a[1]])
                c = nf.substitute(v, table).const_value()
                if c is not None:
                    return c
            raise AnalysisError("not a scalar under the ordering model")

        def ev(e):
            if isinstance(e, ast.BoolOp):
                vals = [ev(x) for x in e.values]
                return all(vals) if isinstance(e.op, ast.And) else any(vals)
            if isinstance(e, ast.UnaryOp) and isinstance(e.op, ast.Not):
                return not ev(e.operand)
            if isinstance(e, ast.Compare):
                left = num(e.left)
                for op, r in zip(e.ops, e.comparators):
                    right = num(r)
                    ok = {ast.Lt: left < right, ast.LtE: left <= right, ast.Gt: left > right, ast.GtE: left >= right,
                          ast.Eq: left == right, ast.NotEq: left != right}.get(type(op))
                    if ok is None:
                        raise AnalysisError("unsupported comparison")
                    if not ok:
                        return False
                    left = right
                return True
            raise AnalysisError("not a comparison")
        try:
            return ev(test)
        except (AnalysisError, SimRaise):
            return NotImplemented
    finally:
        interp.hooks = saved


class _PlainHooks:
    """Delegates everything to the wrapped hooks except `decide` (no recursion while probing a test)."""

    def __init__(self, inner):
        self._inner = inner

    def decide(self, interp, test, env, fi):
        return NotImplemented

    def __getattr__(self, name):
        return getattr(self._inner, name)


class Interp:
    def __init__(self, model, hooks=None):
        self.model = model
        self.hooks = hooks or Hooks()
        self.depth = 0
        self.with_stack = []
        self.grad_stack = []          # [(context text, True / False / 'unknown' / None)] of the enclosing `with` items
        self._const_cache = {}
        self.trace = []

    # ------------------------------------------------------------------ errors
    def err(self, msg, node=None, fi=None):
        where = astq.loc(fi, node) if fi is not None and node is not None else None
        return AnalysisError(msg, where=where)

    # ------------------------------------------------------------------ names
    def module_value(self, mod, name, node=None, fi=None):
        key = (mod.name, name)
        if key in self._const_cache:
            return self._const_cache[key]
        r = self.model.resolve_symbol(mod.name, name)
        if r is None:
            return NotImplemented
        val = self._wrap_static(r)
        self._const_cache[key] = val
        return val

    def _wrap_static(self, r):
        if isinstance(r, ClassInfo):
            return ClassRef(r)
        if isinstance(r, FuncInfo):
            return Closure(r, None)
        if isinstance(r, ModuleInfo):
            return ModuleRef(r)
        if isinstance(r, tuple) and r[0] == "const":
            expr, mod = r[1], r[2]
            fake = _ModuleScope(mod)
            return self.eval(expr, {}, fake)
        if isinstance(r, tuple) and r[0] == "external":
            return External(r[1])
        return NotImplemented

    def lookup(self, name, env, fi, node=None):
        e = env
        while e is not None:
            if name in e:
                return e[name]
            e = e.get("__parent_env__")
        mod = fi.module
        g = self.hooks.global_name(self, name, fi)
        if g is not NotImplemented:
            return g
        v = self.module_value(mod, name, node, fi)
        if v is not NotImplemented:
            return v
        if name in _BUILTIN_INTRINSICS:
            return Intrinsic(name, _BUILTIN_INTRINSICS[name])
        if name == "__name__":
            return mod.name
        if name in ("ValueError", "RuntimeError", "KeyError", "AttributeError", "NotImplementedError", "TypeError",
                    "Exception", "AssertionError", "IndexError"):
            return External(name)
        raise self.err(f"unbound name `{name}`", node, fi)

    # ------------------------------------------------------------------ calls
    def canonical_args(self, callee, args, kwargs):
        """One argument style for the repository's own functions, whatever style the call site uses: the maximal
        prefix of the parameters that was supplied (positionally or by keyword) is positional; the rest stays in the
        keyword dictionary, which additionally answers `get` / `in` / `[]` for the positionally bound names (a view
        for the rule hooks; iterating or copying it yields the real keywords only)."""
        fnode = None
        skip = 0
        if isinstance(callee, BoundMethod):
            fnode, skip = callee.fi.node, 1
        elif isinstance(callee, Closure) and not isinstance(callee.node, ast.Lambda):
            fnode = callee.node
        elif isinstance(callee, Intrinsic) and callee.params is not None and not isinstance(kwargs, KwView):
            params = list(callee.params)
            args, kw = list(args), dict(kwargs)
            while len(args) < len(params) and params[len(args)] in kw:
                args.append(kw.pop(params[len(args)]))
            return args, KwView(kw, dict(zip(params, args)))
        if fnode is None or not isinstance(fnode, (ast.FunctionDef, ast.AsyncFunctionDef)) or isinstance(kwargs, KwView):
            return args, kwargs
        params = [p.arg for p in fnode.args.posonlyargs + fnode.args.args][skip:]
        args, kw = list(args), dict(kwargs)
        while len(args) < len(params) and params[len(args)] in kw:
            args.append(kw.pop(params[len(args)]))
        return args, KwView(kw, dict(zip(params, args)))

    def call(self, callee, args, kwargs, node=None, fi=None):
        args, kwargs = self.canonical_args(callee, args, kwargs)
        r = self.hooks.on_call(self, callee, args, kwargs, node, fi)
        if r is not NotImplemented:
            return r
        if isinstance(callee, BoundMethod):
            return self.call_function(callee.fi, [callee.self_obj] + list(args), kwargs, node)
        if isinstance(callee, Closure):
            if isinstance(callee.node, ast.Lambda):
                return self.call_lambda(callee, args, kwargs)
            return self.call_function(callee.fi, list(args), kwargs, node, closure_env=callee.env)
        if isinstance(callee, Intrinsic):
            return callee.fn(self, args, kwargs, node, fi)
        if isinstance(callee, ClassRef):
            return self.instantiate(callee.cls, args, kwargs, node, fi)
        if isinstance(callee, External):
            r = self.hooks.external_call(self, callee.dotted, args, kwargs, node, fi)
            if r is not NotImplemented:
                return r
            h = _EXTERNAL_INTRINSICS.get(callee.dotted)
            if h is not None:
                return h(self, args, kwargs, node, fi)
            raise self.err(f"call of external `{callee.dotted}` has no modelled meaning", node, fi)
        if isinstance(callee, Obj):
            if callee.call_hook is not None:
                return callee.call_hook(self, callee, args, kwargs, node, fi)
            if callee.cls is not None:
                m = self.model.lookup_method(callee.cls, "__call__")
                if m is not None:
                    return self.call_function(m, [callee] + list(args), kwargs, node)
        raise self.err(f"cannot call {callee!r}", node, fi)

    def instantiate(self, cls, args, kwargs, node=None, fi=None):
        obj = Obj(f"new:{cls.name}", cls=cls)
        init = self.model.lookup_method(cls, "__init__")
        if init is not None:
            self.call_function(init, [obj] + list(args), kwargs, node)
        return obj

    def bind(self, fnode, args, kwargs, fi, defaults_scope):
        a = fnode.args
        params = [p.arg for p in a.posonlyargs + a.args]
        env = {}
        args = list(args)
        if len(args) > len(params) and a.vararg is None:
            raise self.err(f"too many positional arguments for {getattr(fnode, 'name', '<lambda>')}", fnode, fi)
        for p, v in zip(params, args):
            env[p] = v
        if a.vararg is not None:
            env[a.vararg.arg] = tuple(args[len(params):])
        kw = dict(kwargs)
        for p in params[len(args):]:
            if p in kw:
                env[p] = kw.pop(p)
        for p in a.kwonlyargs:
            if p.arg in kw:
                env[p.arg] = kw.pop(p.arg)
        # defaults
        ndef = len(a.defaults)
        for i, p in enumerate(params):
            if p not in env:
                j = i - (len(params) - ndef)
                if j >= 0:
                    env[p] = self.eval(a.defaults[j], {}, defaults_scope)
                else:
                    raise self.err(f"missing argument `{p}` for {getattr(fnode, 'name', '<lambda>')}", fnode, fi)
        for p, d in zip(a.kwonlyargs, a.kw_defaults):
            if p.arg not in env:
                if d is None:
                    raise self.err(f"missing keyword argument `{p.arg}`", fnode, fi)
                env[p.arg] = self.eval(d, {}, defaults_scope)
        if a.kwarg is not None:
            env[a.kwarg.arg] = kw
        elif kw:
            raise self.err(f"unexpected keyword arguments {sorted(kw)} for {getattr(fnode, 'name', '<lambda>')}",
                           fnode, fi)
        return env

    def call_function(self, fi, args, kwargs, node=None, closure_env=None):
        if self.depth > MAX_DEPTH:
            raise self.err(f"abstract evaluation exceeded call depth {MAX_DEPTH} (recursion?) at {fi.qualname}", node, fi)
        if fi.is_generator:
            return GeneratorValue(fi, args, kwargs, closure_env)
        env = self.bind(fi.node, args, kwargs, fi, fi)
        if closure_env is not None:
            env["__parent_env__"] = closure_env
        self.depth += 1
        try:
            self.exec_block(fi.node.body, env, fi)
        except _Return as r:
            return r.value
        finally:
            self.depth -= 1
        return None

    def run_generator_body(self, fi, args, kwargs, closure_env=None):
        """Evaluate a generator function's body as straight-line code; `yield e` evaluates through hooks.on_yield."""
        env = self.bind(fi.node, args, kwargs, fi, fi)
        if closure_env is not None:
            env["__parent_env__"] = closure_env
        self.depth += 1
        try:
            self.exec_block(fi.node.body, env, fi)
        except _Return as r:
            return r.value
        finally:
            self.depth -= 1
        return None

    def call_lambda(self, clo, args, kwargs):
        env = self.bind(clo.node, args, kwargs, clo.fi, clo.fi)
        env["__parent_env__"] = clo.env
        return self.eval(clo.node.body, env, clo.fi)

    # ------------------------------------------------------------------ statements
    def exec_block(self, stmts, env, fi):
        for s in stmts:
            self.exec_stmt(s, env, fi)

    def exec_stmt(self, s, env, fi):
        if isinstance(s, ast.Expr):
            if isinstance(s.value, ast.Constant):
                return
            self.eval(s.value, env, fi)
        elif isinstance(s, ast.Assign):
            v = self.eval(s.value, env, fi)
            for t in s.targets:
                self.assign(t, v, env, fi)
        elif isinstance(s, ast.AnnAssign):
            if s.value is not None:
                self.assign(s.target, self.eval(s.value, env, fi), env, fi)
        elif isinstance(s, ast.AugAssign):
            cur = self.eval(_as_load(s.target), env, fi)
            v = self.binop(s.op, cur, self.eval(s.value, env, fi), s, fi)
            self.assign(s.target, v, env, fi)
        elif isinstance(s, ast.Return):
            raise _Return(self.eval(s.value, env, fi) if s.value is not None else None)
        elif isinstance(s, ast.If):
            if self.truth(s.test, env, fi):
                self.exec_block(s.body, env, fi)
            else:
                self.exec_block(s.orelse, env, fi)
        elif isinstance(s, ast.For):
            it = self.eval(s.iter, env, fi)
            seq = self.iterate(it, s, fi)
            for n, item in enumerate(seq):
                if n > getattr(self, "max_loop", MAX_LOOP):
                    raise self.err("loop bound exceeded in abstract evaluation", s, fi)
                self.assign(s.target, item, env, fi)
                try:
                    self.exec_block(s.body, env, fi)
                except _Break:
                    break
                except _Continue:
                    continue
            else:
                self.exec_block(s.orelse, env, fi)
        elif isinstance(s, ast.While):
            n = 0
            while self.truth(s.test, env, fi):
                n += 1
                if n > getattr(self, "max_loop", MAX_LOOP):
                    raise self.err("while-loop bound exceeded in abstract evaluation", s, fi)
                try:
                    self.exec_block(s.body, env, fi)
                except _Break:
                    break
                except _Continue:
                    continue
        elif isinstance(s, ast.Raise):
            name, msg = "Exception", ""
            if s.exc is not None:
                e = s.exc
                if isinstance(e, ast.Call):
                    name = astq.dotted(e.func) or ast.unparse(e.func)
                    if name == "trampoline.TailCall":
                        # a tail call is a continuation: evaluate the callee body in place
                        v = self.eval(e.args[0], env, fi)
                        raise _Return(self.drive(v, s, fi))
                    msg = ast.unparse(e.args[0])[:120] if e.args else ""
                else:
                    name = astq.dotted(e) or ast.unparse(e)
            raise SimRaise(name.split(".")[-1], msg, s, fi)
        elif isinstance(s, ast.Try):
            try:
                self.exec_block(s.body, env, fi)
            except SimRaise as ex:
                for h in s.handlers:
                    names = _handler_names(h)
                    if names is None or exc_matches(ex.exc_name, names):
                        if h.name:
                            env[h.name] = Opaque(f"exception {ex.exc_name}")
                        self.exec_block(h.body, env, fi)
                        break
                else:
                    raise
            else:
                self.exec_block(s.orelse, env, fi)
            finally:
                pass
            self.exec_block(s.finalbody, env, fi)
        elif isinstance(s, ast.With):
            texts = [ast.unparse(i.context_expr) for i in s.items]
            for t, item in zip(texts, s.items):
                self.with_stack.append(t)
                self.grad_stack.append((t, self._grad_mode_of(item.context_expr, env, fi)))
                self.hooks.on_with(self, t, True, fi)
            try:
                self.exec_block(s.body, env, fi)
            finally:
                for t in reversed(texts):
                    self.with_stack.pop()
                    self.grad_stack.pop()
                    self.hooks.on_with(self, t, False, fi)
        elif isinstance(s, ast.Delete):
            for t in s.targets:
                if isinstance(t, ast.Name):
                    env.pop(t.id, None)
                elif isinstance(t, ast.Subscript):
                    base = self.eval(t.value, env, fi)
                    idx = self.eval_index(t.slice, env, fi)
                    if isinstance(base, list):
                        if isinstance(idx, slice):
                            del base[slice(*(None if v is None else int(v) for v in (idx.start, idx.stop, idx.step)))]
                        else:
                            del base[int(idx)]
                    elif isinstance(base, dict):
                        if _hashable(idx) not in base:
                            raise SimRaise("KeyError", repr(idx), s, fi)
                        del base[_hashable(idx)]
                    elif isinstance(base, Obj):
                        m = self.model.lookup_method(base.cls, "__delitem__") if base.cls is not None else None
                        store = self.dict_store(base)
                        if m is not None:
                            self.call_function(m, [base, idx], {}, s)
                        elif store is not None:
                            if _hashable(idx) not in store:
                                raise SimRaise("KeyError", repr(idx), s, fi)
                            del store[_hashable(idx)]
        elif isinstance(s, ast.Assert):
            try:
                ok = self.truth(s.test, env, fi, allow_unknown=True)
            except AnalysisError:
                ok = None
            if ok is False:
                raise SimRaise("AssertionError", ast.unparse(s.test)[:100], s, fi)
        elif isinstance(s, ast.Pass):
            pass
        elif isinstance(s, (ast.FunctionDef,)):
            sub = fi.nested.get(s.name) if hasattr(fi, "nested") else None
            if sub is None:
                raise self.err(f"nested function {s.name} not indexed", s, fi)
            env[s.name] = Closure(sub, env)
        elif isinstance(s, ast.Break):
            raise _Break()
        elif isinstance(s, ast.Continue):
            raise _Continue()
        elif isinstance(s, ast.Import):
            for a in s.names:
                env[a.asname or a.name.split(".")[0]] = External(a.name if a.asname else a.name.split(".")[0])
        elif isinstance(s, ast.ImportFrom):
            for a in s.names:
                env[a.asname or a.name] = External(f"{s.module}.{a.name}" if s.level == 0 else a.name)
        elif isinstance(s, (ast.Global, ast.Nonlocal)):
            pass
        else:
            raise self.err(f"statement outside the evaluable fragment: `{ast.unparse(s)[:60]}`", s, fi)

    def assign(self, target, value, env, fi):
        if isinstance(target, ast.Name):
            env[target.id] = value
        elif isinstance(target, (ast.Tuple, ast.List)):
            vals = self.iterate(value, target, fi)
            star = [i for i, e in enumerate(target.elts) if isinstance(e, ast.Starred)]
            if star:
                i = star[0]
                after = len(target.elts) - i - 1
                if len(vals) < len(target.elts) - 1:
                    raise self.err("not enough values to unpack", target, fi)
                for e, v in zip(target.elts[:i], vals[:i]):
                    self.assign(e, v, env, fi)
                self.assign(target.elts[i].value, list(vals[i:len(vals) - after]), env, fi)
                for e, v in zip(target.elts[i + 1:], vals[len(vals) - after:]):
                    self.assign(e, v, env, fi)
            else:
                if len(vals) != len(target.elts):
                    raise self.err(f"cannot unpack {len(vals)} values into {len(target.elts)} targets "
                                   f"(`{ast.unparse(target)}`)", target, fi)
                for e, v in zip(target.elts, vals):
                    self.assign(e, v, env, fi)
        elif isinstance(target, ast.Attribute):
            obj = self.eval(target.value, env, fi)
            if isinstance(obj, Obj):
                obj.attrs[target.attr] = value
            else:
                raise self.err(f"attribute store on {obj!r}", target, fi)
        elif isinstance(target, ast.Subscript):
            obj = self.eval(target.value, env, fi)
            idx = self.eval_index(target.slice, env, fi)
            if isinstance(obj, list):
                obj[int(idx)] = value
            elif isinstance(obj, dict):
                obj[_hashable(idx)] = value
            elif isinstance(obj, Obj):
                m = self.model.lookup_method(obj.cls, "__setitem__") if obj.cls is not None else None
                store = self.dict_store(obj)
                if m is not None:
                    self.call_function(m, [obj, idx, value], {}, target)
                elif store is not None:
                    store[_hashable(idx)] = value
                else:
                    obj.setitem_log.append((idx, value))
            else:
                raise self.err(f"subscript store on {obj!r}", target, fi)
        else:
            raise self.err(f"assignment target outside the fragment: `{ast.unparse(target)}`", target, fi)

    def _grad_mode_of(self, ctx_expr, env, fi):
        """What a `with` item does to autograd recording: True / False when it switches it on / off, "unknown" when it is a
        grad-mode context whose argument the scenario cannot evaluate, None when it is no grad-mode context at all."""
        if not isinstance(ctx_expr, ast.Call):
            return None
        name = astq.dotted(ctx_expr.func) or ""
        if name.endswith("no_grad"):
            return False
        if name.endswith("enable_grad"):
            return True
        if name.endswith("set_grad_enabled") and ctx_expr.args:
            try:
                return bool(self.truth_value(self.eval(ctx_expr.args[0], env, fi), ctx_expr.args[0], fi))
            except (AnalysisError, SimRaise):
                return "unknown"
        return None

    def iterate(self, it, node, fi):
        if isinstance(it, (list, tuple)):
            return list(it)
        if isinstance(it, range):
            return list(it)
        if isinstance(it, dict):
            return list(it.keys())
        if isinstance(it, (set, frozenset)):
            return sorted(it, key=repr)          # a set of concrete values: any order, made deterministic
        if isinstance(it, Cat):
            return list(it.parts)
        if isinstance(it, _Zip):
            return it.items
        if isinstance(it, str):
            return list(it)
        h = getattr(it, "sim_iter", None)          # rule-supplied abstract values (concrete small vectors)
        if h is not None:
            return list(h())
        raise self.err(f"cannot iterate over {it!r}", node, fi)

    # ------------------------------------------------------------------ expressions
    def truth(self, test, env, fi, allow_unknown=False):
        d = self.hooks.decide(self, test, env, fi)
        if d is not NotImplemented:
            return bool(d)
        v = self.eval(test, env, fi)
        return self.truth_value(v, test, fi, allow_unknown)

    def truth_value(self, v, node, fi, allow_unknown=False):
        if isinstance(v, bool) or v is None:
            return bool(v)
        if is_num(v):
            return v != 0
        if isinstance(v, (str, tuple, list, dict, set, frozenset)):
            return len(v) > 0
        if isinstance(v, Rat):
            c = v.const_value()
            if c is not None:
                return c != 0
        if isinstance(v, (Obj, ClassRef, Closure, BoundMethod)):
            return True
        t = self.hooks.truthy(self, v, node, fi)
        if t is not NotImplemented:
            return t
        if allow_unknown:
            return None
        raise self.err(f"branch on a value the analysis cannot decide: `{ast.unparse(node)[:80]}` = {v!r}", node, fi)

    def eval_index(self, sl, env, fi):
        if isinstance(sl, ast.Slice):
            lo = self.eval(sl.lower, env, fi) if sl.lower is not None else None
            hi = self.eval(sl.upper, env, fi) if sl.upper is not None else None
            st = self.eval(sl.step, env, fi) if sl.step is not None else None
            return slice(_int_or_none(lo), _int_or_none(hi), _int_or_none(st))
        if isinstance(sl, ast.Tuple):
            return tuple(self.eval_index(e, env, fi) for e in sl.elts)
        v = self.eval(sl, env, fi)
        if isinstance(v, Fraction) and v.denominator == 1:
            return int(v)
        return v

    def eval(self, e, env, fi):
        m = getattr(self, "_e_" + type(e).__name__, None)
        if m is None:
            raise self.err(f"expression outside the evaluable fragment: `{ast.unparse(e)[:60]}`", e, fi)
        return m(e, env, fi)

    def _e_Constant(self, e, env, fi):
        v = e.value
        if is_num(v):
            return nf.frac(v)
        if v is Ellipsis:
            return Ellipsis
        return v

    def _e_Name(self, e, env, fi):
        return self.lookup(e.id, env, fi, e)

    def _e_Tuple(self, e, env, fi):
        out = []
        for x in e.elts:
            if isinstance(x, ast.Starred):
                out.extend(self.iterate(self.eval(x.value, env, fi), x, fi))
            else:
                out.append(self.eval(x, env, fi))
        return tuple(out)

    def _e_List(self, e, env, fi):
        return list(self._e_Tuple(e, env, fi))

    def _e_Set(self, e, env, fi):
        return {_hashable(x) for x in self._e_Tuple(e, env, fi)}

    def _e_Dict(self, e, env, fi):
        d = {}
        for k, v in zip(e.keys, e.values):
            if k is None:
                d.update(self.eval(v, env, fi))
            else:
                d[_hashable(self.eval(k, env, fi))] = self.eval(v, env, fi)
        return d

    def _e_JoinedStr(self, e, env, fi):
        return "<fstring>"

    def _e_Lambda(self, e, env, fi):
        return Closure(fi, env, node=e)

    def _e_IfExp(self, e, env, fi):
        return self.eval(e.body if self.truth(e.test, env, fi) else e.orelse, env, fi)

    def _e_BoolOp(self, e, env, fi):
        # Python semantics: the last operand is returned as it is, its truth value is never taken
        last = len(e.values) - 1
        if isinstance(e.op, ast.And):
            v = True
            for i, x in enumerate(e.values):
                v = self.eval(x, env, fi)
                if i < last and not self.truth_value(v, x, fi):
                    return v
            return v
        v = False
        for i, x in enumerate(e.values):
            v = self.eval(x, env, fi)
            if i < last and self.truth_value(v, x, fi):
                return v
        return v

    def _e_UnaryOp(self, e, env, fi):
        v = self.eval(e.operand, env, fi)
        if isinstance(e.op, ast.Not):
            return not self.truth_value(v, e.operand, fi)
        if isinstance(e.op, ast.USub):
            if isinstance(v, Rat) or is_num(v):
                return -v if isinstance(v, Rat) else -nf.frac(v)
            h = getattr(v, "sim_neg", None)           # rule-supplied abstract values
            if h is not None:
                return h()
        if isinstance(e.op, ast.UAdd):
            return v
        raise self.err(f"unary operator on {v!r}", e, fi)

    def _e_BinOp(self, e, env, fi):
        res = self.binop(e.op, self.eval(e.left, env, fi), self.eval(e.right, env, fi), e, fi)
        lim = getattr(self, "size_limit", None)
        if lim is not None and isinstance(res, Rat):
            n = len(res.num.terms)
            self.max_terms = max(getattr(self, "max_terms", 0), n)
            if n > lim:
                # a deterministic budget for evaluations on concrete small models: forms that grow this large will not be
                # compared in reasonable time; the rule gives up on this tree (exit 2) instead of running for hours
                raise self.err(f"canonical form of {n} terms exceeds the budget of {lim} of this evaluation", e, fi)
        return res

    def binop(self, op, l, r, node, fi):
        if isinstance(op, ast.Add) and isinstance(l, (tuple, list)) and isinstance(r, type(l)):
            return l + r
        if isinstance(op, ast.Add) and isinstance(l, list) and isinstance(r, tuple):
            return l + list(r)
        if isinstance(op, ast.Mult) and isinstance(l, (tuple, list)) and is_num(r):
            return l * int(r)
        if isinstance(op, ast.Add) and isinstance(l, str) and isinstance(r, str):
            return l + r
        if isinstance(op, ast.Mult) and isinstance(l, str) and is_num(r):
            return l * int(r)
        if isinstance(op, ast.Mod) and isinstance(l, str):
            return "<fstring>"
        if is_num(l) and is_num(r):
            l, r = nf.frac(l), nf.frac(r)
            if isinstance(op, ast.Add):
                return l + r
            if isinstance(op, ast.Sub):
                return l - r
            if isinstance(op, ast.Mult):
                return l * r
            if isinstance(op, ast.Div):
                if r == 0:
                    raise self.err("division by the constant zero", node, fi)
                return l / r
            if isinstance(op, ast.FloorDiv):
                return Fraction(l // r)
            if isinstance(op, ast.Mod):
                return l % r
            if isinstance(op, ast.Pow):
                if r.denominator == 1:
                    return l ** int(r)
                return Rat.const(l) ** r
            if isinstance(op, (ast.BitAnd, ast.BitOr, ast.BitXor, ast.LShift, ast.RShift)) and l.denominator == 1 \
                    and r.denominator == 1:
                a, b = int(l), int(r)
                if isinstance(op, (ast.LShift, ast.RShift)) and not 0 <= b <= 4096:
                    raise self.err(f"shift by {b} bits", node, fi)
                return Fraction({ast.BitAnd: lambda: a & b, ast.BitOr: lambda: a | b, ast.BitXor: lambda: a ^ b,
                                 ast.LShift: lambda: a << b, ast.RShift: lambda: a >> b}[type(op)]())
        if isinstance(l, (Rat,) + NUM) and isinstance(r, (Rat,) + NUM) and not isinstance(l, bool) \
                and not isinstance(r, bool):
            if isinstance(op, ast.Pow):
                if isinstance(r, Rat):
                    c = r.const_value()
                    if c is None:
                        raise self.err("symbolic exponent", node, fi)
                    r = c
                return Rat.lift(l) ** nf.frac(r)
            L, R = Rat.lift(l), Rat.lift(r)
            if isinstance(op, ast.Add):
                return L + R
            if isinstance(op, ast.Sub):
                return L - R
            if isinstance(op, ast.Mult):
                return L * R
            if isinstance(op, ast.Div):
                return L / R
            if isinstance(op, ast.Mod):
                return nf.fn("mod", L, R)
            if isinstance(op, ast.FloorDiv):
                return nf.fn("floordiv", L, R)
            if isinstance(op, (ast.BitAnd, ast.BitOr, ast.BitXor, ast.LShift, ast.RShift)):
                return nf.fn(type(op).__name__.lower(), L, R)
        if isinstance(op, ast.MatMult) and isinstance(l, Rat) and isinstance(r, Rat):
            return nf.bilinear("matmul", l, r)
        for o in (l, r):
            h = getattr(o, "sim_binop", None)       # rule-supplied abstract values (index-level tensors, layouts)
            if h is not None:
                res = h(op, l, r)
                if res is not NotImplemented:
                    return res
        raise self.err(f"binary operator {type(op).__name__} on {l!r} and {r!r}", node, fi)

    def _e_Compare(self, e, env, fi):
        left = self.eval(e.left, env, fi)
        if len(e.ops) == 1:
            right0 = self.eval(e.comparators[0], env, fi)
            for o in (left, right0):
                h = getattr(o, "sim_compare", None)      # element-wise comparison of rule-supplied vectors
                if h is not None:
                    res = h(e.ops[0], left, right0)
                    if res is not NotImplemented:
                        return res
            return bool(self.compare(e.ops[0], left, right0, e, fi))
        for op, rexpr in zip(e.ops, e.comparators):
            right = self.eval(rexpr, env, fi)
            ok = NotImplemented
            for o in (left, right):
                h = getattr(o, "sim_compare", None)
                if h is not None and ok is NotImplemented:
                    ok = h(op, left, right)
            if ok is NotImplemented:
                ok = self.compare(op, left, right, e, fi)
            if not ok:
                return False
            left = right
        return True

    def compare(self, op, l, r, node, fi):
        if isinstance(op, ast.Is):
            return l is r or (l is None and r is None) or (isinstance(l, bool) and isinstance(r, bool) and l == r)
        if isinstance(op, ast.IsNot):
            return not self.compare(ast.Is(), l, r, node, fi)
        if isinstance(op, (ast.In, ast.NotIn)):
            res = self.contains(r, l, node, fi)
            return res if isinstance(op, ast.In) else not res
        if isinstance(l, Opaque) or isinstance(r, Opaque):
            raise self.err(f"comparison with a value the analysis does not model `{ast.unparse(node)[:60]}`", node, fi)
        l2, r2 = _cmp_norm(l), _cmp_norm(r)
        if isinstance(op, (ast.Eq, ast.NotEq)):
            if isinstance(l2, Rat) or isinstance(r2, Rat):
                if isinstance(l2, (Rat, Fraction)) and isinstance(r2, (Rat, Fraction)):
                    same = nf.equal(l2, r2)
                    if not same:
                        # different canonical forms of symbolic values: not decidable as a constant
                        d = Rat.lift(l2) - Rat.lift(r2)
                        if d.const_value() is None:
                            raise self.err(f"comparison of symbolic values `{ast.unparse(node)[:60]}`", node, fi)
                    return same if isinstance(op, ast.Eq) else not same
                return isinstance(op, ast.NotEq)
            eq = l2 == r2
            return eq if isinstance(op, ast.Eq) else not eq
        if isinstance(l2, Fraction) and isinstance(r2, Fraction):
            return {ast.Lt: l2 < r2, ast.LtE: l2 <= r2, ast.Gt: l2 > r2, ast.GtE: l2 >= r2}[type(op)]
        raise self.err(f"ordering comparison of non-constants `{ast.unparse(node)[:60]}`", node, fi)

    def contains(self, container, item, node, fi):
        if isinstance(item, Opaque):
            raise self.err("membership test of a value the analysis does not model", node, fi)
        if isinstance(container, (tuple, list)):
            return any(_cmp_norm(x) == _cmp_norm(item) for x in container)
        if isinstance(container, (dict, set, frozenset)):
            return _hashable(item) in container
        if isinstance(container, str):
            return isinstance(item, str) and item in container
        if isinstance(container, ClassRef):
            meta = next((c.metaclass for c in self.model.mro(container.cls) if c.metaclass), None)
            if meta is not None:
                m = self.model.lookup_method(meta, "__contains__")
                if m is not None:
                    return self.truth_value(self.call_function(m, [container, item], {}, node), node, fi)
        if isinstance(container, Obj) and container.cls is not None:
            m = self.model.lookup_method(container.cls, "__contains__")
            if m is not None:
                return self.truth_value(self.call_function(m, [container, item], {}, node), node, fi)
            store = self.dict_store(container)
            if store is not None:
                return _hashable(item) in store
        raise self.err(f"`in` on {container!r}", node, fi)

    def dict_store(self, obj):
        """Backing dictionary of an abstract object whose class derives from the builtin dict (created on first use)."""
        if not isinstance(obj, Obj) or obj.cls is None or "dict" not in self.model.external_bases(obj.cls):
            return None
        if not hasattr(obj, "store"):
            obj.store = {}
        return obj.store

    def _e_Attribute(self, e, env, fi):
        base = self.eval(e.value, env, fi)
        return self.getattr(base, e.attr, e, fi)

    def getattr(self, base, name, node=None, fi=None, default=NotImplemented):
        if isinstance(base, Obj):
            if name in base.attrs:
                return base.attrs[name]
            if base.cls is not None:
                m = self.model.lookup_method(base.cls, name)
                if m is not None:
                    if m.is_property:
                        return self.call_function(m, [base], {}, node)
                    if "staticmethod" in m.decorators:
                        return Closure(m, None)
                    if "classmethod" in m.decorators:
                        return BoundMethod(m, ClassRef(base.cls))
                    return BoundMethod(m, base)
                expr, owner = self.model.lookup_class_attr(base.cls, name)
                if expr is not None:
                    return self.eval(expr, {}, _ClassScope(owner))
            if base.getattr_hook is not None:
                r = base.getattr_hook(self, base, name, node, fi)
                if r is not NotImplemented:
                    return r
            store = self.dict_store(base)
            if store is not None and name in ("get", "keys", "values", "items", "pop", "setdefault", "copy"):
                # a method the object inherits from the builtin dict and does not override: that of its backing store
                return _PyMethod(store, name)
            if default is not NotImplemented:
                return default
            raise SimRaise("AttributeError", f"{base!r} has no attribute {name}", node, fi)
        if isinstance(base, ModuleRef):
            v = self.module_value(base.mod, name, node, fi)
            if v is NotImplemented:
                raise self.err(f"module {base.mod.name} has no symbol {name}", node, fi)
            return v
        if isinstance(base, ClassRef):
            m = self.model.lookup_method(base.cls, name)
            if m is not None:
                return Closure(m, None)
            expr, owner = self.model.lookup_class_attr(base.cls, name)
            if expr is not None:
                return self.eval(expr, {}, _ClassScope(owner))
            meta = next((c.metaclass for c in self.model.mro(base.cls) if c.metaclass), None)
            if meta is not None:
                mm = self.model.lookup_method(meta, name)
                if mm is not None:
                    return BoundMethod(mm, base)
            if name == "__name__":
                return base.cls.name
            if default is not NotImplemented:
                return default
            if self.model.external_bases(base.cls):
                # inherited from a base class outside the analysed package (e.g. torch.autograd.Function.apply)
                return External(f"{base.cls.name}.{name}")
            raise SimRaise("AttributeError", f"class {base.cls.name} has no attribute {name}", node, fi)
        if isinstance(base, External):
            return External(f"{base.dotted}.{name}")
        if isinstance(base, SuperProxy):
            m = self.model.lookup_method(base.obj.cls, name, after=base.cls) if base.obj.cls is not None else None
            if m is None:
                store = self.dict_store(base.obj)
                if store is not None and name in _DICT_SUPER:
                    return Intrinsic(f"super().{name}", _DICT_SUPER[name](self, store))
                return Intrinsic(f"super().{name}", lambda it, a, k, n, f: None)
            return BoundMethod(m, base.obj)
        if isinstance(base, (Rat, Cat)) or is_num(base):
            r = self.hooks.tensor_attr(self, base, name, node, fi)
            if r is not NotImplemented:
                return r
            return _TensorMethod(base, name)
        if isinstance(base, (list, dict, tuple, str, set, frozenset)):
            return _PyMethod(base, name)
        if isinstance(base, GeneratorValue):
            raise self.err("attribute of a generator object", node, fi)
        if default is not NotImplemented:
            return default
        raise self.err(f"attribute `{name}` of {base!r}", node, fi)

    def _e_Subscript(self, e, env, fi):
        base = self.eval(e.value, env, fi)
        idx = self.eval_index(e.slice, env, fi)
        r = self.hooks.subscript(self, base, idx, e, fi)
        if r is not NotImplemented:
            return r
        if isinstance(base, (tuple, list, str)):
            try:
                return base[idx]
            except (IndexError, TypeError):
                raise SimRaise("IndexError", ast.unparse(e), e, fi)
        if isinstance(base, dict):
            k = _hashable(idx)
            if k not in base:
                raise SimRaise("KeyError", repr(k), e, fi)
            return base[k]
        if isinstance(base, Obj):
            if base.getitem_hook is not None:
                return base.getitem_hook(self, base, idx, e, fi)
            if base.cls is not None:
                m = self.model.lookup_method(base.cls, "__getitem__")
                if m is not None:
                    return self.call_function(m, [base, idx], {}, e)
                store = self.dict_store(base)
                if store is not None:
                    k = _hashable(idx)
                    if k not in store:
                        raise SimRaise("KeyError", repr(k), e, fi)
                    return store[k]
        if isinstance(base, Cat) and isinstance(idx, (int, slice)):
            return base.parts[idx] if isinstance(idx, int) else Cat(base.kind, base.parts[idx], base.dim)
        if isinstance(base, Rat):
            return nf.linear(f"getitem[{_index_text(idx)}]", (), base)
        raise self.err(f"subscript of {base!r}", e, fi)

    def _e_Starred(self, e, env, fi):
        raise self.err("starred expression in an unsupported position", e, fi)

    def _e_Call(self, e, env, fi):
        # super() needs the lexical class
        if isinstance(e.func, ast.Name) and e.func.id == "super" and "super" not in env:
            return self._super(e, env, fi)
        callee = self.eval(e.func, env, fi)
        args = []
        for a in e.args:
            if isinstance(a, ast.Starred):
                args.extend(self.iterate(self.eval(a.value, env, fi), a, fi))
            else:
                args.append(self.eval(a, env, fi))
        kwargs = {}
        for k in e.keywords:
            if k.arg is None:
                kwargs.update(self.eval(k.value, env, fi))
            else:
                kwargs[k.arg] = self.eval(k.value, env, fi)
        return self.call(callee, args, kwargs, e, fi)

    def _super(self, e, env, fi):
        owner = fi
        while owner is not None and owner.cls is None:
            owner = owner.parent
        if owner is None:
            raise self.err("super() outside a method", e, fi)
        cls = owner.cls
        if e.args:
            c = self.eval(e.args[0], env, fi)
            if isinstance(c, ClassRef):
                cls = c.cls
        obj = env.get(owner.params[0])
        e2 = env
        while obj is None and e2 is not None:
            e2 = e2.get("__parent_env__")
            obj = e2.get(owner.params[0]) if e2 else None
        return SuperProxy(cls, obj)

    def _comprehension(self, e, env, fi, emit):
        def rec(i, scope):
            if i == len(e.generators):
                emit(scope)
                return
            g = e.generators[i]
            for item in self.iterate(self.eval(g.iter, scope, fi), g.iter, fi):
                inner = {"__parent_env__": scope}
                self.assign(g.target, item, inner, fi)
                if all(self.truth(c, inner, fi) for c in g.ifs):
                    rec(i + 1, inner)
        rec(0, env)

    def _e_ListComp(self, e, env, fi):
        out = []
        self._comprehension(e, env, fi, lambda sc: out.append(self.eval(e.elt, sc, fi)))
        return out

    _e_GeneratorExp = _e_ListComp

    def _e_SetComp(self, e, env, fi):
        return {_hashable(x) for x in self._e_ListComp(e, env, fi)}

    def _e_SetComp(self, e, env, fi):
        return self._e_ListComp(e, env, fi)

    def _e_DictComp(self, e, env, fi):
        out = {}
        self._comprehension(e, env, fi,
                            lambda sc: out.__setitem__(_hashable(self.eval(e.key, sc, fi)), self.eval(e.value, sc, fi)))
        return out

    def _e_Yield(self, e, env, fi):
        v = self.eval(e.value, env, fi) if e.value is not None else None
        r = self.hooks.on_yield(self, v, e, fi)
        if r is NotImplemented:
            return self.drive(v, e, fi)
        return r

    def _e_YieldFrom(self, e, env, fi):
        # value-wise `yield from g()` evaluates to g's return value, like a trampolined `yield g()`
        v = self.eval(e.value, env, fi)
        r = self.hooks.on_yield(self, v, e, fi)
        if r is NotImplemented:
            return self.drive(v, e, fi)
        return r

    def drive(self, v, node, fi):
        """Result of running a generator object to completion as the trampoline would (its return value)."""
        if isinstance(v, GeneratorValue):
            return self.run_generator_body(v.fi, v.args, v.kwargs, v.closure_env)
        return v


class GeneratorValue:
    def __init__(self, fi, args, kwargs, closure_env):
        self.fi, self.args, self.kwargs, self.closure_env = fi, args, kwargs, closure_env


class _ModuleScope:
    """Pseudo function scope for evaluating module-level expressions."""

    def __init__(self, mod):
        self.module = mod
        self.cls = None
        self.parent = None
        self.nested = {}
        self.params = []
        self.qualname = "<module>"
        self.node = mod.tree


class _ClassScope(_ModuleScope):
    def __init__(self, cls):
        super().__init__(cls.module)
        self.cls = None
        self.qualname = f"{cls.name}.<class body>"
        self.node = cls.node


class _Zip:
    def __init__(self, items):
        self.items = items


class _TensorMethod:
    def __init__(self, recv, name):
        self.recv, self.name = recv, name


class _PyMethod:
    def __init__(self, recv, name):
        self.recv, self.name = recv, name


def _as_load(t):
    import copy
    t2 = copy.copy(t)
    t2.ctx = ast.Load()
    return t2


def _handler_names(h):
    if h.type is None:
        return None
    if isinstance(h.type, ast.Tuple):
        return [astq.dotted(x).split(".")[-1] for x in h.type.elts]
    return [astq.dotted(h.type).split(".")[-1]]


def _hashable(x):
    if isinstance(x, Rat):
        c = x.const_value()
        return c if c is not None else x.key()
    if isinstance(x, (list, tuple)):
        return tuple(_hashable(i) for i in x)
    if is_num(x) and not isinstance(x, Fraction):
        return nf.frac(x)
    return x


def _cmp_norm(x):
    if is_num(x):
        return nf.frac(x)
    if isinstance(x, Rat):
        c = x.const_value()
        return c if c is not None else x
    if isinstance(x, list):
        return tuple(_cmp_norm(i) for i in x)
    if isinstance(x, tuple):
        return tuple(_cmp_norm(i) for i in x)
    return x


def _int_or_none(x):
    if x is None:
        return None
    if isinstance(x, Fraction) and x.denominator == 1:
        return int(x)
    if isinstance(x, int):
        return x
    raise AnalysisError(f"non-integer slice bound {x!r}")


def _index_text(idx):
    if isinstance(idx, tuple):
        return ",".join(_index_text(i) for i in idx)
    if isinstance(idx, slice):
        return f"{'' if idx.start is None else idx.start}:{'' if idx.stop is None else idx.stop}"
    if idx is Ellipsis:
        return "..."
    return str(idx)


# ---------------------------------------------------------------------------------------------- intrinsics
def _i_range(it, args, kw, node, fi):
    vals = [_int_or_none(nf.frac(a) if is_num(a) else a) for a in args]
    return range(*vals)


def _i_len(it, args, kw, node, fi):
    x = args[0]
    if isinstance(x, (list, tuple, dict, str, set, frozenset)):
        return Fraction(len(x))
    if isinstance(x, Cat):
        return Fraction(len(x.parts))
    if hasattr(x, "shape") and hasattr(x, "rows") and hasattr(x, "__len__"):
        return Fraction(len(x))            # an index-level tensor supplied by a rule
    if isinstance(x, Obj) and isinstance(x.attrs.get("__len__"), Intrinsic):
        return x.attrs["__len__"].fn(it, [], {}, node, fi)
    if isinstance(x, Obj) and x.cls is not None:
        m = it.model.lookup_method(x.cls, "__len__")
        if m is not None:
            return it.call_function(m, [x], {}, node)
        store = it.dict_store(x)
        if store is not None:
            return Fraction(len(store))
    raise it.err(f"len() of {x!r}", node, fi)


def _i_isinstance(it, args, kw, node, fi):
    obj, classes = args
    if not isinstance(classes, (tuple, list)):
        classes = (classes,)
    r = it.hooks.isinstance(it, obj, classes)
    if r is not NotImplemented:
        return r
    for c in classes:
        if isinstance(c, ClassRef):
            if isinstance(obj, Obj) and obj.cls is not None and c.cls in it.model.mro(obj.cls):
                return True
        elif isinstance(c, (External, Intrinsic)):
            name = c.dotted.split(".")[-1] if isinstance(c, External) else c.name
            if name in ("int",) and isinstance(obj, Fraction) and obj.denominator == 1:
                return True
            if name in ("float",) and isinstance(obj, Fraction):
                return True
            if name == "str" and isinstance(obj, str):
                return True
            if name == "tuple" and isinstance(obj, tuple):
                return True
            if name == "list" and isinstance(obj, list):
                return True
            if name == "dict" and isinstance(obj, dict):
                return True
            if name == "Tensor" and isinstance(obj, (Rat, Cat)):
                return True
            if name == "Module" and isinstance(obj, Obj):
                return bool(obj.attrs.get("__is_module__", False))
    return False


def _i_hasattr(it, args, kw, node, fi):
    obj, name = args
    try:
        it.getattr(obj, name, node, fi)
        return True
    except SimRaise as e:
        if e.exc_name == "AttributeError":
            return False
        raise


def _i_getattr(it, args, kw, node, fi):
    obj, name = args[0], args[1]
    try:
        return it.getattr(obj, name, node, fi)
    except SimRaise as e:
        if e.exc_name == "AttributeError" and len(args) > 2:
            return args[2]
        raise


def _i_setattr(it, args, kw, node, fi):
    obj, name, val = args
    if not isinstance(obj, Obj):
        raise it.err(f"setattr on {obj!r}", node, fi)
    obj.attrs[name] = val
    return None


def _i_dir(it, args, kw, node, fi):
    x = args[0]
    if isinstance(x, ClassRef):
        names = set()
        for c in it.model.mro(x.cls):
            names |= set(c.attrs) | set(c.methods)
        names |= {"__class__", "__dict__", "__doc__", "__module__"}
        return sorted(names)
    if isinstance(x, Obj):
        names = set(x.attrs)
        if x.cls is not None:
            for c in it.model.mro(x.cls):
                names |= set(c.attrs) | set(c.methods)
        return sorted(names)
    raise it.err(f"dir() of {x!r}", node, fi)


def _i_sorted(it, args, kw, node, fi):
    seq = it.iterate(args[0], node, fi)
    try:
        return sorted(seq)
    except TypeError:
        raise it.err("sorted() of incomparable values", node, fi)


def _sim_extreme(vals, pick):
    """min / max over rule-supplied values that carry a concrete ordering key (`sim_key`); like the builtins, the first of
    several equal extremes is returned."""
    keys = [v.sim_key() if hasattr(v, "sim_key") else (nf.frac(v) if is_num(v) else None) for v in vals]
    if any(k is None for k in keys) or not any(hasattr(v, "sim_key") for v in vals):
        return NotImplemented
    best = pick(keys)
    return vals[keys.index(best)]


def _i_min(it, args, kw, node, fi):
    vals = args if len(args) > 1 else it.iterate(args[0], node, fi)
    if all(is_num(v) for v in vals):
        return min(nf.frac(v) for v in vals)
    r = _sim_extreme(list(vals), min)
    if r is not NotImplemented:
        return r
    return nf.fn("min", *sorted(vals, key=lambda v: repr(Rat.lift(v).key())))


def _i_max(it, args, kw, node, fi):
    vals = args if len(args) > 1 else it.iterate(args[0], node, fi)
    if all(is_num(v) for v in vals):
        return max(nf.frac(v) for v in vals)
    r = _sim_extreme(list(vals), max)
    if r is not NotImplemented:
        return r
    return nf.fn("max", *sorted(vals, key=lambda v: repr(Rat.lift(v).key())))


def _i_sum(it, args, kw, node, fi):
    seq = it.iterate(args[0], node, fi)
    total = args[1] if len(args) > 1 else Fraction(0)
    for v in seq:
        total = it.binop(ast.Add(), total, v, node, fi)
    return total


def _i_zip(it, args, kw, node, fi):
    seqs = [it.iterate(a, node, fi) for a in args]
    return _Zip([tuple(t) for t in zip(*seqs)])


def _i_all(it, args, kw, node, fi):
    return all(it.truth_value(v, node, fi) for v in it.iterate(args[0], node, fi))


def _i_any(it, args, kw, node, fi):
    return any(it.truth_value(v, node, fi) for v in it.iterate(args[0], node, fi))


def _i_float(it, args, kw, node, fi):
    return args[0]


def _i_int(it, args, kw, node, fi):
    x = args[0]
    if is_num(x):
        return Fraction(int(nf.frac(x)))
    return x


def _i_tuple(it, args, kw, node, fi):
    return tuple(it.iterate(args[0], node, fi)) if args else ()


def _i_list(it, args, kw, node, fi):
    return list(it.iterate(args[0], node, fi)) if args else []


def _i_set(it, args, kw, node, fi):
    return {_hashable(x) for x in it.iterate(args[0], node, fi)} if args else set()


def _i_frozenset(it, args, kw, node, fi):
    return frozenset(_i_set(it, args, kw, node, fi))


def _i_dict(it, args, kw, node, fi):
    d = dict(kw)
    if args:
        d.update(args[0])
    return d


def _i_filter(it, args, kw, node, fi):
    f, seq = args
    return [x for x in it.iterate(seq, node, fi) if it.truth_value(it.call(f, [x], {}, node, fi), node, fi)]


def _i_enumerate(it, args, kw, node, fi):
    return _Zip([(Fraction(i), x) for i, x in enumerate(it.iterate(args[0], node, fi))])


def _i_reversed(it, args, kw, node, fi):
    return list(reversed(it.iterate(args[0], node, fi)))


def _i_round(it, args, kw, node, fi):
    if not all(is_num(a) for a in args):
        return nf.fn("round", *args)
    x = nf.frac(args[0])
    if len(args) > 1 and args[1] is not None:
        n = nf.frac(args[1])
        if n.denominator != 1:
            raise it.err("round(): ndigits is not an integer", node, fi)
        return Fraction(round(x, int(n)))
    return Fraction(round(x))


def _i_abs(it, args, kw, node, fi):
    x = args[0]
    if is_num(x):
        return abs(nf.frac(x))
    return nf.fn("abs", x)


def _i_repr(it, args, kw, node, fi):
    return "<repr>"


def _i_id(it, args, kw, node, fi):
    return nf.sym("<id()>", True)


def _i_hash(it, args, kw, node, fi):
    return nf.sym("<hash()>", True)


def _i_print(it, args, kw, node, fi):
    return None


_BUILTIN_INTRINSICS = {
    "range": _i_range, "len": _i_len, "isinstance": _i_isinstance, "hasattr": _i_hasattr, "getattr": _i_getattr,
    "setattr": _i_setattr, "dir": _i_dir, "sorted": _i_sorted, "min": _i_min, "max": _i_max, "sum": _i_sum,
    "zip": _i_zip, "all": _i_all, "any": _i_any, "float": _i_float, "int": _i_int, "tuple": _i_tuple,
    "list": _i_list, "dict": _i_dict, "set": _i_set, "frozenset": _i_frozenset, "filter": _i_filter, "enumerate": _i_enumerate, "reversed": _i_reversed,
    "round": _i_round, "abs": _i_abs, "repr": _i_repr, "print": _i_print, "str": _i_repr, "id": _i_id, "hash": _i_hash,
}


def _x_math_sqrt(it, args, kw, node, fi):
    return nf.sqrt_of(Rat.lift(args[0]))


def _const_float(x):
    if is_num(x):
        return float(nf.frac(x))
    if isinstance(x, Rat):
        c = x.const_value()
        if c is not None:
            return float(c)
    return None


def _x_math_log10(it, args, kw, node, fi):
    import math
    c = _const_float(args[0])
    if c is not None and c > 0:
        return nf.frac(math.log10(c))
    return nf.fn("log10", args[0])


def _x_math_log2(it, args, kw, node, fi):
    import math
    c = _const_float(args[0])
    if c is not None and c > 0:
        return nf.frac(math.log2(c))
    return nf.fn("log2", args[0])


def _x_math_ceil(it, args, kw, node, fi):
    import math
    c = _const_float(args[0])
    if c is not None:
        return Fraction(math.ceil(nf.frac(args[0]) if is_num(args[0]) else c))
    return nf.fn("ceil", args[0])


def _x_math_floor(it, args, kw, node, fi):
    import math
    c = _const_float(args[0])
    if c is not None:
        return Fraction(math.floor(nf.frac(args[0]) if is_num(args[0]) else c))
    return nf.fn("floor", args[0])


def _x_warn(it, args, kw, node, fi):
    return None


def _x_einsum(it, args, kw, node, fi):
    """torch.einsum: the batched outer product `...i,...j->...ij` is col(a) * row(b); any other contraction is an opaque
    function of (spec, operands) -- in particular one whose output drops the leading `...` (it sums over the batch)."""
    if not args or not isinstance(args[0], str):
        raise it.err("torch.einsum without a literal subscript string", node, fi)
    spec = args[0].replace(" ", "")
    ops = list(args[1:])
    if spec == "...i,...j->...ij" and len(ops) == 2:
        return nf.wrap_axis(Rat.lift(ops[0]), "col") * nf.wrap_axis(Rat.lift(ops[1]), "row")
    if spec in ("...ij,...j->...i", "bij,bj->bi") and len(ops) == 2:
        return nf.bilinear("mvp", Rat.lift(ops[0]), Rat.lift(ops[1]))
    return nf.fn(f"einsum[{spec}]", *[o for o in ops])


_EXTERNAL_INTRINSICS = {
    "torch.einsum": _x_einsum,
    "math.sqrt": _x_math_sqrt,
    "math.log10": _x_math_log10,
    "math.log2": _x_math_log2,
    "math.ceil": _x_math_ceil,
    "math.floor": _x_math_floor,
    "warnings.warn": _x_warn,
    # the scenarios of the rules run outside torch.inference_mode() unless a rule's hooks say otherwise
    "torch.is_inference_mode_enabled": lambda it, args, kw, node, fi: False,
}


# ---------------------------------------------------------------------------------------------- tensor / py methods
def _call_tensor_method(it, tm, args, kwargs, node, fi):
    r = it.hooks.tensor_method(it, tm.recv, tm.name, args, kwargs, node, fi)
    if r is not NotImplemented:
        return r
    x, name = tm.recv, tm.name
    if name == "sqrt":
        return nf.sqrt_of(Rat.lift(x))
    if name == "unsqueeze":
        k = int(args[0])
        if k == -1:
            return nf.wrap_axis(x, "col")
        if k == -2:
            return nf.wrap_axis(x, "row")
        if k == 0:
            return x
        return nf.linear(f"unsqueeze[{k}]", (), Rat.lift(x))
    if name == "transpose":
        dims = sorted(int(a) for a in args)
        if dims == [-2, -1]:
            return nf.transpose(x)
        return nf.linear(f"transpose[{dims[0]},{dims[1]}]", (), Rat.lift(x))
    if name in ("expand", "expand_as", "repeat", "reshape", "view", "flatten", "permute", "narrow", "select",
                "diagonal", "t", "mean", "cumsum", "flip", "roll", "index_select", "gather", "tril", "triu"):
        # shape / selection / averaging operations are linear maps: kept opaque but linear, keyed by their arguments
        key = ",".join(_index_text(a) if not isinstance(a, (Rat,)) else str(a) for a in args)
        key += "".join(f";{k}={v}" for k, v in sorted(kwargs.items()))
        return nf.linear(f"{name}[{key}]", (), Rat.lift(x))
    if name == "pow":
        return Rat.lift(x) ** nf.frac(args[0])
    if name == "square":
        return Rat.lift(x) * Rat.lift(x)
    if name in ("mul", "add", "sub", "div", "neg"):
        if name == "neg":
            return -Rat.lift(x)
        op = {"mul": ast.Mult(), "add": ast.Add(), "sub": ast.Sub(), "div": ast.Div()}[name]
        return it.binop(op, x, args[0], node, fi)
    if name in ("squeeze",):
        return x
    if name in ("detach", "clone", "contiguous", "cpu", "requires_grad_", "to", "float", "double"):
        return x
    if name == "sum":
        dim = args[0] if args else kwargs.get("dim")
        keep = kwargs.get("keepdim", False)
        return nf.linear(f"sum[dim={dim},keepdim={keep}]", (), x)
    if name == "new_zeros":
        return Fraction(0)
    if name == "pinverse":
        return nf.fn("pinv", x)
    if name == "abs":
        return nf.fn("abs", x)
    if name == "sign":
        return nf.fn("sign", x)
    if name == "item":
        return x
    if name in ("clamp", "clamp_min", "clamp_max", "clip", "relu", "floor", "ceil", "round", "trunc", "exp", "log", "tanh",
                "sin", "cos", "sigmoid", "softplus", "reciprocal", "rsqrt"):
        # non-linear element-wise maps: opaque functions of the receiver and their arguments (never the identity)
        extra = [a for a in args] + [kwargs[k] for k in sorted(kwargs)]
        keyed = [a if isinstance(a, (Rat, Fraction, int, float, str, type(None), bool)) else repr(a) for a in extra]
        return nf.fn(name, x, *keyed)
    raise it.err(f"tensor method `.{name}` has no modelled meaning", node, fi)


def _call_py_method(it, pm, args, kwargs, node, fi):
    x, name = pm.recv, pm.name
    if isinstance(x, list):
        if name == "append":
            x.append(args[0])
            return None
        if name == "extend":
            x.extend(it.iterate(args[0], node, fi))
            return None
        if name == "pop":
            return x.pop(*[int(a) for a in args])
        if name == "remove":
            x.remove(args[0])
            return None
        if name == "index":
            return Fraction(x.index(args[0]))
        if name == "copy":
            return list(x)
    if isinstance(x, dict):
        if name == "get":
            k = _hashable(args[0])
            return x.get(k, args[1] if len(args) > 1 else None)
        if name == "copy":
            return dict(x)
        if name == "keys":
            return list(x.keys())
        if name == "values":
            return list(x.values())
        if name == "items":
            return [tuple(kv) for kv in x.items()]
        if name == "update":
            x.update(args[0])
            return None
        if name == "setdefault":
            return x.setdefault(_hashable(args[0]), args[1] if len(args) > 1 else None)
        if name == "pop":
            return x.pop(_hashable(args[0]), *(args[1:]))
    if isinstance(x, tuple):
        if name == "index":
            return Fraction(x.index(args[0]))
    if isinstance(x, (set, frozenset)):
        if name in ("add", "discard", "remove") and isinstance(x, set):
            getattr(x, name)(_hashable(args[0]))
            return None
        if name == "update" and isinstance(x, set):
            for a in args:
                x.update(_hashable(i) for i in it.iterate(a, node, fi))
            return None
        if name == "copy":
            return type(x)(x)
        if name in ("union", "intersection", "difference", "issubset", "issuperset", "isdisjoint"):
            others = [{_hashable(i) for i in it.iterate(a, node, fi)} for a in args]
            return getattr(x, name)(*others)
    if isinstance(x, str):
        if name == "startswith":
            return x.startswith(args[0])
        if name == "endswith":
            return x.endswith(args[0])
        if name == "format":
            return "<fstring>"
        if name == "join":
            return "<fstring>"
        if name == "split":
            return x.split(*args)
    raise it.err(f"method `.{name}` of {type(x).__name__} has no modelled meaning", node, fi)


_orig_call = Interp.call


def _call_with_methods(self, callee, args, kwargs, node=None, fi=None):
    if isinstance(callee, _TensorMethod):
        return _call_tensor_method(self, callee, args, kwargs, node, fi)
    if isinstance(callee, _PyMethod):
        return _call_py_method(self, callee, args, kwargs, node, fi)
    return _orig_call(self, callee, args, kwargs, node, fi)


Interp.call = _call_with_methods
