"""tsverif: repository-specific static analysis for google-research/torchsde.

Every check parses the sources under ``<root>/torchsde`` with :mod:`ast`; the repository is never imported or
executed.  See /verif/DESIGN.md.
"""

__all__ = ["errors", "model", "astq", "report"]
