"""Per-property registry: what is claimed, with which technique; used to generate MANIFEST.json
(``python -m tsverif.gen_manifest``)."""

TRUSTED = ("Trusted base: CPython's ast parser; tsverif's own callee resolution (DESIGN 3.1; unresolved callees are an "
           "ANALYSIS-ERROR, never skipped); frozen instance/idiom tables in the rule modules, each confirmed by "
           "reading (DESIGN 9). The repository is never imported or executed by a check.")

CLAIMS = {
    "C01": dict(
        technique="ast formula canonicalisation (polynomial normal forms) + dispatch-table evaluation",
        text="Necessary structural conditions of convergence decided for every path through each solver step: each "
             "step consumes exactly the supplied path on its own [t0,t1]; first-order consistency (collapsed drift and "
             "diffusion weight 1) of all ten step bodies as a polynomial identity in opaque f, g; Roessler's order "
             "conditions for the tableaus actually imported; advertised strong_order <= literature order per "
             "(solver, noise type). The limit dt->0 itself is not decided. Derivative-free Milstein: finite difference at one time, and no O(h^1.5) bias per step (second-order weight of the difference quotient times E[v] vanishes). R02.6: for a generic scalar SDE the two local-error hypotheses of Milstein's fundamental theorem (mean-square local error O(h^(p+1/2)), mean local error O(h^(p+1))) hold at the advertised p for every (solver, noise type, option) scenario, by symbolic stochastic Taylor expansion of the step body."
             " Every step of a solve is the analysed step (hidden-state probe R13.4: a second step on the same solver object equals a first step); the solver is constructed with the caller's Brownian object itself (R01.6); emitting an output leaves the loop state alone (R12.4, state clauses only)."
             ' The fixed-step solve starts with the requested dt and reports [y0] first (R12.3); nothing is kept on the solver or the SDE wrapper between evaluations (R13.1).',
        note="Partial: necessary conditions in general; for scalar SDEs with smooth Lipschitz coefficients R02.6 establishes the hypotheses of the convergence theorem (the theorem itself is cited, not mechanised). All of this concerns grid states: an output time strictly inside a step is the linear interpolant C12 prescribes, whose error is of order sqrt(dt) whatever the solver (reproduced; DESIGN 10.9 observation (x)) -- no check decides or reports that. " + TRUSTED),
    "C02": dict(
        technique="ast formula canonicalisation against textbook formulas; exact rational tableau arithmetic",
        text="Euler and derivative-based Milstein steps equal their textbook formulas as polynomial identities in "
             "opaque F, G, GDG atoms (the property states this equality verbatim); Ito/Stratonovich v-term; weight-1 "
             "Stratonovich condition sum v_i c_i = 1/2 for every RK-type step and derivative-free Milstein; SRK "
             "scheme form and 25 SRI / 8 SRA order conditions in exact rationals. Milstein operator is one Jacobian-vector product per diffusion column (a transposed product only for diagonal noise); derivative-free Milstein carries no O(h^1.5) bias. R02.6: for a generic scalar SDE (d = m = 1, derivatives of f and g symbolic) every step is expanded in (h, dW, U) and agrees with the Ito / Stratonovich Taylor expansion, built from the operators L0, L1, identically up to weight p and in expectation at weight p + 1/2, p the advertised strong order (the property's own two clauses)."
             ' The expansion is matched by every step, not only the first one of a solver object (R13.4).'
             ' Nothing is kept on the solver or the SDE wrapper between evaluations (R13.1); the autograd helpers behind the derivative-based Milstein term refuse torch.inference_mode(), where they would return silent zeros (R16.10).',
        note="Partial: the Taylor comparison is decided for scalar SDEs; multi-dimensional non-commutative terms are covered only by the structural rules. " + TRUSTED),
    "C03": dict(
        technique="ast formula canonicalisation (Chen identities of the split and of the aggregation loop); small-model replay of the real tree by abstract interpretation (exact rational times, symbolic noise)",
        text="Polynomial identities extracted from the source: children of a split sum to the parent (W additivity, "
             "Chen for H) in both arms; the multi-piece aggregation updates of W, H, A are Chen's relation; update "
             "order (H and A use the loop-carried W); antisymmetry of A; H->U with the query length; zero-length arm "
             "returns fresh zeros; wrappers use an admissible (time map, output map) pair. Tree search cuts every query exactly (integer and near-coincident orderings); zero-length results have the shapes of ordinary ones; split identities also in dyadic mode."
             " Replay of the real tree (exact rational times, symbolic unit normals, nothing mocked): W additivity and Chen's relation for U over triples asked in any order after forward-backward, adaptive-looking and dyadic histories, for cache sizes 0..unbounded, dt hints, plain and dyadic trees; zero-length queries (R03.9). The zero-length shortcut is taken only when the resolved end points coincide, also for queries one tolerance cell long (R03.2 at tolerance scales). The same over the triples of seeded random histories (R03.13)."
             " Replay through the wrappers' own constructors: BrownianTree, BrownianPath, ReverseBrownian are additive, point / interval consistent, repeatable, and the reflection maps (W, U) as Chen's relation prescribes (R03.10); Davie / Foster areas returned after a history are antisymmetric and repeatable after refinement (R03.11)."
             ' With a tolerance, the increment returned for raw query times is that of the resolved end points, zero iff they coincide (R03.12, replay).',
        note="Partial: values after arbitrary histories rely on C05's structural rules; floating-point tolerance not "
             "decided. " + TRUSTED),
    "C04": dict(
        technique="ast formula canonicalisation with Gaussian bookkeeping (exact covariance of the split); small-model replay with exact covariances against the definition of Brownian motion",
        text="Exact covariance matrix of (W_L,H_L,W_R,H_R) computed from the extracted coefficients equals "
             "diag(l, l/12, r, r/12) identically in l, r; top-level scalings; seed separation of the noises; Davie / "
             "Foster conditional mean and residual variance equal the prescribed formulas; noise at full shape. Split covariance also in dyadic mode with a rounded midpoint; aggregated Levy area has regression slope 1; quantisation grid no coarser than tol; 64-bit seeds. The generator that consumes a node seed uses all 64 bits of it (torch's CPU generator keeps 32; modelling fact)."
             " Replay: the joint covariance of (W, U) over overlapping, nested and disjoint intervals after arbitrary histories equals, entry by entry in exact rationals, that of Brownian motion and its time integral computed from the definition (R04.10); the root's variance is the length of the node it covers, also with a tolerance (R04.2); a node's seeds are consumed by one split only (R05.2). The same over all distinct intervals of seeded random histories (R04.12)."
             ' With a user-supplied end-to-end W (and H) the whole interval returns it verbatim and every other answer has the conditional mean and covariance of the bridge, by Gaussian conditioning of the reference covariances (R04.11).',
        note="Partial: the joint law over arbitrary interval sets follows from the split law by the Levy construction "
             "argument, which is on paper. " + TRUSTED),
    "C05": dict(
        technique="effect analysis: write-once slots, leaf-only splitting, purity, seeded RNG, no aliasing mutation; small-model replay of query histories by abstract interpretation",
        text="For every path of the Brownian package: node slots are written only by construction/split; only leaves "
             "are split; value functions read only write-once slots, parameters and the memo cache; every RNG call is "
             "seeded from a slot; no in-place operation on a tensor that may alias the cache; cache keyed by node "
             "identity."
             ' Replay: every interval asked more than once in (history, probes, history backwards, probes) returns its first answer, for four histories x cache sizes x dt hints x tree modes (R05.8).'
             ' (W, U, A) with Davie / Foster areas is returned unchanged when asked again after the tree was refined underneath (R03.11).'
             ' The contents of history slots (search hint, query statistics, anything stored per query) do not flow into returned values except through the start-independent tree search (R05.9, taint). Seeded random query histories on the replayed tree: every repeated query returns its first answer (R05.10).',
        note="Assumes (read, not decided) that the interval decomposition does not depend on the search start. "
             + TRUSTED),
    "C06": dict(
        technique="explicit-flow taint (seed provenance, dyadic non-interference), quantisation typestate; small-model replay (two objects, two processes, dyadic order independence)",
        text="Seeds are functions of (entropy, tree position, pool size) only; in dyadic mode the requested point has "
             "no explicit flow into the split point; every stored/compared time is quantised; history-dependent "
             "refinement is disabled in dyadic mode; BrownianTree forwards entropy/tol/pool_size/halfway_tree. Seeds at the point of use are the same whichever sibling's noise is requested first (SeedSequence.spawn modelled as stateful)."
             ' Replay: equal (entropy, options, query sequence) give equal answers, also for an object built in a process where other Brownian objects were used; dyadic mode is independent of the history; another entropy changes the path (R06.10). No state shared between objects (R06.9).'
             " Through BrownianTree's own constructor the probes' values do not depend on the history (R06.11)."
             ' Raw queries are queries of their resolved end points (R03.12).',
        note="Partial: 'different entropies give different paths' is statistical and not decided. " + TRUSTED),
    "C07": dict(
        technique="call-graph acyclicity, must-write typestate, interval analysis, small-model path enumeration and replay",
        text="Bounded stack for every query history (acyclic stack-edge call graph with trampolined edges excluded), "
             "no AttributeError from split-only slots (typestate), strictly positive refinement bound (interval "
             "analysis), cache never above cache_size (path enumeration over a small model), sub-tolerance queries "
             "short-circuited on quantised times, default Brownian motion spans the horizon. Every split request is dominated by a strict order on quantised values (no zero-length child, no child equal to its parent). _LRUDict driven through its own methods on a small model (bounds 1..8, three insertion patterns); statistics-driven refinement of the dependency tree is bounded by the query history (never by the length of one query)."
             ' The dyadic descent terminates when the quantised midpoint of a node falls on one of its end points (adversarial quantiser, R07.8); every operation applied to the cache is provided by every cache class the constructor may install (R07.4 protocol).'
             ' Replay: every query of four histories returns normally and the cache never holds more than cache_size entries, cache sizes 0..45 and unbounded (R07.9).'
             ' Zero-length query histories never drive the refinement length to zero (R07.7).',
        note="Termination of the trampolined search loops is not decided in general. " + TRUSTED),
    "C08": dict(
        technique="gradient-flow taint over def-use chains; create_graph / no_grad discipline at autograd sites",
        text="No gradient-severing operation lies on a def-use path from step inputs to the returned state on the "
             "forward value path; every internal autograd call keeps the graph when grad is enabled; no_grad confined "
             "to step-size control."
             " The entry points make their solver calls in the caller's autograd mode (R09.8).",
        note="The numerical value of gradients is not decided. " + TRUSTED),
    "C09": dict(
        technique="sibling cross-check of sdeint / sdeint_adjoint; autograd.Function arity and index-set analysis",
        text="sdeint_adjoint builds the same solver with the same arguments and calls the same integrate; "
             "autograd.Function argument/None arity and saved-tensor layout agree; the backward sweep covers every "
             "output interval and injects every output cotangent exactly once with reflected times; default adjoint "
             "table total and valid. Backward sweep for all-nonzero and trailing-zero cotangents; Function.apply arguments bound by role (compared by value); differentiated forward values are computed with a graph. No SDE evaluation that reaches the adjoint Function as a tensor input is made outside it (one known finding: the initial extra state of reversible Heun)."
             " The entry points make their solver calls in the caller's autograd mode, whether or not y0 requires grad (R09.8)."
             ' A single output time: the backward pass makes no solve and returns grad_ys[0] (R09.9).',
        note="Partial: convergence of adjoint gradients as dt->0 is not decided. " + TRUSTED),
    "C10": dict(
        technique="ast formula canonicalisation: algebraic inverse and transpose of the reversible Heun step",
        text="AdjointReversibleHeun.step reconstructs the forward step exactly (polynomial identity in opaque f, g) "
             "and its cotangent updates are the transpose of the forward step's linear map; extras are saved for "
             "backward exactly for this method pair. The backward sweep starts at ts[-1] whenever extras were saved; no left-over step of rounding-error length (exact-rational model of the last steps); time axis in the state's dtype."
             ' Forward and backward solves query the Brownian motion on the same intervals as floating-point expressions of (ts, dt) (R10.7; known finding: the two grids are anchored at opposite ends, a non-dyadic dt gives 1e-8). R09.8 as for C09.',
        note="Partial: the 1e-9 figure is floating point and not decided. " + TRUSTED),
    "C11": dict(
        technique="call-site lint over all autograd / forward-SDE calls of AdjointSDE; dispatch-table totality",
        text="Every forward-SDE call passes -t; state blocks negated; VJP wiring (inputs, grad_outputs, allow_unused); "
             "create_graph=True exactly where a derivative is differentiated again; no graph leaks when grad is "
             "disabled; dispatch tables total over 2x4 with Ito non-additive cells selecting corrected drifts. misc.vjp / misc.jvp are evaluated from their own bodies on an autograd model; a forward value computed outside enable_grad may not be differentiated. With gradients enabled no returned block contains a detached factor (remains differentiable).",
        note="Partial: that the correction formulas are the mathematically right ones is not decided. " + TRUSTED),
    "C12": dict(
        technique="explicit-flow non-interference of output times; formula identity of the interpolant",
        text="Output times never flow into step arguments or the step size; next_t = min(curr_t + dt, ts[-1]); ys[0] "
             "is y0; linear_interp is the linear interpolant (polynomial identity) applied to the last two grid "
             "states; list ts normalised to y0's dtype/device. Implicit flows of the output time through branches; exact-rational model of the last steps (a genuine remainder stays a clipped step); float-exact reduction of the interpolation formula at its end points."
             ' A list ts is followed through every dtype conversion of the validation phase (R12.5, semantic); every path through the output stage is the linear interpolant and leaves the loop state alone (R12.4); a pass of the stepping loop advances the clock or raises (R12.9).'
             ' Replay of whole fixed-step solves with the real steps (solver_replay.py): outputs at grid times are the grid states, outputs inside a step their linear interpolants, whatever other output times are requested, clipped last step included (R12.10). The statement itself on seeded random output-time lists against the real driver with an uninterpreted chained step whose values name their history (R12.11); R12.10 checks the clock alone first (step recorder).',
        note="Bit-level equality is not decided. " + TRUSTED),
    "C13": dict(
        technique="effect analysis: no hidden state outside constructors; extra-state plumbing",
        text="No attribute/global store in any step, integrate, init_extra_solver_state or SDE-wrapper method other "
             "than __init__; integrate returns the carried extra; sdeint uses extra_solver_state verbatim. The value reported at a step end is the solver's state bit for bit (float-exact reduction); fixed-step arguments depend only on the restartable state. The reported outputs are the loop states themselves (list + stack, or an output tensor without a fixed dtype)."
             ' The end-of-call guard absorbs only a remainder of rounding-error size, also far from the origin (R13.7, last-steps model).'
             " Replay of whole solves with the real steps: [0, 3/8] in two and in three chunks restarted from the returned state and extra solver state gives the one-shot solve's canonical forms (R13.8). Seeded random chunkings at grid points against the real driver with an uninterpreted chained step (R13.9)."
             ' The supplied extra solver state reaches the solve unchanged for every (method, adjoint method) pair of sdeint_adjoint (R13.2).',
        note="Bit identity across chunks additionally needs C05 and float reasoning. " + TRUSTED),
    "C14": dict(
        technique="control-dependence + truth-table of the accept predicate; interval analysis of the controller",
        text="Accept is control-dependent on exactly 'err <= 1 or h <= dt_min' (truth table over 3x3 regions); error "
             "compares the full step with two chained half steps; accepted state is the two-half-step state; a "
             "rejected step strictly shrinks (factor in [0.2, 0.94)); clamp to dt_min; estimate bounded away from 0. The controller scales the length of the trial actually taken; trial intervals are never stretched beyond the controller's step (exact-rational models). The first trial is max(dt, dt_min) long; last-steps models also far from the origin of time."
             ' A pass whose trial step cannot advance the clock raises (R14.8); nothing of the controller is kept on the solver between integrate calls (R13.1). The statement clause by clause on traces of the real adaptive driver under seeded scripted controller schedules, with an uninterpreted chained step (R14.9).',
        note="Partial: 'tightening tolerances reduces the true error' is not decided. " + TRUSTED),
    "C15": dict(
        technique="ast formula canonicalisation: reverse step composed with forward step is the identity",
        text="Running ReversibleHeun.step on the negated, time-reflected SDE with ReverseBrownian's extracted time "
             "map and negated extras returns the forward inputs, as a polynomial identity in opaque f, g. The reversed solve walks the reflected grid: output times do not move step boundaries, no left-over rounding-size step, time axis in the state's dtype."
             ' The time quantiser is odd, q(-x) = -q(x) (R15.9); R10.7 as for C10 (known finding).'
             ' Replay: reversible Heun forward over two and three steps and back on the negated, time-reversed SDE with the real ReverseBrownian and the negated final extras returns to every forward state as a polynomial identity (R15.10).',
        note="Numerical stability of the reverse recursion is not decided. " + TRUSTED),
    "C16": dict(
        technique="finite-domain evaluation of the registration logic over all 32 method subsets",
        text="For each of the 32 subsets of {f,g,f_and_g,g_prod,f_and_g_prod}: every ForwardSDE slot resolves to a "
             "user primitive, a default whose canonical form equals the slot's meaning, or an explicit raise; rename "
             "tables agree position-wise."
             ' After renaming through check_contract every interface of the resulting SDE evaluates the drift and diffusion the name map designates, also when the class carries combined methods under default names (R16.9); derived operators keep nothing between calls (R13.1).'
             ' misc.vjp / misc.jvp refuse torch.inference_mode() instead of returning silent zeros (R16.10); the operators inside the steps, through the real ForwardSDE wrapper, agree between a special declaration and its general embedding (R17.1).',
        note="Partial: bit identity between variants and values of autograd-derived operators are not decided. "
             + TRUSTED),
    "C17": dict(
        technique="ast formula canonicalisation under both declarations with the embedding rewrite; index-level "
                  "evaluation of the two product implementations on small symbolic tensors; read-site lint",
        text="Structural part only: for every solver class accepting general noise and a special type, the step "
             "evaluated through ForwardSDE's own per-noise-type dispatch tables under the special declaration equals the "
             "step under the general declaration after the embedding rewrite (mat-vec with diag_embed(g) -> element-wise "
             "product; Levy-area term -> 0), as a polynomial identity; prod_diagonal(g, v) == prod_default(diag_embed(g), v) "
             "entry by entry on symbolic tensors; noise-type dependent attributes are never read on the solve path; the "
             "default Brownian shape is the same under both declarations."
             ' BaseSDESolver.integrate around the steps is the same function of the steps under every declaration (R17.5).'
             " The method the validation phase selects is the caller's or the documented default, whatever the Brownian motion supplied (R19.5).",
        note="Partial: decides these necessary conditions, not the floating-point equality of two runs (element-wise "
             "product vs batched mat-vec round differently); the vanishing of the general Levy-area term for "
             "commutative noise is the property's own premise. " + TRUSTED),
    "C18": dict(
        technique="ast formula canonicalisation of the four logqp integrands; sibling agreement; slicing lint",
        text="The integrand is 1/2 |g^+(f-h)|^2 in all four sibling implementations; f_and_g_X == (f_X, g_X); the "
             "extra channel has zero diffusion and base functions see only y[:, :-1]; differencing L[i+1]-L[i]."
             ' Off-grid outputs of the log-ratio channel are linear interpolants (R12.4); with adaptive steps the controller must not see the log-ratio channel (R18.7; known finding).'
             ' parse_return at the index level also for one and two output times (shape (len(ts) - 1, batch) for every len(ts) >= 1).'
             ' The solver constructed with logqp=True has the settings of the solver constructed without, also for output times closer than dt (R18.8).',
        note="Partial: non-negativity as a number and solver accuracy are not decided. " + TRUSTED),
    "C19": dict(
        technique="finite-domain evaluation of dispatch + constructor guards; error-type and dominance lint",
        text="Accepted (sde_type, noise_type, method, Levy) set computed from class attributes and the dispatch chain "
             "equals the documented matrix; every pre-integration raise is ValueError; validation dominates "
             "integrate; each malformed-argument class has a guard; defaults total and accepted; adjoint refusal.",
        note=TRUSTED),
    "C20": dict(
        technique="shape/axis lint: noise at full sample shape; no batch-axis reduction on the value path",
        text="Noise is drawn at the full sample shape; no reduction without dim or over dim 0, and no batch-collapsing "
             "broadcast, on the fixed-step value path."
             ' R20.3 also with a single state channel.'
             ' The operators ForwardSDE derives, from their own bodies on index-level tensors with autograd modelled by its dependency structure: output row b depends on input row b, sizes including a single state / noise channel (R20.4).',
        note="Partial: user SDEs that mix rows are excluded by the property. " + TRUSTED),
}

NOT_APPLICABLE = {}

NOT_BUILT_REASON = ("static check designed (DESIGN.md section 4) but not built yet in this tree; not claimed until "
                    "its rule module exists and is silent on the unchanged tree")
