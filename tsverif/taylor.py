"""E8b -- stochastic Taylor comparison for a generic scalar SDE (state dimension 1, one Brownian channel).

The canonical form of a solver step (nf.Rat over opaque atoms F[t, y], G[t, y], W[t0, t1], U[t0, t1], prod, GDG ...)
is expanded into a *weighted truncated series* in the step length h (weight 1), the increment W (weight 1/2), the
space-time integral U = int (W_s - W_t0) ds (weight 3/2) and sqrt(h) (weight 1/2); the coefficients are polynomials
over Q in the partial derivatives of f and g at the base point (one scalar atom per derivative, `F_t1y2` = d_t d_y^2
f(t0, y0)).  The expansion of `F[T, Y]` is the bivariate Taylor series in (T - t0, Y - y0), which must start at weight
>= 1 resp. >= 1/2.  Nothing is evaluated numerically and there is no search: one bottom-up pass over the expression.

The reference is the Ito (resp. Stratonovich) Taylor expansion built from its definition: coefficient functions
f_alpha = L^{j1} ... L^{j(l-1)} b_{jl} with L^0 = d_t + f d_y (+ 1/2 g^2 d_yy for Ito), L^1 = g d_y, applied by symbolic
differentiation (product rule on the derivative atoms), times the multiple integrals I_alpha written as polynomials in
(W, U, h) where they are such polynomials (all of weight <= 3/2) or their expectations (weight 2).

`local_error_conditions` decides the two hypotheses of Milstein's fundamental theorem for strong order p:
  (MS)  every term of weight <= p of (step - Taylor) vanishes identically          (mean-square local error O(h^(p+1/2)))
  (E)   the expectation of every term of weight <= p + 1/2 vanishes                (mean local error O(h^(p+1)))
"""
from fractions import Fraction
from math import factorial

from . import nf
from .errors import AnalysisError
from .nf import Poly, Rat

H = ("s", "h")
W = ("s", "W")
U = ("s", "U")
SQ = ("s", "sqrt_h")
T0 = ("s", "t0")
Y0 = ("s", "y0")
HALF = Fraction(1, 2)
WEIGHT = {H: Fraction(1), W: HALF, U: Fraction(3, 2), SQ: HALF}


def datom(name, i, j):
    return ("s", f"{name}_t{i}y{j}")


def _parse_datom(a):
    if a[0] != "s" or "_t" not in a[1]:
        return None
    name, _, rest = a[1].rpartition("_t")
    if "y" not in rest:
        return None
    i, _, j = rest.partition("y")
    if not (i.isdigit() and j.isdigit()):
        return None
    return name, int(i), int(j)


def mono_weight(m):
    w = Fraction(0)
    for a, e in m:
        w += WEIGHT.get(a, 0) * e
    return w


def normalise(p):
    """sqrt_h^k -> h^(k // 2) * sqrt_h^(k % 2)."""
    out = {}
    for m, c in p.terms.items():
        d = dict(m)
        k = d.pop(SQ, 0)
        if k not in (0, 1):
            q, r = divmod(k, 2)
            d[H] = d.get(H, 0) + q
            if r:
                d[SQ] = 1
        elif k == 1:
            d[SQ] = 1
        mm = tuple(sorted(((a, e) for a, e in d.items() if e != 0), key=lambda ae: repr(ae[0])))
        out[mm] = out.get(mm, 0) + c
    return Poly(out)


def truncate(p, K):
    return Poly({m: c for m, c in p.terms.items() if mono_weight(m) <= K})


def tmul(p, q, K):
    """Truncated product; both factors must have no term of negative weight."""
    d = {}
    wq = [(m, c, mono_weight(m)) for m, c in q.terms.items()]
    for m1, c1 in p.terms.items():
        w1 = mono_weight(m1)
        if w1 > K:
            continue
        for m2, c2, w2 in wq:
            if w1 + w2 > K:
                continue
            m = nf._mono_mul(m1, m2)
            d[m] = d.get(m, 0) + c1 * c2
    if len(d) > 200000:
        raise AnalysisError("series blow-up in the stochastic Taylor expansion")
    return Poly(d)


def tpow(p, k, K):
    r = Poly.const(1)
    for _ in range(k):
        r = tmul(r, p, K)
    return r


def min_weight(p):
    return min((mono_weight(m) for m in p.terms), default=None)


class Expander:
    """Expansion of canonical forms of one solver step of a scalar SDE about (t0, y0)."""

    def __init__(self, additive=False, t0=None, h=None, y0=None, aliases=None):
        self.additive = additive
        self.t0_key = Rat.lift(t0).key()
        self.t1_key = (Rat.lift(t0) + Rat.lift(h)).key()
        self.h_atom = _single_atom(h)
        self.t0_atom = _single_atom(t0)
        self.y0_atom = _single_atom(y0)
        self.aliases = set(aliases or ())        # tensor / scalar symbols that stand for y0 (reversible Heun's z0)
        self.memo = {}
        self.n_fn = 0

    # ------------------------------------------------------------------------------------------ values
    def expand(self, x, K):
        x = nf.reduce_sqrt(Rat.lift(x))
        if not x.den.is_const():
            if x.den.is_monomial():
                x = Rat(x.num * x.den.pow(-1))
            else:
                raise AnalysisError(f"denominator `{x.den}` is not a monomial: outside the Taylor fragment")
        dc = x.den.const_value()
        total = Poly()
        for m, c in x.num.terms.items():
            lau = Poly.const(c / dc)
            neg = Fraction(0)
            for a, e in m:
                if e < 0:
                    s = self.atom(a, Fraction(2))
                    if not s.is_monomial() or min_weight(s) is None:
                        raise AnalysisError(f"division by `{nf.show_atom(a)}`, which is not a power of the step length")
                    lau = lau * s.pow(e)
                    neg += -e * min_weight(s)
            pos = Poly.const(1)
            for a, e in m:
                if e > 0:
                    pos = tmul(pos, tpow(self.atom(a, K + neg), e, K + neg), K + neg)
            total = total + truncate(normalise(pos * lau), K)
        total = normalise(total)
        if any(mono_weight(m) < 0 for m in total.terms):
            raise AnalysisError("term of negative weight (a division by the step length that nothing cancels)")
        return total

    def atom(self, a, K):
        key = (a, K)
        if key not in self.memo:
            self.memo[key] = self._atom(a, K)
        return self.memo[key]

    def _atom(self, a, K):
        tag = a[0]
        if a == self.h_atom:
            return Poly.atom(H)
        if a == self.t0_atom:
            return Poly.atom(T0)
        if a == self.y0_atom or a in self.aliases:
            return Poly.atom(Y0)
        if tag in ("col", "row", "T"):
            return self.atom(a[1], K)
        if tag == "s" or tag == "t":
            return Poly.atom(("s", a[1]))          # any other symbol: an unknown of weight 0 (e.g. the nominal self.dt)
        if tag == "sqrt":
            rad = self.expand(nf._SQRT_RADICANDS[a], Fraction(4))
            if rad.is_monomial():
                (m, c), = rad.terms.items()
                d = dict(m)
                if set(d) <= {H} and c > 0:
                    import math
                    n, dd = c.numerator, c.denominator
                    rn, rd = math.isqrt(n), math.isqrt(dd)
                    if rn * rn == n and rd * rd == dd:
                        return normalise(Poly({((SQ, d.get(H, 0)),): Fraction(rn, rd)}) if d.get(H, 0) else Poly.const(Fraction(rn, rd)))
            raise AnalysisError(f"square root of `{rad}`: only sqrt(c^2 h^k) is in the Taylor fragment")
        if tag == "fn":
            name = a[1]
            if name in ("W", "U", "A"):
                if tuple(a[2:4]) != (self.t0_key, self.t1_key):
                    raise AnalysisError(f"Brownian query {nf.show_atom(a)} is not over the step's own interval")
                if name == "A":
                    return Poly()                # the Levy area of a single channel is zero (antisymmetric 1 x 1)
                return Poly.atom(W if name == "W" else U)
            if len(a) == 4 and all(isinstance(k, tuple) and k and k[0] == "rat" for k in a[2:]):
                return self.field(name, a[2], a[3], 0, K)
            raise AnalysisError(f"opaque function {nf.show_atom(a)} is outside the Taylor fragment")
        if tag == "bil":
            if a[1] not in ("prod", "mvp"):
                raise AnalysisError(f"bilinear atom {a[1]} is outside the Taylor fragment")
            return tmul(self.expand(nf.key_to_rat(a[2]), K), self.expand(nf.key_to_rat(a[3]), K), K)
        if tag == "lin":
            name, fixed, vkey = a[1], a[2], a[3]
            v = self.expand(nf.key_to_rat(vkey), K)
            if name in ("GDG", "DGGA"):
                # scalar SDE: (g dg)(v) = g g_y v; the Levy-area Jacobian term dg_ga(a) = g_y g a (a is zero here)
                if len(fixed) != 2:
                    raise AnalysisError(f"{name} atom without its evaluation point")
                g = self.field("G", fixed[0], fixed[1], 0, K)
                gy = self.field("G", fixed[0], fixed[1], 1, K)
                return tmul(tmul(g, gy, K), v, K)
            raise AnalysisError(f"linear atom {name} is outside the Taylor fragment")
        raise AnalysisError(f"atom {nf.show_atom(a)} is outside the Taylor fragment")

    def field(self, name, tkey, ykey, dy, K):
        """Series of d_y^dy name(T, Y) about (t0, y0)."""
        key = ("field", name, tkey, ykey, dy, K)
        if key in self.memo:
            return self.memo[key]
        self.n_fn += 1
        T = self.expand(nf.key_to_rat(tkey), K)
        Y = self.expand(nf.key_to_rat(ykey), K)
        dT = T - Poly.atom(T0)
        dY = Y - Poly.atom(Y0)
        wt, wy = min_weight(dT), min_weight(dY)
        if wt is not None and wt < 1:
            raise AnalysisError(f"{name} is evaluated at time `{T}`, which is not within O(h) of t0")
        if wy is not None and wy < HALF:
            raise AnalysisError(f"{name} is evaluated at state `{Y}`, which is not within O(sqrt h) of y0")
        out = Poly()
        powT = Poly.const(1)
        i = 0
        while True:
            if i > 0:
                if wt is None:
                    break
                powT = tmul(powT, dT, K)
                if powT.is_zero():
                    break
            powY = Poly.const(1)
            j = 0
            while True:
                if j > 0:
                    if wy is None:
                        break
                    powY = tmul(powY, dY, K)
                    if powY.is_zero():
                        break
                term = tmul(powT, powY, K)
                if term.is_zero():
                    break
                if not (self.additive and name == "G" and j + dy > 0):
                    c = Fraction(1, factorial(i) * factorial(j))
                    out = out + tmul(Poly.atom(datom(name, i, j + dy)), term, K).scale(c)
                j += 1
            i += 1
        self.memo[key] = out
        return out


def _single_atom(x):
    x = Rat.lift(x)
    if x.is_poly() and x.num.is_monomial():
        (m, c), = x.num.terms.items()
        if c == 1 and len(m) == 1 and m[0][1] == 1:
            return m[0][0]
    raise AnalysisError(f"`{x}` is not a plain symbol")


# ------------------------------------------------------------------------------------------------ reference
def d_poly(p, var):
    """Partial derivative (var in 't', 'y') of a polynomial in derivative atoms by the product rule."""
    out = Poly()
    for m, c in p.terms.items():
        for k, (a, e) in enumerate(m):
            pa = _parse_datom(a)
            if pa is None:
                raise AnalysisError(f"cannot differentiate atom {nf.show_atom(a)}")
            name, i, j = pa
            da = datom(name, i + 1, j) if var == "t" else datom(name, i, j + 1)
            rest = m[:k] + (((a, e - 1),) if e > 1 else ()) + m[k + 1:]
            out = out + Poly({rest: c * e}) * Poly.atom(da)
    return out


def _kill_additive(p):
    out = {}
    for m, c in p.terms.items():
        dead = False
        for a, _ in m:
            pa = _parse_datom(a)
            if pa and pa[0] == "G" and pa[2] > 0:
                dead = True
        if not dead:
            out[m] = c
    return Poly(out)


class Reference:
    def __init__(self, ito, additive=False):
        self.ito, self.additive = ito, additive
        self.f = Poly.atom(datom("F", 0, 0))
        self.g = Poly.atom(datom("G", 0, 0))

    def L(self, j, phi):
        if j == 1:
            return self.g * d_poly(phi, "y")
        out = d_poly(phi, "t") + self.f * d_poly(phi, "y")
        if self.ito:
            out = out + (self.g * self.g * d_poly(d_poly(phi, "y"), "y")).scale(HALF)
        return out

    def coefficient(self, alpha):
        b = self.f if alpha[-1] == 0 else self.g
        for j in reversed(alpha[:-1]):
            b = self.L(j, b)
        return _kill_additive(b) if self.additive else b

    def integral(self, alpha):
        """I_alpha (Ito) / J_alpha (Stratonovich) as a polynomial in (W, U, h); None if it is not one."""
        h, w, u = Poly.atom(H), Poly.atom(W), Poly.atom(U)
        tbl = {
            (0,): h, (1,): w, (0, 0): (h * h).scale(HALF), (1, 0): u, (0, 1): h * w - u,
            (1, 1): (w * w - h).scale(HALF) if self.ito else (w * w).scale(HALF),
            (1, 1, 1): (w * w * w - (h * w).scale(3)).scale(Fraction(1, 6)) if self.ito else (w * w * w).scale(Fraction(1, 6)),
        }
        return tbl.get(tuple(alpha))

    def expectation_weight2(self, alpha):
        """E of the weight-2 multiple integrals (as a multiple of h^2)."""
        alpha = tuple(alpha)
        if self.ito:
            return Fraction(1, 2) if alpha == (0, 0) else Fraction(0)
        return {(0, 0): Fraction(1, 2), (1, 1, 0): Fraction(1, 4), (0, 1, 1): Fraction(1, 4), (1, 0, 1): Fraction(0),
                (1, 1, 1, 1): Fraction(1, 8)}[alpha]

    @staticmethod
    def indices(weight):
        """All multi-indices over {0, 1} of the given weight (#zeros + #ones / 2)."""
        out = []

        def rec(prefix, w):
            if w == 0:
                if prefix:
                    out.append(tuple(prefix))
                return
            if w >= 1:
                rec(prefix + [0], w - 1)
            if w >= HALF:
                rec(prefix + [1], w - HALF)
        rec([], Fraction(weight))
        return out

    def series(self, K):
        """y0 + sum over alpha of weight <= K (K <= 3/2) of f_alpha I_alpha."""
        if K > Fraction(3, 2):
            raise AnalysisError("path-wise reference only up to weight 3/2")
        out = Poly.atom(Y0)
        w = HALF
        while w <= K:
            for alpha in self.indices(w):
                out = out + self.coefficient(alpha) * self.integral(alpha)
            w += HALF
        return out

    def mean_at(self, weight):
        """Expectation of the weight-`weight` part of the expansion."""
        weight = Fraction(weight)
        if weight <= Fraction(3, 2):
            part = Poly()
            for alpha in self.indices(weight):
                part = part + self.coefficient(alpha) * self.integral(alpha)
            return expectation(part)
        if weight == 2:
            out = Poly()
            for alpha in self.indices(weight):
                e = self.expectation_weight2(alpha)
                if e:
                    out = out + (self.coefficient(alpha) * Poly.atom(H, 2)).scale(e)
            return out
        raise AnalysisError("no reference expectation beyond weight 2")


# ------------------------------------------------------------------------------------------------ moments
_MOM = {}


def moment(a, b):
    """E[W^a U^b] for (W, U) ~ N(0, [[h, h^2/2], [h^2/2, h^3/3]]), by Isserlis' recursion; a Poly in h."""
    if (a, b) in _MOM:
        return _MOM[(a, b)]
    if a == 0 and b == 0:
        r = Poly.const(1)
    elif (a + b) % 2:
        r = Poly()
    elif a > 0:
        r = Poly()
        if a >= 2:
            r = r + (Poly.atom(H) * moment(a - 2, b)).scale(a - 1)
        if b >= 1:
            r = r + (Poly.atom(H, 2) * moment(a - 1, b - 1)).scale(Fraction(b, 2))
    else:
        r = (Poly.atom(H, 3) * moment(0, b - 2)).scale(Fraction(b - 1, 3))
    _MOM[(a, b)] = r
    return r


def expectation(p):
    out = Poly()
    for m, c in p.terms.items():
        d = dict(m)
        a, b = d.pop(W, 0), d.pop(U, 0)
        if a < 0 or b < 0:
            raise AnalysisError("negative power of a Brownian quantity")
        rest = tuple(sorted(d.items(), key=lambda ae: repr(ae[0])))
        out = out + Poly({rest: c}) * moment(a, b)
    return normalise(out)


def part_of_weight(p, w):
    return Poly({m: c for m, c in p.terms.items() if mono_weight(m) == w})


def local_error_conditions(step_series, ito, additive, p):
    """[(kind, weight, residual Poly)] for every failed hypothesis of the fundamental theorem at strong order p.
    `step_series` must be exact up to weight p + 1/2."""
    p = Fraction(p)
    if p * 2 != int(p * 2) or p < HALF:
        raise AnalysisError(f"advertised strong order {p} is not a positive multiple of 1/2")
    if p + HALF > 2:
        raise AnalysisError(f"no reference expansion for strong order {p} (needs weight {p + HALF})")
    ref = Reference(ito, additive)
    failures = []
    ms_top = min(p, Fraction(3, 2))
    diff = normalise(truncate(step_series, ms_top) - ref.series(ms_top))
    w = Fraction(0)
    while w <= ms_top:
        r = part_of_weight(diff, w)
        if not r.is_zero():
            failures.append(("mean-square", w, r))
        w += HALF
    w = p + HALF
    r = normalise(expectation(part_of_weight(step_series, w)) - ref.mean_at(w))
    if not r.is_zero():
        failures.append(("mean", w, r))
    return failures


def show(p):
    return nf.show_poly(p)
