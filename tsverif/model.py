"""E1 -- repository model: modules, imports, classes (with in-repo MRO), functions, and callee resolution.

Pure ``ast``.  Nothing under the analysed root is imported or executed.
"""
import ast
import hashlib
import os

from .errors import AnalysisError

PKG = "torchsde"


_LOG_METHODS = {"debug", "info", "warning", "warn", "error", "exception", "critical", "log"}


class _Normaliser(ast.NodeTransformer):
    """Syntax that has no bearing on any property is normalised away when a module is loaded, so that every rule sees
    one form: an annotated assignment with a value is a plain assignment (a bare annotation is dropped), and logging /
    print statements are `pass`.  Line numbers are kept."""

    def __init__(self, loggers):
        self.loggers = loggers

    def visit_AnnAssign(self, node):
        self.generic_visit(node)
        if node.value is None:
            return ast.copy_location(ast.Pass(), node)
        return ast.copy_location(ast.Assign(targets=[node.target], value=node.value), node)

    def visit_Expr(self, node):
        v = node.value
        if isinstance(v, ast.Call):
            f = v.func
            if isinstance(f, ast.Name) and f.id == "print":
                return ast.copy_location(ast.Pass(), node)
            if isinstance(f, ast.Attribute) and f.attr in _LOG_METHODS:
                recv = f.value
                root = recv
                while isinstance(root, (ast.Attribute, ast.Call)):
                    root = root.func if isinstance(root, ast.Call) else root.value
                if isinstance(root, ast.Name) and (root.id == "logging" or root.id in self.loggers):
                    return ast.copy_location(ast.Pass(), node)
        return self.generic_visit(node)


def _inline_site(stmt, name):
    """The single Load of `name` inside the simple statement `stmt` if a temporary holding an arbitrary expression may be
    substituted there without changing the order of calls: the load is not under a conditional / deferred construct and
    no call that is not one of its ancestors precedes it textually.  Returns (parent, field, index) or None."""
    if isinstance(stmt, (ast.Assign, ast.Return, ast.Expr, ast.AugAssign)):
        root = stmt.value
    elif isinstance(stmt, ast.If):
        root = stmt.test
    else:
        return None
    if root is None:
        return None
    found = []

    def walk(node, parent, field, idx, ancestors):
        if isinstance(node, (ast.Lambda, ast.ListComp, ast.SetComp, ast.DictComp, ast.GeneratorExp, ast.IfExp, ast.BoolOp,
                             ast.NamedExpr, ast.Yield, ast.YieldFrom, ast.Await)):
            if any(isinstance(n, ast.Name) and n.id == name for n in ast.walk(node)):
                found.append(None)
            return
        if isinstance(node, ast.Name) and node.id == name:
            found.append((parent, field, idx, list(ancestors)) if isinstance(node.ctx, ast.Load) else None)
            return
        for f, val in ast.iter_fields(node):
            if isinstance(val, list):
                for i, c in enumerate(val):
                    if isinstance(c, ast.AST):
                        walk(c, node, f, i, ancestors + [node])
            elif isinstance(val, ast.AST):
                walk(val, node, f, None, ancestors + [node])
    walk(root, stmt, "value" if not isinstance(stmt, ast.If) else "test", None, [])
    if len(found) != 1 or found[0] is None:
        return None
    parent, field, idx, ancestors = found[0]
    node = getattr(parent, field) if idx is None else getattr(parent, field)[idx]
    pos = (node.lineno, node.col_offset)
    for c in ast.walk(root):
        if isinstance(c, ast.Call) and c not in ancestors and (c.lineno, c.col_offset) < pos:
            return None
    if isinstance(stmt, ast.Assign):
        for t in stmt.targets:
            if any(isinstance(c, ast.Call) for c in ast.walk(t)):
                return None
    return parent, field, idx


def _fold_blocks(fn_node):
    """Inside one function, two forms that mean the same are reduced to one, so that rules reading an expression see it
    whole: a temporary that is assigned once and read once, by the very next statement (`x = E; return x`,
    `tmp = b * c; y = a + tmp`), is substituted into that statement; and `if c: x = A else: x = B` becomes
    `x = A if c else B`."""
    stores, loads = {}, {}
    for n in ast.walk(fn_node):
        if isinstance(n, ast.Name):
            d = loads if isinstance(n.ctx, ast.Load) else stores
            d[n.id] = d.get(n.id, 0) + 1
    params = {a.arg for a in fn_node.args.posonlyargs + fn_node.args.args + fn_node.args.kwonlyargs}
    declared = {nm for n in ast.walk(fn_node) if isinstance(n, (ast.Global, ast.Nonlocal)) for nm in n.names}

    def fold(stmts):
        out = []
        for st in stmts:
            for field in ("body", "orelse", "finalbody"):
                val = getattr(st, field, None)
                if isinstance(val, list) and val and isinstance(val[0], ast.stmt) and \
                        not isinstance(st, (ast.FunctionDef, ast.AsyncFunctionDef, ast.ClassDef)):
                    setattr(st, field, fold(val))
            if isinstance(st, ast.Try):
                for hnd in st.handlers:
                    hnd.body = fold(hnd.body)
            if isinstance(st, ast.If) and len(st.body) == 1 and len(st.orelse) == 1 and \
                    all(isinstance(b, ast.Assign) and len(b.targets) == 1 and isinstance(b.targets[0], ast.Name)
                        for b in (st.body[0], st.orelse[0])) and st.body[0].targets[0].id == st.orelse[0].targets[0].id:
                st = ast.copy_location(ast.Assign(
                    targets=[st.body[0].targets[0]],
                    value=ast.copy_location(ast.IfExp(test=st.test, body=st.body[0].value, orelse=st.orelse[0].value), st)), st)
            while out and isinstance(out[-1], ast.Assign) and len(out[-1].targets) == 1 \
                    and isinstance(out[-1].targets[0], ast.Name):
                tmp = out[-1].targets[0].id
                if stores.get(tmp, 0) != 1 or loads.get(tmp, 0) != 1 or tmp in params or tmp in declared \
                        or any(isinstance(n, (ast.Yield, ast.YieldFrom, ast.Await)) for n in ast.walk(out[-1].value)):
                    break
                site = _inline_site(st, tmp)
                if site is None:
                    break
                parent, field, idx = site
                prev = out.pop()
                if idx is None:
                    setattr(parent, field, prev.value)
                else:
                    getattr(parent, field)[idx] = prev.value
                if isinstance(st, ast.Return):
                    st = ast.copy_location(ast.Return(value=st.value), prev)
            out.append(st)
        return out
    fn_node.body = fold(fn_node.body)


def _normalise(tree):
    loggers = set()
    for st in tree.body:
        tgt, val = None, None
        if isinstance(st, ast.Assign) and len(st.targets) == 1 and isinstance(st.targets[0], ast.Name):
            tgt, val = st.targets[0].id, st.value
        elif isinstance(st, ast.AnnAssign) and isinstance(st.target, ast.Name) and st.value is not None:
            tgt, val = st.target.id, st.value
        if tgt and isinstance(val, ast.Call) and ast.unparse(val.func) in ("logging.getLogger", "getLogger"):
            loggers.add(tgt)
    tree = _Normaliser(loggers).visit(tree)
    for n in ast.walk(tree):
        if isinstance(n, (ast.FunctionDef, ast.AsyncFunctionDef)):
            _fold_blocks(n)
    ast.fix_missing_locations(tree)
    return tree


class ModuleInfo:
    def __init__(self, name, path, relpath, src, is_package):
        self.name = name
        self.path = path
        self.relpath = relpath
        self.src = src
        self.is_package = is_package
        self.tree = _normalise(ast.parse(src, filename=path))
        self.lines = src.splitlines()
        self.imports = {}      # alias -> ('module', modname) | ('symbol', modname, name) | ('external', dotted)
        self.classes = {}      # name -> ClassInfo
        self.functions = {}    # name -> FuncInfo (module level)
        self.assigns = {}      # name -> ast expr (module level simple assignments, last one wins)
        self.digest = hashlib.sha256(src.encode()).hexdigest()

    @property
    def package(self):
        return self.name if self.is_package else self.name.rpartition(".")[0]

    def __repr__(self):
        return f"<module {self.name}>"


class ClassInfo:
    def __init__(self, module, node):
        self.module = module
        self.node = node
        self.name = node.name
        self.methods = {}      # name -> FuncInfo
        self.attrs = {}        # class-level assignments: name -> ast expr
        self.bases = []        # resolved: ClassInfo or ('external', dotted)
        self.metaclass = None  # ClassInfo if an in-repo metaclass is declared
        self.slots = None      # tuple of names if __slots__ is a literal tuple

    @property
    def key(self):
        return f"{self.module.relpath}::{self.name}"

    def __repr__(self):
        return f"<class {self.key}>"


class FuncInfo:
    def __init__(self, module, node, cls=None, parent=None, name=None):
        self.module = module
        self.node = node
        self.cls = cls
        self.parent = parent
        self.name = name or getattr(node, "name", "<lambda>")
        self.nested = {}
        if parent is not None:
            self.qualname = f"{parent.qualname}.<locals>.{self.name}"
        elif cls is not None:
            self.qualname = f"{cls.name}.{self.name}"
        else:
            self.qualname = self.name
        self._is_gen = None
        self.decorators = [ast.unparse(d) for d in getattr(node, "decorator_list", [])]

    @property
    def key(self):
        return f"{self.module.relpath}::{self.qualname}"

    @property
    def lineno(self):
        return self.node.lineno

    @property
    def params(self):
        a = self.node.args
        return [x.arg for x in a.posonlyargs + a.args]

    @property
    def is_property(self):
        return any(d == "property" or d.endswith(".setter") for d in self.decorators)

    @property
    def is_static(self):
        return "staticmethod" in self.decorators

    @property
    def is_generator(self):
        if self._is_gen is None:
            self._is_gen = any(isinstance(n, (ast.Yield, ast.YieldFrom)) for n in own_nodes(self.node))
        return self._is_gen

    def __repr__(self):
        return f"<func {self.key}>"


def own_nodes(fn_node):
    """All AST nodes of a function body, not descending into nested defs / lambdas / classes."""
    body = fn_node.body if isinstance(fn_node.body, list) else [fn_node.body]
    stack = list(reversed(body))
    while stack:
        n = stack.pop()
        yield n
        if isinstance(n, (ast.FunctionDef, ast.AsyncFunctionDef, ast.ClassDef)):
            continue
        for c in reversed(list(ast.iter_child_nodes(n))):
            if isinstance(c, (ast.FunctionDef, ast.AsyncFunctionDef, ast.ClassDef)):
                # the def statement itself belongs to the enclosing function, its body does not
                yield c
                continue
            if (isinstance(c, ast.Lambda) and isinstance(n, ast.Assign) and n.value is c and len(n.targets) == 1
                    and isinstance(n.targets[0], (ast.Name, ast.Attribute))):
                # a lambda bound to a name/attribute is a function of its own (registered by RepoModel);
                # anonymous lambdas (arguments of filter/map/...) are analysed as part of the enclosing function
                continue
            stack.append(c)


class RepoModel:
    def __init__(self, root="/repo"):
        self.root = os.path.abspath(root)
        self.modules = {}
        pkgdir = os.path.join(self.root, PKG)
        if not os.path.isdir(pkgdir):
            raise AnalysisError(f"package directory {pkgdir} not found")
        for dirpath, dirnames, filenames in os.walk(pkgdir):
            dirnames[:] = sorted(d for d in dirnames if d != "__pycache__")
            for fn in sorted(filenames):
                if not fn.endswith(".py"):
                    continue
                path = os.path.join(dirpath, fn)
                rel = os.path.relpath(path, self.root)
                parts = rel[:-3].split(os.sep)
                is_pkg = parts[-1] == "__init__"
                if is_pkg:
                    parts = parts[:-1]
                name = ".".join(parts)
                with open(path, encoding="utf-8") as fh:
                    src = fh.read()
                try:
                    self.modules[name] = ModuleInfo(name, path, rel, src, is_pkg)
                except SyntaxError as e:
                    raise AnalysisError(f"syntax error: {e}", where=rel)
        self.functions = {}   # key -> FuncInfo (all, including nested and methods)
        self.classes = {}     # key -> ClassInfo
        for m in self.modules.values():
            self._index_module(m)
        for m in self.modules.values():
            for c in m.classes.values():
                c.bases = [self._resolve_base(m, b) for b in c.node.bases]
                for kw in c.node.keywords:
                    if kw.arg == "metaclass":
                        r = self.resolve_expr_static(m, kw.value)
                        if isinstance(r, ClassInfo):
                            c.metaclass = r
        self._method_index = None

    # ------------------------------------------------------------------ indexing
    def _index_module(self, m):
        for node in m.tree.body:
            if isinstance(node, ast.Import):
                for a in node.names:
                    alias = a.asname or a.name.split(".")[0]
                    m.imports[alias] = ("external", a.name if a.asname else a.name.split(".")[0])
            elif isinstance(node, ast.ImportFrom):
                if node.level == 0:
                    for a in node.names:
                        m.imports[a.asname or a.name] = ("external", f"{node.module}.{a.name}")
                else:
                    pkg_parts = m.package.split(".")
                    up = node.level - 1
                    base_parts = pkg_parts[:len(pkg_parts) - up] if up else pkg_parts
                    base = ".".join(base_parts + (node.module.split(".") if node.module else []))
                    for a in node.names:
                        alias = a.asname or a.name
                        cand = f"{base}.{a.name}"
                        if cand in self.modules or self._module_exists(cand):
                            m.imports[alias] = ("module", cand)
                        else:
                            m.imports[alias] = ("symbol", base, a.name)
            elif isinstance(node, ast.ClassDef):
                self._index_class(m, node)
            elif isinstance(node, (ast.FunctionDef, ast.AsyncFunctionDef)):
                fi = FuncInfo(m, node)
                m.functions[node.name] = fi
                self._register_func(fi)
            elif isinstance(node, ast.Assign) and len(node.targets) == 1 and isinstance(node.targets[0], ast.Name):
                m.assigns[node.targets[0].id] = node.value
            elif isinstance(node, ast.AnnAssign) and isinstance(node.target, ast.Name) and node.value is not None:
                m.assigns[node.target.id] = node.value

    def _module_exists(self, modname):
        p = os.path.join(self.root, *modname.split("."))
        return os.path.isfile(p + ".py") or os.path.isfile(os.path.join(p, "__init__.py"))

    def _index_class(self, m, node):
        ci = ClassInfo(m, node)
        m.classes[node.name] = ci
        self.classes[ci.key] = ci
        for st in node.body:
            if isinstance(st, (ast.FunctionDef, ast.AsyncFunctionDef)):
                fi = FuncInfo(m, st, cls=ci)
                # a property setter must not shadow the getter
                if st.name in ci.methods and any(ast.unparse(d).endswith(".setter") for d in st.decorator_list):
                    self._register_func(fi, suffix="#setter")
                    continue
                ci.methods[st.name] = fi
                self._register_func(fi)
            elif isinstance(st, ast.Assign) and len(st.targets) == 1 and isinstance(st.targets[0], ast.Name):
                ci.attrs[st.targets[0].id] = st.value
                if st.targets[0].id == "__slots__":
                    try:
                        ci.slots = tuple(ast.literal_eval(st.value))
                    except Exception:
                        ci.slots = None

    def _register_func(self, fi, suffix=""):
        self.functions[fi.key + suffix] = fi
        for n in own_nodes(fi.node):
            if isinstance(n, (ast.FunctionDef, ast.AsyncFunctionDef)):
                sub = FuncInfo(fi.module, n, cls=None, parent=fi)
                sub.owner_cls = fi.cls or getattr(fi, "owner_cls", None)
                fi.nested[n.name] = sub
                self._register_func(sub)
        # lambdas assigned to a name or attribute inside this function
        for n in own_nodes(fi.node):
            if isinstance(n, ast.Assign) and isinstance(n.value, ast.Lambda) and len(n.targets) == 1:
                t = n.targets[0]
                tname = t.id if isinstance(t, ast.Name) else (t.attr if isinstance(t, ast.Attribute) else None)
                if tname is None:
                    continue
                idx = sum(1 for k in fi.nested if k.startswith(f"<lambda:{tname}"))
                lname = f"<lambda:{tname}#{idx}>"
                sub = FuncInfo(fi.module, n.value, cls=None, parent=fi, name=lname)
                sub.owner_cls = fi.cls or getattr(fi, "owner_cls", None)
                sub.assigned_to = t
                fi.nested[lname] = sub
                self.functions[sub.key] = sub

    # ------------------------------------------------------------------ symbol resolution
    def resolve_symbol(self, modname, name, _seen=None):
        """Resolve `name` at module level of `modname` -> ClassInfo | FuncInfo | ModuleInfo | ('const', expr, module)
        | ('external', dotted) | None."""
        _seen = _seen or set()
        if (modname, name) in _seen:
            return None
        _seen.add((modname, name))
        m = self.modules.get(modname)
        if m is None:
            return None
        if name in m.classes:
            return m.classes[name]
        if name in m.functions:
            return m.functions[name]
        if name in m.imports:
            t = m.imports[name]
            if t[0] == "module":
                return self.modules.get(t[1])
            if t[0] == "symbol":
                return self.resolve_symbol(t[1], t[2], _seen)
            return t
        if name in m.assigns:
            return ("const", m.assigns[name], m)
        return None

    def _resolve_base(self, m, expr):
        r = self.resolve_expr_static(m, expr)
        if isinstance(r, ClassInfo):
            return r
        return ("external", ast.unparse(expr))

    def resolve_expr_static(self, m, expr):
        """Resolve a Name / dotted Attribute at module scope."""
        if isinstance(expr, ast.Name):
            return self.resolve_symbol(m.name, expr.id)
        if isinstance(expr, ast.Attribute):
            base = self.resolve_expr_static(m, expr.value)
            if isinstance(base, ModuleInfo):
                return self.resolve_symbol(base.name, expr.attr)
            if isinstance(base, ClassInfo):
                f = self.lookup_method(base, expr.attr)
                if f is not None:
                    return f
                for c in self.mro(base):
                    if expr.attr in c.attrs:
                        return ("const", c.attrs[expr.attr], c.module)
                return None
            if isinstance(base, tuple) and base[0] == "external":
                return ("external", f"{base[1]}.{expr.attr}")
        return None

    # ------------------------------------------------------------------ class hierarchy
    def mro(self, cls):
        """C3 linearisation restricted to in-repo classes."""
        def merge(seqs):
            res = []
            seqs = [list(s) for s in seqs if s]
            while seqs:
                for s in seqs:
                    cand = s[0]
                    if not any(cand in t[1:] for t in seqs):
                        break
                else:
                    raise AnalysisError(f"inconsistent MRO for {cls.key}")
                res.append(cand)
                seqs = [[x for x in s if x is not cand] for s in seqs]
                seqs = [s for s in seqs if s]
            return res
        bases = [b for b in cls.bases if isinstance(b, ClassInfo)]
        return [cls] + merge([self.mro(b) for b in bases] + [bases])

    def lookup_method(self, cls, name, after=None):
        """MRO lookup; with `after` (a ClassInfo) emulate super(after, self).name."""
        m = self.mro(cls)
        if after is not None:
            if after not in m:
                return None
            m = m[m.index(after) + 1:]
        for c in m:
            if name in c.methods:
                return c.methods[name]
        return None

    def lookup_class_attr(self, cls, name):
        for c in self.mro(cls):
            if name in c.attrs:
                return c.attrs[name], c
        return None, None

    def subclasses(self, cls, strict=False):
        out = []
        for c in self.classes.values():
            if cls in self.mro(c) and (not strict or c is not cls):
                out.append(c)
        return out

    def external_bases(self, cls):
        out = []
        for c in self.mro(cls):
            out += [b[1] for b in c.bases if not isinstance(b, ClassInfo)]
        return out

    # ------------------------------------------------------------------ lookups used by rules
    def module(self, relpath_or_name):
        for m in self.modules.values():
            if m.relpath == relpath_or_name or m.name == relpath_or_name:
                return m
        raise AnalysisError(f"anchor module vanished: {relpath_or_name}")

    def cls(self, relpath, name):
        m = self.module(relpath)
        if name not in m.classes:
            raise AnalysisError(f"anchor class vanished: {relpath}::{name}")
        return m.classes[name]

    def func(self, relpath, qualname):
        key = f"{relpath}::{qualname}"
        if key not in self.functions:
            # allow ClassName.method resolved through the MRO (method inherited)
            if "." in qualname and "<locals>" not in qualname:
                cn, mn = qualname.split(".", 1)
                m = self.module(relpath)
                if cn in m.classes:
                    f = self.lookup_method(m.classes[cn], mn)
                    if f is not None:
                        return f
            raise AnalysisError(f"anchor function vanished: {key}")
        return self.functions[key]

    def methods_named(self, name, package_prefix=None):
        if self._method_index is None:
            idx = {}
            for f in self.functions.values():
                if f.cls is not None:
                    idx.setdefault(f.name, []).append(f)
            self._method_index = idx
        out = self._method_index.get(name, [])
        if package_prefix:
            out = [f for f in out if f.module.name.startswith(package_prefix)]
        return out

    def funcs_in(self, package_prefix):
        return [f for f in self.functions.values() if f.module.name.startswith(package_prefix)]

    def digest(self, relpaths=None):
        h = hashlib.sha256()
        for m in sorted(self.modules.values(), key=lambda x: x.relpath):
            if relpaths is None or m.relpath in relpaths:
                h.update(m.relpath.encode())
                h.update(m.digest.encode())
        return h.hexdigest()[:16]
