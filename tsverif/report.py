"""Reporting: obligations, violations, known findings, evidence files, exit codes (DESIGN.md 3.10)."""
import json
import os
import sys
import time

VERIF_DIR = os.path.dirname(os.path.dirname(os.path.abspath(__file__)))
EVIDENCE_DIR = os.path.join(VERIF_DIR, "evidence")
REPLAY_DIR = os.path.join(EVIDENCE_DIR, "replays")
KNOWN_FINDINGS = os.path.join(VERIF_DIR, "known_findings.json")


class Obligation:
    __slots__ = ("rule", "where", "construct", "message", "facts", "ok")

    def __init__(self, rule, where, construct, message, facts, ok):
        self.rule = rule
        self.where = where          # "relpath:line"
        self.construct = construct  # stable key, no line numbers
        self.message = message
        self.facts = facts
        self.ok = ok

    def to_json(self):
        d = {"rule": self.rule, "where": self.where, "construct": self.construct, "holds": self.ok}
        if self.message:
            d["message"] = self.message
        if self.facts is not None:
            d["facts"] = self.facts
        return d


class Reporter:
    def __init__(self, prop, tier="quick", seed=0, root="/repo", quiet=False):
        self.prop = prop
        self.tier = tier
        self.seed = seed
        self.root = root
        self.quiet = quiet
        self.obligations = []
        self.notes = []
        self.assumptions = []
        self.rule_docs = {}
        self.functions = set()
        self.call_sites = 0
        self.extra = {}
        self.t0 = time.time()

    # -------------------------------------------------------------- recording
    def rule(self, rule, doc):
        self.rule_docs[rule] = doc

    def analysed(self, fi):
        self.functions.add(fi.key if hasattr(fi, "key") else str(fi))

    def ok(self, rule, where, construct, message="", facts=None):
        self.obligations.append(Obligation(rule, where, construct, message, facts, True))

    def fail(self, rule, where, construct, message, facts=None):
        self.obligations.append(Obligation(rule, where, construct, message, facts, False))

    def check(self, cond, rule, where, construct, message_fail, message_ok="", facts=None):
        if cond:
            self.ok(rule, where, construct, message_ok, facts)
        else:
            self.fail(rule, where, construct, message_fail, facts)
        return cond

    def note(self, text):
        self.notes.append(text)
        if not self.quiet:
            print(f"NOTE: {text}")

    def assume(self, text):
        if text not in self.assumptions:
            self.assumptions.append(text)

    def count(self, rule):
        return sum(1 for o in self.obligations if o.rule == rule)

    def violations(self):
        return [o for o in self.obligations if not o.ok]

    # -------------------------------------------------------------- finishing
    @staticmethod
    def load_known():
        if not os.path.exists(KNOWN_FINDINGS):
            return []
        with open(KNOWN_FINDINGS) as fh:
            return json.load(fh).get("findings", [])

    def finish(self, explanation, write=True, only_construct=None):
        """Prints the report, writes evidence (+ replay files), returns the exit code (0 or 1)."""
        known = [k for k in self.load_known() if k.get("property") == self.prop and k.get("status") == "known"]
        viol = self.violations()
        if only_construct is not None:
            viol = [v for v in viol if v.construct == only_construct]
        unlisted, listed = [], []
        for v in viol:
            hit = next((k for k in known if k.get("rule") == v.rule and k.get("construct") == v.construct), None)
            (listed if hit else unlisted).append((v, hit))
        if write:
            os.makedirs(REPLAY_DIR, exist_ok=True)
        out = sys.stdout
        for v, k in listed:
            if not self.quiet:
                print(f"KNOWN-FINDING: property={self.prop} {v.rule} {v.construct}: {k.get('what', v.message)}",
                      file=out)
        n = 0
        for v, _ in unlisted:
            n += 1
            replay = os.path.join(REPLAY_DIR, f"{self.prop}-{n}.json")
            if not self.quiet:
                print(f"{v.where}: {v.rule} [{v.construct}] {v.message}", file=out)
            if write:
                with open(replay, "w") as fh:
                    json.dump({"property": self.prop, "root": self.root, **v.to_json()}, fh, indent=1, default=str)
            if not self.quiet:
                print(f"VIOLATION property={self.prop} replay={replay}", file=out)
        per_rule = {}
        for o in self.obligations:
            r = per_rule.setdefault(o.rule, {"obligations": 0, "discharged": 0})
            r["obligations"] += 1
            r["discharged"] += 1 if o.ok else 0
        for r, doc in self.rule_docs.items():
            per_rule.setdefault(r, {"obligations": 0, "discharged": 0})["rule"] = doc
        samples = []
        seen_rules = set()
        for o in self.obligations:           # one sample per rule first, then fill up
            if o.rule not in seen_rules:
                seen_rules.add(o.rule)
                samples.append(o.to_json())
        for o in self.obligations:
            if len(samples) >= 40:
                break
            j = o.to_json()
            if j not in samples:
                samples.append(j)
        wall = time.time() - self.t0
        evidence = {
            "property_id": self.prop,
            "tier": self.tier,
            "seed": self.seed,
            "level": "other",
            "coverage": {
                "explanation": explanation,
                "obligations": len(self.obligations),
                "discharged": sum(1 for o in self.obligations if o.ok),
                "evaluations": len(self.obligations),
                "distinct_nontrivial": len({(o.rule, o.construct) for o in self.obligations}),
                "rule": "one obligation = one rule instance evaluated on one syntactic construct of the analysed "
                        "tree (call site, statement, dispatch-table cell, call-graph node, formula); distinct = "
                        "distinct (rule, construct) pairs",
                "rules": per_rule,
                "functions_analysed": len(self.functions),
                "call_sites": self.call_sites,
                "samples": samples,
                "exhaustive": True,
                "analysed_root": self.root,
                "notes": self.notes,
                **self.extra,
            },
            "assumptions": self.assumptions,
            "wall_s": round(wall, 3),
            "violations": len(unlisted),
            "known_findings_reported": len(listed),
        }
        if write:
            os.makedirs(EVIDENCE_DIR, exist_ok=True)
            with open(os.path.join(EVIDENCE_DIR, f"{self.prop}.json"), "w") as fh:
                json.dump(evidence, fh, indent=1, default=str)
        if not self.quiet:
            print(f"{self.prop} [{self.tier}] root={self.root}: {evidence['coverage']['discharged']}/"
                  f"{len(self.obligations)} obligations hold over {len(per_rule)} rules, "
                  f"{len(self.functions)} functions, {self.call_sites} call sites; "
                  f"{len(unlisted)} violation(s), {len(listed)} known finding(s); {wall:.2f}s")
        return 1 if unlisted else 0
