"""Two-way self-test of the checker (thorough tier); filled in by tsverif/variants.py.  See DESIGN.md 3.11."""


def run(pid, root, seed):
    try:
        from . import variants
    except ImportError:
        return
    variants.run_selftest(pid, root, seed)
