"""E1 (second half) -- resolved call graph.

Edge kinds
  direct      callee frame is pushed on top of the caller's frame
  byname      like direct, but the receiver's class is unknown: every in-repo method of that name is a target
  slot        call of an instance slot holding a callable (``self._round``, ``self.step``, ``self.f`` ...)
  callback    call of a parameter, bound from the actual arguments at the in-repo call sites
  implicit    operator protocol: subscripting / ``in`` / ``len`` on an object whose class defines the dunder
  property    attribute read that is an in-repo @property
  gen-create  call of a generator function as the operand of ``yield`` / ``trampoline.TailCall`` /
              ``trampoline.trampoline``: creates a generator object, pushes no frame of the callee
  trampoline  ``trampoline.trampoline(G())``: the caller's frame runs G and every generator reachable from G
              through gen-create edges, each at constant depth (one frame above the driver loop)
  delegation  call of ``self.<field>`` where <field> is bound in ``__init__`` from a constructor parameter
              (another object; wrapper nesting depth is fixed at construction)
  autograd    ``<Function subclass>.apply(...)`` -> its ``forward``
External callees are recorded with their dotted text; nothing is silently dropped: an attribute call whose name
matches no in-repo method is an *external method call* and is listed as such.
"""
import ast
import builtins

from . import astq
from .errors import AnalysisError
from .model import ClassInfo, FuncInfo, ModuleInfo, own_nodes

STACK_KINDS = ("direct", "byname", "slot", "callback", "implicit", "property", "trampoline", "autograd")

EXTERNAL_ROOTS = {"torch", "math", "np", "numpy", "warnings", "trampoline", "abc", "nn"}
BUILTINS = set(dir(builtins))

_DUNDER_FOR_CTX = {ast.Load: "__getitem__", ast.Store: "__setitem__", ast.Del: "__delitem__"}


class Edge:
    __slots__ = ("src", "dst", "kind", "node", "text")

    def __init__(self, src, dst, kind, node, text):
        self.src, self.dst, self.kind, self.node, self.text = src, dst, kind, node, text

    def __repr__(self):
        return f"{self.src.qualname} -[{self.kind}]-> {self.dst.qualname} ({self.text})"


class CallGraph:
    def __init__(self, model, scope_prefix=None):
        self.model = model
        self.scope = scope_prefix
        self.edges = []
        self.externals = []     # (FuncInfo, node, dotted text)
        self.ext_methods = []   # (FuncInfo, node, text): attribute calls matching no in-repo method
        self.n_calls = 0
        self._slot_cache = {}
        self._callers_done = False
        funcs = [f for f in model.functions.values() if scope_prefix is None or f.module.name.startswith(scope_prefix)]
        self.funcs = funcs
        pending_callbacks = []
        for f in funcs:
            self._scan(f, pending_callbacks)
        # callbacks need the direct edges first
        for f, call, pname in pending_callbacks:
            self._bind_callback(f, call, pname)
        self._add_trampoline_closure()

    # ------------------------------------------------------------------ helpers
    def owner_class(self, fi):
        f = fi
        while f is not None:
            if f.cls is not None:
                return f.cls
            oc = getattr(f, "owner_cls", None)
            if oc is not None:
                return oc
            f = f.parent
        return None

    def self_name(self, fi):
        """Name of the instance parameter visible in fi (through closures), or None."""
        f = fi
        while f is not None:
            if f.cls is not None and not f.is_static and f.params:
                return f.params[0]
            f = f.parent
        return None

    def family(self, cls):
        return self.model.subclasses(cls)

    def _method_targets(self, classes, name):
        out = []
        for c in classes:
            m = self.model.lookup_method(c, name)
            if m is not None and m not in out:
                out.append(m)
        return out

    def slot_targets(self, cls, attr):
        """Callables that may be stored in instance slot `attr` of cls (any class in its family)."""
        key = (cls.key, attr)
        if key in self._slot_cache:
            return self._slot_cache[key]
        targets, from_param = [], False
        classes = set(self.model.mro(cls)) | set(self.family(cls))
        for c in classes:
            for m in c.methods.values():
                sname = m.params[0] if m.params and not m.is_static else None
                if sname is None:
                    continue
                for n in own_nodes(m.node):
                    if not isinstance(n, ast.Assign):
                        continue
                    for t in n.targets:
                        if isinstance(t, ast.Attribute) and isinstance(t.value, ast.Name) and t.value.id == sname \
                                and t.attr == attr:
                            tg, fp = self._callables_in(m, n.value, sname, c)
                            targets += [x for x in tg if x not in targets]
                            from_param = from_param or fp
        self._slot_cache[key] = (targets, from_param)
        return targets, from_param

    def _callables_in(self, m, expr, sname, cls):
        """Function references inside an expression stored into a slot."""
        targets, from_param = [], False
        if isinstance(expr, ast.Lambda):
            for sub in m.nested.values():
                if sub.node is expr:
                    targets.append(sub)
            return targets, False
        for n in ast.walk(expr):
            if isinstance(n, ast.Attribute) and isinstance(n.value, ast.Name) and n.value.id == sname:
                for f in self._method_targets(self.family(cls), n.attr):
                    if f not in targets:
                        targets.append(f)
            elif isinstance(n, ast.Name) and n.id in m.params and n.id != sname:
                from_param = True
        return targets, from_param

    def local_class(self, fi, name):
        """Class of a local variable assigned (only) from constructor calls of in-repo classes."""
        classes = []
        for stmt, val in astq.assignments_to(fi, name):
            if val is None or not isinstance(val, ast.Call):
                return None
            r = self._static(fi, val.func)
            if isinstance(r, ClassInfo):
                classes.append(r)
            else:
                return None
        return classes or None

    def _static(self, fi, expr):
        # nested defs first
        if isinstance(expr, ast.Name):
            f = fi
            while f is not None:
                if expr.id in f.nested:
                    return f.nested[expr.id]
                f = f.parent
        return self.model.resolve_expr_static(fi.module, expr)

    def _is_shadowed(self, fi, name):
        """True if `name` is a parameter or local of fi (so it is not the module-level symbol)."""
        f = fi
        while f is not None:
            if name in f.params or name in [a.arg for a in f.node.args.kwonlyargs] or \
                    (f.node.args.vararg and f.node.args.vararg.arg == name) or \
                    (f.node.args.kwarg and f.node.args.kwarg.arg == name):
                return True
            if not isinstance(f.node, ast.Lambda) and astq.assignments_to(f, name):
                return True
            f = f.parent
        return False

    # ------------------------------------------------------------------ scanning
    def _add(self, src, dst, kind, node, text=None):
        self.edges.append(Edge(src, dst, kind, node, text or (ast.unparse(node)[:80] if node is not None else "")))

    def _scan(self, fi, pending_callbacks):
        gen_operands = set()
        tramp_operands = {}
        for n in own_nodes(fi.node):
            if isinstance(n, ast.Yield) and isinstance(n.value, ast.Call):
                gen_operands.add(n.value)
            elif isinstance(n, ast.Call):
                d = astq.dotted(n.func)
                if d in ("trampoline.TailCall",) and n.args and isinstance(n.args[0], ast.Call):
                    gen_operands.add(n.args[0])
                elif d == "trampoline.trampoline" and n.args and isinstance(n.args[0], ast.Call):
                    tramp_operands[n.args[0]] = n
        sname = self.self_name(fi)
        ocls = self.owner_class(fi)
        for n in own_nodes(fi.node):
            if isinstance(n, ast.Call):
                self.n_calls += 1
                self._resolve_call(fi, n, sname, ocls, gen_operands, tramp_operands, pending_callbacks)
            elif isinstance(n, ast.Subscript):
                dn = _DUNDER_FOR_CTX.get(type(n.ctx))
                self._implicit(fi, n, n.value, dn, sname, ocls)
            elif isinstance(n, ast.Compare):
                for op, right in zip(n.ops, n.comparators):
                    if isinstance(op, (ast.In, ast.NotIn)):
                        self._implicit(fi, n, right, "__contains__", sname, ocls)
            elif isinstance(n, ast.Attribute) and isinstance(n.ctx, ast.Load):
                props = [m for m in self.model.methods_named(n.attr) if m.is_property]
                if props:
                    recv = self._receiver_classes(fi, n.value, sname, ocls)
                    kind = "property"
                    if recv is not None:
                        props = [p for p in self._method_targets(recv, n.attr) if p.is_property]
                    elif self._is_param_field_expr(n.value, sname, ocls):
                        kind = "delegation"
                    for p in props:
                        self._add(fi, p, kind, n)

    def object_slots(self):
        """attribute name -> in-repo classes constructed into it anywhere (``x.attr = Ctor(...)``)."""
        if "objslots" not in self._slot_cache:
            table = {}
            for f in self.model.functions.values():
                if isinstance(f.node, ast.Lambda):
                    continue
                for n in own_nodes(f.node):
                    if isinstance(n, ast.Assign) and isinstance(n.value, ast.Call):
                        r = self._static(f, n.value.func)
                        if isinstance(r, ClassInfo):
                            for t in n.targets:
                                if isinstance(t, ast.Attribute):
                                    table.setdefault(t.attr, set()).add(r)
            self._slot_cache["objslots"] = table
        return self._slot_cache["objslots"]

    def _implicit(self, fi, node, recv_expr, dunder, sname, ocls):
        """Operator-protocol call; only for receivers that can be in-repo objects (self, a class with an in-repo
        metaclass, a slot or local constructed from an in-repo class).  Lists, tuples, tensors are external."""
        if not self.model.methods_named(dunder):
            return
        cands = []
        static = None
        if isinstance(recv_expr, (ast.Name, ast.Attribute)):
            d = astq.dotted(recv_expr)
            if d and not self._is_shadowed(fi, d.split(".")[0]):
                static = self.model.resolve_expr_static(fi.module, recv_expr)
        if isinstance(static, ClassInfo):
            metas = [c.metaclass for c in self.model.mro(static) if c.metaclass is not None]
            cands = self._method_targets(metas, dunder)
        else:
            recv = self._receiver_classes(fi, recv_expr, sname, ocls)
            if recv is None and isinstance(recv_expr, ast.Attribute):
                classes = self.object_slots().get(recv_expr.attr)
                if classes:
                    recv = []
                    for c in classes:
                        recv += [x for x in self.family(c) if x not in recv]
            if recv is not None:
                cands = self._method_targets(recv, dunder)
        for c in cands:
            self._add(fi, c, "implicit", node, f"{dunder} via {ast.unparse(node)[:60]}")

    def _receiver_classes(self, fi, expr, sname, ocls):
        """Set of possible in-repo classes of a receiver expression, or None if unknown."""
        if isinstance(expr, ast.Name):
            if sname is not None and expr.id == sname and ocls is not None:
                return self.family(ocls)
            if not self._is_shadowed(fi, expr.id):
                r = self.model.resolve_symbol(fi.module.name, expr.id)
                if isinstance(r, ClassInfo):
                    return [r]
            lc = self.local_class(fi, expr.id)
            if lc:
                out = []
                for c in lc:
                    out += [x for x in self.family(c) if x not in out]
                return out
        if isinstance(expr, ast.Attribute) and isinstance(expr.value, ast.Name) and sname is not None \
                and expr.value.id == sname and ocls is not None and not self.param_field(ocls, expr.attr):
            classes = self.object_slots().get(expr.attr)
            if classes:
                out = []
                for c in classes:
                    out += [x for x in self.family(c) if x not in out]
                return out
        return None

    def param_field(self, cls, field):
        """True if some method of cls's family stores a (constructor) parameter into ``self.<field>``."""
        key = ("pf", cls.key, field)
        if key not in self._slot_cache:
            res = False
            for c in set(self.model.mro(cls)) | set(self.family(cls)):
                for m in c.methods.values():
                    if not m.params or m.is_static:
                        continue
                    for n in own_nodes(m.node):
                        if isinstance(n, ast.Assign):
                            for t in n.targets:
                                if isinstance(t, ast.Attribute) and isinstance(t.value, ast.Name) and \
                                        t.value.id == m.params[0] and t.attr == field and \
                                        isinstance(n.value, ast.Name) and n.value.id in m.params[1:]:
                                    res = True
            self._slot_cache[key] = res
        return self._slot_cache[key]

    def _resolve_call(self, fi, call, sname, ocls, gen_operands, tramp_operands, pending_callbacks):
        func = call.func
        targets, kind = None, "direct"
        text = ast.unparse(call)[:90]
        # ---- len(x): implicit __len__
        if isinstance(func, ast.Name) and func.id == "len" and call.args and not self._is_shadowed(fi, "len"):
            self._implicit(fi, call, call.args[0], "__len__", sname, ocls)
        if isinstance(func, ast.Name):
            name = func.id
            nested = None
            f = fi
            while f is not None and nested is None:
                nested = f.nested.get(name)
                f = f.parent
            if nested is not None:
                targets = [nested]
            elif name in fi.params or any(name in p.params for p in self._parents(fi)):
                pending_callbacks.append((fi, call, name))
                return
            elif self._is_shadowed(fi, name):
                lc = self._local_callable(fi, name)
                if lc is None:
                    self.ext_methods.append((fi, call, f"local callable {name}"))
                    return
                targets, kind = lc, "direct"
            else:
                r = self.model.resolve_symbol(fi.module.name, name)
                if isinstance(r, FuncInfo):
                    targets = [r]
                elif isinstance(r, ClassInfo):
                    targets = self._ctor_targets(r)
                elif name in BUILTINS or (isinstance(r, tuple) and r[0] == "external"):
                    self.externals.append((fi, call, name))
                    if name == "super":
                        pass
                    return
                else:
                    raise AnalysisError(f"unresolved callee `{name}` in {text}", where=astq.loc(fi, call))
        elif isinstance(func, ast.Attribute):
            attr = func.attr
            base = func.value
            # super().m(...) / super(C, self).m(...)
            if isinstance(base, ast.Call) and isinstance(base.func, ast.Name) and base.func.id == "super":
                after = ocls
                if base.args:
                    r = self.model.resolve_expr_static(fi.module, base.args[0])
                    if isinstance(r, ClassInfo):
                        after = r
                targets = []
                if ocls is not None and after is not None:
                    for c in self.family(ocls):
                        m = self.model.lookup_method(c, attr, after=after)
                        if m is not None and m not in targets:
                            targets.append(m)
                if not targets:
                    self.externals.append((fi, call, f"super().{attr}"))
                    return
            else:
                d = astq.dotted(base)
                root = d.split(".")[0] if d else None
                static = None
                if d is not None and not self._is_shadowed(fi, root):
                    static = self.model.resolve_expr_static(fi.module, base)
                if isinstance(static, ModuleInfo):
                    r = self.model.resolve_symbol(static.name, attr)
                    if isinstance(r, FuncInfo):
                        targets = [r]
                    elif isinstance(r, ClassInfo):
                        targets = self._ctor_targets(r)
                    else:
                        raise AnalysisError(f"unresolved callee `{d}.{attr}`", where=astq.loc(fi, call))
                elif isinstance(static, tuple) and static[0] == "external":
                    self.externals.append((fi, call, f"{static[1]}.{attr}"))
                    return
                elif isinstance(static, ClassInfo):
                    m = self.model.lookup_method(static, attr)
                    if m is not None:
                        targets = [m]
                    elif attr == "apply" and any("Function" in b for b in self.model.external_bases(static)):
                        fwd = self.model.lookup_method(static, "forward")
                        targets, kind = ([fwd] if fwd else []), "autograd"
                    else:
                        self.externals.append((fi, call, f"{static.name}.{attr}"))
                        return
                elif root in EXTERNAL_ROOTS and not self._is_shadowed(fi, root):
                    self.externals.append((fi, call, f"{d}.{attr}"))
                    return
                else:
                    recv = self._receiver_classes(fi, base, sname, ocls)
                    if recv is not None:
                        targets = self._method_targets(recv, attr)
                        if not targets:
                            # not a method: maybe an instance slot holding a callable
                            tg, from_param = [], False
                            for c in recv[:1]:
                                tg, from_param = self.slot_targets(c, attr)
                            if tg:
                                targets, kind = tg, "slot"
                            elif from_param:
                                targets, kind = self.model.methods_named("__call__"), "delegation"
                            else:
                                self.ext_methods.append((fi, call, text))
                                return
                    else:
                        # unknown receiver: is it `self.<field>.m(...)` or `<local>.m(...)` -> by name
                        targets = [m for m in self.model.methods_named(attr) if not m.is_property]
                        kind = "delegation" if self._is_param_field_expr(base, sname, ocls) else "byname"
                        if not targets:
                            # slot callables by name (e.g. self._top._round(x), parent._randn handled above)
                            tg = []
                            for c in self.model.classes.values():
                                t2, _ = self.slot_targets(c, attr)
                                tg += [x for x in t2 if x not in tg]
                            if tg:
                                targets = tg
                                kind = "delegation" if self._is_param_field_expr(base, sname, ocls) else "slot"
                            else:
                                self.ext_methods.append((fi, call, text))
                                return
        else:
            # call of a call result / subscript etc.
            self.ext_methods.append((fi, call, text))
            return
        if targets is None:
            return
        for t in targets:
            k = kind
            if call in gen_operands and t.is_generator:
                k = "gen-create"
            elif call in tramp_operands and t.is_generator:
                k = "gen-create"
                self._add(fi, t, "trampoline", tramp_operands[call], text)
            self._add(fi, t, k, call, text)

    def _is_param_field_expr(self, expr, sname, ocls):
        return (isinstance(expr, ast.Attribute) and isinstance(expr.value, ast.Name) and sname is not None
                and expr.value.id == sname and ocls is not None and self.param_field(ocls, expr.attr))

    def _parents(self, fi):
        out = []
        f = fi.parent
        while f is not None:
            out.append(f)
            f = f.parent
        return out

    def _ctor_targets(self, cls):
        out = []
        init = self.model.lookup_method(cls, "__init__")
        if init is not None:
            out.append(init)
        return out

    def _local_callable(self, fi, name):
        """A local name bound to a callable: `x = methods.select(...)` (returns classes) or `x = self.m`."""
        out = []
        for stmt, val in astq.assignments_to(fi, name):
            if val is None:
                return None
            if isinstance(val, ast.Call):
                r = self._static(fi, val.func)
                if isinstance(r, FuncInfo):
                    # classes returned by that function
                    for n in own_nodes(r.node):
                        if isinstance(n, ast.Return) and n.value is not None:
                            rr = self.model.resolve_expr_static(r.module, n.value)
                            if isinstance(rr, ClassInfo):
                                out += [t for t in self._ctor_targets(rr) if t not in out]
                            else:
                                return None
                    continue
                return None
            return None
        return out or None

    def _bind_callback(self, fi, call, pname):
        owner = fi
        while owner is not None and pname not in owner.params:
            owner = owner.parent
        if owner is None:
            return
        idx = owner.params.index(pname)
        bound = False
        for e in list(self.edges):
            if e.dst is owner and isinstance(e.node, ast.Call) and e.kind in ("direct", "byname", "slot"):
                c = e.node
                off = 1 if (owner.cls is not None and not owner.is_static and isinstance(c.func, ast.Attribute)) else 0
                actual = astq.arg_or_kw(c, idx - off, pname)
                if actual is None:
                    continue
                sname = self.self_name(e.src)
                ocls = self.owner_class(e.src)
                tg = []
                if isinstance(actual, ast.Attribute) and isinstance(actual.value, ast.Name) and \
                        actual.value.id == sname and ocls is not None:
                    tg = self._method_targets(self.family(ocls), actual.attr)
                elif isinstance(actual, ast.Name):
                    r = self._static(e.src, actual)
                    if isinstance(r, FuncInfo):
                        tg = [r]
                for t in tg:
                    self._add(fi, t, "callback", call, f"{pname} := {ast.unparse(actual)}")
                    bound = True
        if not bound:
            self.ext_methods.append((fi, call, f"parameter call {pname}(...)"))

    def _add_trampoline_closure(self):
        gen_succ = {}
        for e in self.edges:
            if e.kind == "gen-create":
                gen_succ.setdefault(e.src.key, []).append(e.dst)
        extra = []
        for e in self.edges:
            if e.kind != "trampoline":
                continue
            seen, stack = {e.dst.key}, [e.dst]
            while stack:
                g = stack.pop()
                for h in gen_succ.get(g.key, []):
                    if h.key not in seen:
                        seen.add(h.key)
                        stack.append(h)
                        extra.append(Edge(e.src, h, "trampoline", e.node, f"{e.text} ~> {h.qualname}"))
        self.edges += extra

    # ------------------------------------------------------------------ queries
    def succ(self, kinds=STACK_KINDS):
        out = {}
        for e in self.edges:
            if e.kind in kinds:
                out.setdefault(e.src.key, []).append(e)
        return out

    def reachable(self, roots, kinds=STACK_KINDS + ("gen-create", "delegation")):
        succ = self.succ(kinds)
        seen = {}
        stack = list(roots)
        for r in roots:
            seen[r.key] = r
        while stack:
            f = stack.pop()
            for e in succ.get(f.key, []):
                if e.dst.key not in seen:
                    seen[e.dst.key] = e.dst
                    stack.append(e.dst)
        return list(seen.values())

    def cycles(self, kinds=STACK_KINDS, restrict=None):
        """Strongly connected components with a cycle (Tarjan), as lists of FuncInfo, plus the edges inside."""
        succ = self.succ(kinds)
        nodes = {f.key: f for f in self.funcs}
        for e in self.edges:
            nodes.setdefault(e.dst.key, e.dst)
        if restrict is not None:
            nodes = {k: f for k, f in nodes.items() if restrict(f)}
        index, low, on, stack, comps = {}, {}, set(), [], []
        counter = [0]

        def strong(v):
            # iterative Tarjan
            work = [(v, iter([e.dst.key for e in succ.get(v, []) if e.dst.key in nodes]))]
            index[v] = low[v] = counter[0]
            counter[0] += 1
            stack.append(v)
            on.add(v)
            while work:
                node, it = work[-1]
                advanced = False
                for w in it:
                    if w not in index:
                        index[w] = low[w] = counter[0]
                        counter[0] += 1
                        stack.append(w)
                        on.add(w)
                        work.append((w, iter([e.dst.key for e in succ.get(w, []) if e.dst.key in nodes])))
                        advanced = True
                        break
                    elif w in on:
                        low[node] = min(low[node], index[w])
                if advanced:
                    continue
                work.pop()
                if work:
                    low[work[-1][0]] = min(low[work[-1][0]], low[node])
                if low[node] == index[node]:
                    comp = []
                    while True:
                        w = stack.pop()
                        on.discard(w)
                        comp.append(w)
                        if w == node:
                            break
                    comps.append(comp)
        for v in sorted(nodes):
            if v not in index:
                strong(v)
        out = []
        for comp in comps:
            cs = set(comp)
            inner = [e for k in comp for e in succ.get(k, []) if e.dst.key in cs]
            if len(comp) > 1 or inner:
                out.append(([nodes[k] for k in sorted(comp)], inner))
        return out

    def longest_chain(self, roots, kinds=STACK_KINDS):
        """Length (in frames) of the longest stack chain from any root in the acyclic stack graph."""
        succ = self.succ(kinds)
        memo = {}

        def depth(k, path):
            if k in memo:
                return memo[k]
            if k in path:
                return (10 ** 6, [k])
            best, bestp = 1, [k]
            for e in succ.get(k, []):
                d, p = depth(e.dst.key, path | {k})
                if d + 1 > best:
                    best, bestp = d + 1, [k] + p
            memo[k] = (best, bestp)
            return memo[k]
        best = (0, [])
        for r in roots:
            d = depth(r.key, frozenset())
            if d[0] > best[0]:
                best = d
        return best
