"""Entry point:  python -m tsverif.check <ID> [--tier quick|thorough] [--root /repo] [--replay path]

Exit 0: every rule instance holds (known findings are printed as KNOWN-FINDING lines).
Exit 1: at least one unlisted violation (``VIOLATION property=<id> replay=<path>``).
Exit 2: ANALYSIS-ERROR -- the analysis could not interpret the tree (anchor vanished, construct outside a
        fragment, instance count below the floor, self-test failure).  Never a verdict.
"""
import argparse
import importlib
import json
import os
import sys
import traceback

from .errors import AnalysisError
from .model import RepoModel
from .report import Reporter


class Ctx:
    def __init__(self, model, rep, tier, seed, root):
        self.model = model
        self.rep = rep
        self.tier = tier
        self.seed = seed
        self.root = root
        self._floors = []
        self._cache = {}
        self.errors = []

    def guard(self, fn, *args, **kwargs):
        """Run one rule; an AnalysisError inside it is recorded (exit 2 unless a definite violation was found
        elsewhere) and does not prevent the other rules from reporting."""
        try:
            return fn(self, *args, **kwargs)
        except AnalysisError as e:
            self.errors.append(f"{getattr(fn, '__name__', 'rule')}: {e}")
        except RecursionError:
            self.errors.append(f"{getattr(fn, '__name__', 'rule')}: recursion limit hit inside the analysis")
        except Exception as e:       # SimRaise escaping a scenario, or an internal error: never a verdict
            from .interp import SimRaise
            if isinstance(e, SimRaise):
                where = ""
                if e.fi is not None and e.node is not None:
                    from . import astq
                    where = astq.loc(e.fi, e.node) + ": "
                self.errors.append(f"{getattr(fn, '__name__', 'rule')}: {where}the analysed code raises {e} in a "
                                   f"scenario the rule expects to return normally")
            else:
                import traceback
                self.errors.append(f"{getattr(fn, '__name__', 'rule')}: internal error {type(e).__name__}: {e} "
                                   f"({traceback.format_exc().strip().splitlines()[-3].strip()})")

    def floor(self, rule, minimum):
        """A rule matching fewer sites than confirmed by hand passes vacuously: make that an analysis error."""
        self._floors.append((rule, minimum))

    def check_floors(self):
        for rule, minimum in self._floors:
            n = self.rep.count(rule)
            if n < minimum:
                raise AnalysisError(f"rule {rule} matched {n} site(s), fewer than the floor {minimum} confirmed on "
                                    f"the reference tree: the anchors of this rule have moved; the rule needs review")

    def callgraph(self, scope=None):
        from .callgraph import CallGraph
        key = ("cg", scope)
        if key not in self._cache:
            self._cache[key] = CallGraph(self.model, scope)
        return self._cache[key]


def run_property(pid, root, tier, seed, write=True, quiet=False, only_construct=None):
    """Runs one property's rules on `root`; returns (exit_code, Reporter)."""
    model = RepoModel(root)
    mod = importlib.import_module(f"tsverif.props.{pid.lower()}")
    rep = Reporter(pid, tier=tier, seed=seed, root=model.root, quiet=quiet)
    ctx = Ctx(model, rep, tier, seed, model.root)
    mod.run(ctx)
    try:
        if not ctx.errors:
            ctx.check_floors()
    except AnalysisError as e:
        ctx.errors.append(str(e))
    if tier == "thorough" and hasattr(mod, "run_thorough"):
        ctx.guard(mod.run_thorough)
    rep.extra["analysis_errors"] = list(ctx.errors)
    code = rep.finish(mod.EXPLANATION, write=write, only_construct=only_construct)
    if ctx.errors:
        if code == 0:
            raise AnalysisError(" || ".join(ctx.errors))
        if not quiet:
            for e in ctx.errors:
                print(f"ANALYSIS-ERROR (other rules still reported above): {e}")
    return code, rep


def main(argv=None):
    ap = argparse.ArgumentParser()
    ap.add_argument("prop")
    ap.add_argument("--tier", default=os.environ.get("VERIF_TIER", "quick"), choices=["quick", "thorough"])
    ap.add_argument("--root", default=os.environ.get("TSVERIF_ROOT", "/repo"))
    ap.add_argument("--replay", default=None)
    ap.add_argument("--no-write", action="store_true", help="do not write evidence / replay files")
    args = ap.parse_args(argv)
    pid = args.prop.upper()
    try:
        seed = int(os.environ.get("VERIF_SEED", "0"))
    except ValueError:
        seed = 0
    only = None
    try:
        if args.replay:
            with open(args.replay) as fh:
                rp = json.load(fh)
            only = rp["construct"]
            if args.root == "/repo" and os.path.isdir(os.path.join(rp.get("root", ""), "torchsde")) and \
                    "TSVERIF_ROOT" not in os.environ:
                args.root = rp["root"]
            print(f"replaying {rp['rule']} on construct {only} (root {args.root})")
        code, rep = run_property(pid, args.root, args.tier, seed, write=not args.no_write and not args.replay,
                                 only_construct=only)
        if args.tier == "thorough":
            from . import selftest
            selftest.run(pid, args.root, seed)
        return code
    except AnalysisError as e:
        print(f"ANALYSIS-ERROR property={pid}: {e}")
        return 2
    except Exception:
        traceback.print_exc()
        print(f"ANALYSIS-ERROR property={pid}: internal error in the analysis (traceback above)")
        return 2


if __name__ == "__main__":
    sys.exit(main())
