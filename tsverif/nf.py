"""E8 (algebra) -- canonical forms: Laurent polynomials over Q in opaque atoms, rational functions of them, square-root
atoms with the side relation s*s = radicand, and bilinear / linear opaque function atoms expanded by linearity.

Atoms are hashable tuples whose first element is a tag:
  ('s', name)                      scalar symbol (times, step sizes, tableau entries)
  ('t', name)                      tensor symbol
  ('fn', name, *arg_keys)          opaque function value (tensor) keyed by its canonical arguments
  ('sqrt', radicand_key)           square root; scalar iff its radicand is scalar
  ('bil', name, key_a, key_b)      bilinear opaque function of two tensor monomials
  ('lin', name, fixed_keys, key)   opaque function linear in its last argument (a tensor monomial)
  ('col', atom) / ('row', atom)    a vector atom placed on the second-last / last axis (unsqueeze(-1) / (-2))
  ('T', atom)                      matrix atom transposed on the last two axes
Equality of two values is equality of canonical forms after cross-multiplication; no search, no solver.
"""
from fractions import Fraction

from .errors import AnalysisError

ONE_KEY = ("one",)


def frac(x):
    if isinstance(x, Fraction):
        return x
    if isinstance(x, bool):
        raise AnalysisError(f"boolean {x} used as a number")
    if isinstance(x, int):
        return Fraction(x)
    if isinstance(x, float):
        if x != x or x in (float("inf"), float("-inf")):
            raise AnalysisError(f"non-finite float {x}")
        return Fraction(repr(x))       # decimal reading of the literal: 0.1 -> 1/10
    raise AnalysisError(f"not a number: {x!r}")


def is_scalar_atom(a):
    tag = a[0]
    if tag == "s":
        return True
    if tag == "sqrt":
        return a[2]
    return False


def _mono_mul(m1, m2):
    if not m1:
        return m2
    if not m2:
        return m1
    d = dict(m1)
    for a, e in m2:
        d[a] = d.get(a, 0) + e
    return tuple(sorted(((a, e) for a, e in d.items() if e != 0), key=lambda ae: repr(ae[0])))


def _mono_pow(m, k):
    return tuple((a, e * k) for a, e in m) if k != 0 else ()


class Poly:
    """Laurent polynomial: {monomial: Fraction}, monomial = sorted tuple of (atom, int exponent)."""
    __slots__ = ("terms",)

    def __init__(self, terms=None):
        self.terms = {m: c for m, c in (terms or {}).items() if c != 0}

    # constructors
    @staticmethod
    def const(c):
        c = frac(c)
        return Poly({(): c}) if c != 0 else Poly()

    @staticmethod
    def atom(a, e=1):
        return Poly({((a, e),): Fraction(1)})

    def is_zero(self):
        return not self.terms

    def is_const(self):
        return all(m == () for m in self.terms)

    def const_value(self):
        return self.terms.get((), Fraction(0))

    def is_monomial(self):
        return len(self.terms) == 1

    def __add__(self, o):
        d = dict(self.terms)
        for m, c in o.terms.items():
            d[m] = d.get(m, 0) + c
        return Poly(d)

    def __neg__(self):
        return Poly({m: -c for m, c in self.terms.items()})

    def __sub__(self, o):
        return self + (-o)

    def __mul__(self, o):
        if len(self.terms) * len(o.terms) > 400000:
            raise AnalysisError("polynomial blow-up in canonicalisation")
        d = {}
        for m1, c1 in self.terms.items():
            for m2, c2 in o.terms.items():
                m = _mono_mul(m1, m2)
                d[m] = d.get(m, 0) + c1 * c2
        return Poly(d)

    def scale(self, c):
        c = frac(c)
        return Poly({m: k * c for m, k in self.terms.items()})

    def pow(self, k):
        if k < 0:
            if not self.is_monomial():
                raise AnalysisError("negative power of a non-monomial polynomial")
            (m, c), = self.terms.items()
            return Poly({_mono_pow(m, k): Fraction(1) / (c ** (-k))})
        r = Poly.const(1)
        b = self
        while k:
            if k & 1:
                r = r * b
            b = b * b
            k >>= 1
        return r

    def atoms(self):
        out = set()
        for m in self.terms:
            for a, _ in m:
                out.add(a)
        return out

    def key(self):
        return tuple(sorted(((m, c) for m, c in self.terms.items()), key=repr))

    def __eq__(self, o):
        return isinstance(o, Poly) and self.terms == o.terms

    def __hash__(self):
        return hash(self.key())

    def __repr__(self):
        return show_poly(self)


def show_atom(a):
    tag = a[0]
    if tag in ("s", "t"):
        return a[1]
    if tag == "fn":
        return f"{a[1]}[{', '.join(show_key(k) for k in a[2:])}]"
    if tag == "sqrt":
        return f"sqrt({show_key(a[1])})"
    if tag == "bil":
        return f"{a[1]}({show_key(a[2])}, {show_key(a[3])})"
    if tag == "lin":
        fixed = ", ".join(show_key(k) for k in a[2])
        return f"{a[1]}[{fixed}]({show_key(a[3])})" if fixed else f"{a[1]}({show_key(a[3])})"
    if tag in ("col", "row", "T"):
        return f"{tag}({show_atom(a[1])})"
    if tag == "one":
        return "1"
    return repr(a)


def show_mono(m):
    if not m:
        return "1"
    return "*".join(show_atom(a) if e == 1 else f"{show_atom(a)}^{e}" for a, e in m)


def show_poly(p):
    if p.is_zero():
        return "0"
    parts = []
    for m, c in sorted(p.terms.items(), key=lambda mc: repr(mc[0])):
        if m == ():
            parts.append(str(c))
        elif c == 1:
            parts.append(show_mono(m))
        elif c == -1:
            parts.append("-" + show_mono(m))
        else:
            parts.append(f"{c}*{show_mono(m)}")
    return " + ".join(parts).replace("+ -", "- ")


def show_key(k):
    """Pretty-print a key produced by Rat.key()/mono keys."""
    if k == ONE_KEY:
        return "1"
    if isinstance(k, tuple) and len(k) == 3 and k[0] == "rat":
        n, d = Poly(dict(k[1])), Poly(dict(k[2]))
        if d == Poly.const(1):
            return show_poly(n)
        return f"({show_poly(n)})/({show_poly(d)})"
    if isinstance(k, tuple) and k and k[0] == "mono":
        return show_mono(k[1])
    if isinstance(k, tuple) and k and k[0] == "tuple":
        return "(" + ", ".join(show_key(z) for z in k[1:]) + ")"
    if isinstance(k, tuple) and len(k) == 2 and k[0] == "py":
        return repr(k[1])
    return repr(k)


class Rat:
    """num/den with Poly num, den.  `den` is kept monomial-free where possible (monomial denominators are folded into
    the Laurent numerator)."""
    __slots__ = ("num", "den")

    def __init__(self, num, den=None):
        if den is None:
            den = Poly.const(1)
        if den.is_zero():
            raise AnalysisError("division by an identically zero expression")
        if den.is_monomial():
            num = num * den.pow(-1)
            den = Poly.const(1)
        self.num, self.den = num, den

    @staticmethod
    def const(c):
        return Rat(Poly.const(c))

    @staticmethod
    def atom(a):
        return Rat(Poly.atom(a))

    @staticmethod
    def lift(x):
        if isinstance(x, Rat):
            return x
        if isinstance(x, Poly):
            return Rat(x)
        return Rat.const(x)

    def is_poly(self):
        return self.den == Poly.const(1)

    def is_zero(self):
        return reduce_sqrt(self).num.is_zero()

    def __add__(self, o):
        o = Rat.lift(o)
        if self.den == o.den:
            return Rat(self.num + o.num, self.den)
        return Rat(self.num * o.den + o.num * self.den, self.den * o.den)

    __radd__ = __add__

    def __neg__(self):
        return Rat(-self.num, self.den)

    def __sub__(self, o):
        return self + (-Rat.lift(o))

    def __rsub__(self, o):
        return Rat.lift(o) - self

    def __mul__(self, o):
        o = Rat.lift(o)
        return Rat(self.num * o.num, self.den * o.den)

    __rmul__ = __mul__

    def inv(self):
        if self.num.is_zero():
            raise AnalysisError("division by an identically zero expression")
        return Rat(self.den, self.num)

    def __truediv__(self, o):
        return self * Rat.lift(o).inv()

    def __rtruediv__(self, o):
        return Rat.lift(o) * self.inv()

    def __pow__(self, k):
        k = frac(k) if not isinstance(k, int) else Fraction(k)
        if k.denominator == 2:
            return sqrt_of(self) ** int(k.numerator)
        if k.denominator != 1:
            raise AnalysisError(f"unsupported exponent {k}")
        k = int(k)
        if k >= 0:
            return Rat(self.num.pow(k), self.den.pow(k))
        return (self ** (-k)).inv()

    def atoms(self):
        return self.num.atoms() | self.den.atoms()

    def key(self):
        r = reduce_sqrt(self)
        num, den = r.num, r.den
        if not den.is_const():
            # make the representation as canonical as cheaply possible: leading coefficient of den = 1
            lead = sorted(den.terms.items(), key=lambda mc: repr(mc[0]))[0][1]
            num, den = num.scale(1 / lead), den.scale(1 / lead)
        else:
            num, den = num.scale(1 / den.const_value()), Poly.const(1)
        return ("rat", num.key(), den.key())

    def const_value(self):
        r = reduce_sqrt(self)
        if r.num.is_const() and r.den.is_const():
            return r.num.const_value() / r.den.const_value()
        return None

    def __repr__(self):
        r = reduce_sqrt(self)
        if r.den == Poly.const(1):
            return show_poly(r.num)
        return f"({show_poly(r.num)}) / ({show_poly(r.den)})"


def _numeric(x):
    return isinstance(x, (Rat, Poly, Fraction, int, float)) and not isinstance(x, bool)


def equal(a, b):
    if not _numeric(a) or not _numeric(b):
        if isinstance(a, (tuple, list)) and isinstance(b, (tuple, list)):
            return len(a) == len(b) and all(equal(x, y) for x, y in zip(a, b))
        return a is b or (type(a) is type(b) and not _numeric(a) and a == b)
    a, b = Rat.lift(a), Rat.lift(b)
    d = Rat(a.num * b.den - b.num * a.den)
    return reduce_sqrt(d).num.is_zero()


# ---------------------------------------------------------------------------------------------- square roots
_SQRT_RADICANDS = {}     # atom -> Rat radicand


def sqrt_of(x):
    x = Rat.lift(x)
    c = x.const_value()
    if c is not None:
        if c < 0:
            raise AnalysisError("square root of a negative constant")
        # perfect squares of rationals
        import math
        n, d = c.numerator, c.denominator
        rn, rd = math.isqrt(n), math.isqrt(d)
        if rn * rn == n and rd * rd == d:
            return Rat.const(Fraction(rn, rd))
    k = x.key()
    scalar = all(is_scalar_atom(a) for a in x.atoms())
    atom = ("sqrt", k, scalar)
    _SQRT_RADICANDS[atom] = x
    return Rat.atom(atom)


def reduce_sqrt(r):
    """Rewrite every power s^k of a sqrt atom to radicand^(k//2) * s^(k%2), in numerator and denominator."""
    r = Rat.lift(r)
    if not any(a[0] == "sqrt" for a in r.atoms()):
        return r
    return _reduce_poly(r.num) / _reduce_poly(r.den)


def _reduce_poly(p):
    """Poly -> Rat with sqrt exponents in {0, 1}."""
    total = Rat.const(0)
    plain = Poly()
    for m, c in p.terms.items():
        if not any(a[0] == "sqrt" and e not in (0, 1) for a, e in m):
            plain = plain + Poly({m: c})
            continue
        term = Rat.const(c)
        rest = []
        for a, e in m:
            if a[0] == "sqrt" and e not in (0, 1):
                q, rem = divmod(e, 2)     # floor division: e = 2q + rem, rem in {0,1}
                rad = _SQRT_RADICANDS.get(a)
                if rad is None:
                    raise AnalysisError("sqrt atom without a recorded radicand")
                term = term * (reduce_sqrt(rad) ** q)
                if rem:
                    rest.append((a, 1))
            else:
                rest.append((a, e))
        term = term * Rat(Poly({tuple(rest): Fraction(1)}))
        total = total + term
    total = total + Rat(plain)
    # the substitution may have produced new even powers (nested); iterate to a fixed point
    if any(a[0] == "sqrt" and e not in (0, 1) for m in total.num.terms for a, e in m) or \
            any(a[0] == "sqrt" and e not in (0, 1) for m in total.den.terms for a, e in m):
        return _reduce_poly(total.num) / _reduce_poly(total.den)
    return total


# ---------------------------------------------------------------------------------------------- linear expansions
def split_scalar(m):
    """monomial -> (scalar part, tensor part)"""
    s = tuple((a, e) for a, e in m if is_scalar_atom(a))
    t = tuple((a, e) for a, e in m if not is_scalar_atom(a))
    return s, t


def mono_key(m):
    return ("mono", m) if m else ONE_KEY


def _need_poly_with_scalar_den(x, what):
    x = reduce_sqrt(Rat.lift(x))
    if not all(is_scalar_atom(a) for a in x.den.atoms()):
        raise AnalysisError(f"{what}: argument has a tensor-valued denominator, outside the linear fragment")
    return x


def bilinear(name, a, b, symmetric=False):
    """Opaque bilinear function expanded by linearity in both arguments (scalars are pulled out)."""
    a = _need_poly_with_scalar_den(a, name)
    b = _need_poly_with_scalar_den(b, name)
    out = Poly()
    for m1, c1 in a.num.terms.items():
        s1, t1 = split_scalar(m1)
        for m2, c2 in b.num.terms.items():
            s2, t2 = split_scalar(m2)
            k1, k2 = mono_key(t1), mono_key(t2)
            if symmetric and repr(k2) < repr(k1):
                k1, k2 = k2, k1
            atom = ("bil", name, k1, k2)
            out = out + Poly({_mono_mul(_mono_mul(s1, s2), ((atom, 1),)): c1 * c2})
    return Rat(out, a.den * b.den)


def linear(name, fixed_keys, v):
    """Opaque function linear in `v` (scalars pulled out); fixed_keys identify the other arguments."""
    v = _need_poly_with_scalar_den(v, name)
    out = Poly()
    for m, c in v.num.terms.items():
        s, t = split_scalar(m)
        atom = ("lin", name, tuple(fixed_keys), mono_key(t))
        out = out + Poly({_mono_mul(s, ((atom, 1),)): c})
    return Rat(out, v.den)


def fn(name, *args):
    """Opaque function value keyed by canonical arguments."""
    keys = []
    for a in args:
        if isinstance(a, (Rat, Poly, int, float, Fraction)):
            keys.append(Rat.lift(a).key())
        elif isinstance(a, (str, type(None), bool)):
            keys.append(("py", a))
        elif isinstance(a, tuple):
            keys.append(("tuple",) + tuple(Rat.lift(x).key() if isinstance(x, (Rat, Poly, int, float, Fraction))
                                           else ("py", x) for x in a))
        else:
            raise AnalysisError(f"cannot key argument {a!r} of opaque function {name}")
    return Rat.atom(("fn", name) + tuple(keys))


def sym(name, scalar=False):
    return Rat.atom(("s" if scalar else "t", name))


def map_atoms(x, f):
    """Apply an atom -> Rat substitution homomorphically (used for axis wrappers and substitutions)."""
    x = Rat.lift(x)

    def mp(p):
        total = Rat.const(0)
        for m, c in p.terms.items():
            term = Rat.const(c)
            for a, e in m:
                term = term * (f(a) ** e)
            total = total + term
        return total
    return mp(x.num) / mp(x.den)


def wrap_axis(x, tag):
    """unsqueeze(-1) -> 'col', unsqueeze(-2) -> 'row': wrap every tensor atom."""
    def f(a):
        if is_scalar_atom(a):
            return Rat.atom(a)
        if a[0] in ("col", "row"):
            raise AnalysisError("nested axis wrappers are outside the fragment")
        if a[0] == "sqrt":
            return sqrt_of(wrap_axis(_SQRT_RADICANDS[a], tag))
        return Rat.atom((tag, a))
    return map_atoms(x, f)


def transpose(x):
    """swap the last two axes: col <-> row; matrix atoms get a 'T' wrapper (involutive)."""
    def f(a):
        if is_scalar_atom(a):
            return Rat.atom(a)
        if a[0] == "col":
            return Rat.atom(("row", a[1]))
        if a[0] == "row":
            return Rat.atom(("col", a[1]))
        if a[0] == "T":
            return Rat.atom(a[1])
        if a[0] == "sqrt":
            return sqrt_of(transpose(_SQRT_RADICANDS[a]))
        return Rat.atom(("T", a))
    return map_atoms(x, f)


def substitute(x, table):
    """table: atom -> Rat"""
    return map_atoms(x, lambda a: table.get(a, Rat.atom(a)))


def deep_substitute(x, table):
    """Like substitute, but also inside the arguments of opaque functions / bilinear / linear atoms."""
    return rewrite(x, lambda a, args: table.get(a))


def coefficient_of(x, atom):
    """Coefficient Rat of the first power of `atom` in polynomial x (x must be a polynomial in that atom)."""
    x = reduce_sqrt(Rat.lift(x))
    out = Poly()
    for m, c in x.num.terms.items():
        d = dict(m)
        if d.get(atom, 0) == 1:
            out = out + Poly({tuple((a, e) for a, e in m if a != atom): c})
    return Rat(out, x.den)


def degree_in(x, atom):
    x = reduce_sqrt(Rat.lift(x))
    return max([dict(m).get(atom, 0) for m in x.num.terms] + [0])


def key_to_rat(k):
    """Inverse of Rat.key() / mono_key()."""
    if k == ONE_KEY:
        return Rat.const(1)
    if isinstance(k, tuple) and k and k[0] == "mono":
        return Rat(Poly({k[1]: Fraction(1)}))
    if isinstance(k, tuple) and len(k) == 3 and k[0] == "rat":
        return Rat(Poly(dict(k[1])), Poly(dict(k[2])))
    raise AnalysisError(f"not a value key: {k!r}")


def rewrite(x, f):
    """Bottom-up rewriting of atoms, rebuilding bilinear / linear / function atoms from their rewritten arguments.
    f(atom, args) is called with the already rewritten arguments (list of Rat for 'fn'; (a, b) for 'bil'; (fixed,
    v) for 'lin') and returns a Rat, or None for the default reconstruction."""
    memo = {}

    def rw_atom(a):
        if a in memo:
            return memo[a]
        tag = a[0]
        if tag == "fn":
            args = []
            for k in a[2:]:
                if isinstance(k, tuple) and k and k[0] == "rat":
                    args.append(rw(key_to_rat(k)))
                elif isinstance(k, tuple) and k and k[0] == "py":
                    args.append(k[1])
                elif isinstance(k, tuple) and k and k[0] == "tuple":
                    args.append(tuple(rw(key_to_rat(z)) if z[0] == "rat" else z[1] for z in k[1:]))
                else:
                    raise AnalysisError(f"cannot decode key {k!r}")
            r = f(a, args)
            out = r if r is not None else fn(a[1], *args)
        elif tag == "bil":
            aa, bb = rw(key_to_rat(a[2])), rw(key_to_rat(a[3]))
            r = f(a, (aa, bb))
            out = r if r is not None else bilinear(a[1], aa, bb)
        elif tag == "lin":
            fixed = [rw(key_to_rat(k)) if (isinstance(k, tuple) and k and k[0] == "rat") else k for k in a[2]]
            v = rw(key_to_rat(a[3]))
            r = f(a, (fixed, v))
            if r is not None:
                out = r
            else:
                out = linear(a[1], [z.key() if isinstance(z, Rat) else z for z in fixed], v)
        elif tag == "sqrt":
            rad = rw(_SQRT_RADICANDS[a])
            r = f(a, [rad])
            out = r if r is not None else sqrt_of(rad)
        elif tag in ("col", "row", "T"):
            inner = rw_atom(a[1])
            r = f(a, [inner])
            if r is not None:
                out = r
            else:
                out = wrap_axis(inner, tag) if tag != "T" else transpose(inner)
        else:
            r = f(a, [])
            out = r if r is not None else Rat.atom(a)
        memo[a] = out
        return out

    def rw(v):
        return map_atoms(v, rw_atom)
    return rw(Rat.lift(x))


def all_atoms(x):
    """Every atom occurring in x, including those nested inside keys."""
    seen = set()

    def visit_key(k):
        if isinstance(k, tuple) and k and k[0] in ("rat", "mono"):
            for a in key_to_rat(k).atoms():
                visit(a)
        elif isinstance(k, tuple) and k and k[0] == "tuple":
            for z in k[1:]:
                visit_key(z)

    def visit(a):
        if a in seen:
            return
        seen.add(a)
        tag = a[0]
        if tag == "fn":
            for k in a[2:]:
                visit_key(k)
        elif tag == "bil":
            visit_key(a[2])
            visit_key(a[3])
        elif tag == "lin":
            for k in a[2]:
                visit_key(k)
            visit_key(a[3])
        elif tag == "sqrt":
            visit_key(a[1])
        elif tag in ("col", "row", "T"):
            visit(a[1])
    for a in Rat.lift(x).atoms():
        visit(a)
    return seen
