"""Enumeration of the solver step bodies reachable through ``methods.select`` and their canonical forms."""
from fractions import Fraction

from .. import astq, nf
from ..errors import AnalysisError
from ..interp import Interp, SimRaise
from ..nf import Rat
from . import solverkit, solvers


class Scenario:
    def __init__(self, cls, sde_type, noise_type, levy, step_fi, options, obj):
        self.cls, self.sde_type, self.noise_type, self.levy = cls, sde_type, noise_type, levy
        self.step_fi, self.options, self.obj = step_fi, options, obj

    @property
    def label(self):
        opts = ",".join(f"{k}={v}" for k, v in sorted(self.options.items()) if v) if self.options else ""
        return f"{self.cls.name}.{self.step_fi.name}[{self.noise_type}{';' + opts if opts else ''}]"


def scenarios(model, dom, include_adjoint=False):
    """One scenario per (solver class, accepted noise type, option variant) for non-adjoint SDEs."""
    classes, _ = solvers.solver_classes(model, dom)
    out = []
    for cls in classes:
        it = Interp(model, solvers.QuietHooks())
        from ..interp import ClassRef
        try:
            sde_type = it.getattr(ClassRef(cls), "sde_type")
        except SimRaise:
            raise AnalysisError(f"solver class {cls.name} has no class attribute sde_type", where=cls.module.relpath)
        for nt in dom.noise_types.values():
            for opt in ({}, {dom.options.get("grad_free", "grad_free"): True}):
                obj = None
                for levy in (dom.levy.get("foster"), dom.levy.get("space_time"), dom.levy.get("none")):
                    sde = solvers.make_sde_obj(model, sde_type, nt)
                    bm = solvers.make_bm_obj(levy, 1 if nt == dom.noise_types.get("scalar") else 3)
                    try:
                        obj = solvers.instantiate(model, cls, sde, bm, opt)
                        break
                    except SimRaise:
                        obj = None
                if obj is None:
                    continue
                eff = {k: v for k, v in (obj.attrs.get("options") or {}).items()}
                if opt and not any(eff.get(k) for k in opt):
                    continue           # the option variant collapsed to the default (e.g. additive noise)
                step_fi = solvers.step_function(model, obj)
                if opt and not _reads_options(step_fi):
                    continue           # this step body never looks at the options
                out.append(Scenario(cls, sde_type, nt, levy, step_fi, eff, obj))
    return out


def _reads_options(fi):
    import ast
    return any(isinstance(n, ast.Attribute) and n.attr == "options" for n in ast.walk(fi.node))


def distinct_step_scenarios(model, dom):
    """Scenarios deduplicated by (step function, effective options, scalar-noise or not)."""
    seen, out = set(), []
    for sc in scenarios(model, dom):
        key = (sc.cls.key, sc.step_fi.key, tuple(sorted((k, bool(v)) for k, v in sc.options.items())),
               sc.noise_type == dom.noise_types.get("scalar"))
        if key in seen:
            continue
        seen.add(key)
        out.append(sc)
    return out


def eval_step(model, sc, dom, extra0="invariant", sde=None, bm=None, log=None, warm=False):
    """Canonical form (y1, extra1, bm-call log) of one step from (t0, y0) to t1 = t0 + h.  With `warm`, the same
    abstract solver object first takes another step from different inputs (hidden-state probe)."""
    t0, h, t1, y0 = solverkit.symbols()
    log = log if log is not None else solverkit.BMLog()
    sde = sde or solverkit.make_sde()
    sde.attrs["sde_type"], sde.attrs["noise_type"] = sc.sde_type, sc.noise_type
    bm = bm or solverkit.make_bm(log)
    g_ndim = 3 if sc.noise_type == dom.noise_types.get("scalar") else 2
    it = Interp(model, solverkit.StepHooks(g_ndim))
    so = solverkit.solver_obj(model, sc.cls, sde, bm, dict(sc.options))
    if extra0 == "invariant":
        init = model.lookup_method(sc.cls, "init_extra_solver_state")
        z0 = nf.sym("z0")
        try:
            ex = it.call_function(init, [so, t0, z0], {})
        except SimRaise:
            ex = ()
        extra0 = tuple(ex)
    if warm:
        ta, ha, ya = nf.sym("t_first", True), nf.sym("h_first", True), nf.sym("y_first")
        try:
            exa = tuple(it.call_function(model.lookup_method(sc.cls, "init_extra_solver_state"), [so, ta, ya], {}))
        except SimRaise:
            exa = ()
        it.call_function(sc.step_fi, [so, ta, ta + ha, ya, exa], {})
    y1, extra1 = it.call_function(sc.step_fi, [so, t0, t1, y0, extra0], {})
    # a step body that asks for the autograd mode is evaluated in the other mode too: it must compute the same thing
    import ast as _ast
    if any(isinstance(n, _ast.Attribute) and n.attr == "is_grad_enabled" for n in _ast.walk(sc.step_fi.node)):
        it2 = Interp(model, solverkit.StepHooks(g_ndim, grad_mode=False))
        so2 = solverkit.solver_obj(model, sc.cls, sde, solverkit.make_bm(solverkit.BMLog()), dict(sc.options))
        y1b, extra1b = it2.call_function(sc.step_fi, [so2, t0, t1, y0, extra0], {})
        if not (nf.equal(y1, y1b) and nf.equal(tuple(extra1), tuple(extra1b))):
            raise AnalysisError(f"{sc.label}: the step computes different values with autograd switched off "
                                f"(`{y1b}` instead of `{y1}`)", where=astq.loc(sc.step_fi))
    return y1, extra1, log, (t0, h, t1, y0)


def collapse(x):
    """First-order collapse: every drift / diffusion evaluation is replaced by the base-point value F0 / G0, the
    reversible-Heun auxiliary state z0 by y0; correction atoms (GDG, DGGA) keep their identity but lose their
    evaluation point."""
    F0, G0, y0 = nf.sym("F0"), nf.sym("G0"), nf.sym("y0")

    def f(a, args):
        if a[0] == "fn" and a[1] == "F":
            return F0
        if a[0] == "fn" and a[1] == "G":
            return G0
        if a[0] == "t" and a[1] == "z0":
            return y0
        if a[0] == "lin" and a[1] in ("GDG", "DGGA"):
            return nf.linear(a[1] + "0", (), args[1])
        return None
    return nf.rewrite(x, f)
