"""C07 -- Brownian objects answer every valid query: bounded stack, slot typestate, positive refinement bound,
bounded cache, sub-tolerance queries short-circuited.  (DESIGN.md section C07.)"""
import ast
import itertools
from fractions import Fraction

from .. import astq
from ..errors import AnalysisError
from ..intervals import IntervalEval, Iv, INF
from ..model import own_nodes
from ..callgraph import STACK_KINDS

BI = "torchsde/_brownian/brownian_interval.py"
DERIVED = "torchsde/_brownian/derived.py"
SDEINT = "torchsde/_core/sdeint.py"

EXPLANATION = (
    "Static analysis of torchsde/_brownian (ast only, nothing imported or run). R07.1: the resolved stack-edge call "
    "graph of the package (direct, by-name, slot, callback, operator-protocol, property and trampoline-driver edges; "
    "generator creation under yield/TailCall pushes no frame; delegation to a constructor-injected object excluded) "
    "must be acyclic, which bounds the Python stack for every query history; the longest frame chain is reported. "
    "R07.2: every read of a slot that exists only on split nodes is on the parent, under a dominating "
    "`_midway is not None`, or after a call on the same receiver that must write the slot (must-write analysis). "
    "R07.3: interval analysis shows the dependency-tree piece length is strictly positive on the documented option "
    "domain. R07.4: path enumeration of _LRUDict.__setitem__ over a small model shows the entry count never exceeds "
    "max_size; the cache slot is only subscripted; the constructor maps None/0/n to dict/_EmptyDict/_LRUDict(n). "
    "R07.5: the zero-length shortcut of BrownianInterval.__call__ is taken on quantised times, so a query shorter "
    "than the tolerance never reaches the tree search. R07.6: sdeint's default Brownian motion spans [ts[0], ts[-1]]. "
    "Not decided: termination of the trampolined search and of the while-loops in general."
)


# ------------------------------------------------------------------------------------------------ R07.1
def r07_1(ctx, scope="torchsde._brownian"):
    rep = ctx.rep
    rep.rule("R07.1", "stack-edge call graph of torchsde/_brownian is acyclic (bounded Python stack)")
    cg = ctx.callgraph()
    rep.call_sites += cg.n_calls
    in_scope = [f for f in cg.funcs if f.module.name.startswith(scope)]
    if len(in_scope) < 40:
        raise AnalysisError(f"only {len(in_scope)} functions found under {scope}; expected the Brownian package")
    cyc = cg.cycles(kinds=STACK_KINDS, restrict=lambda f: f.module.name.startswith(scope))
    on_cycle = {}
    for comp, inner in cyc:
        for f in comp:
            on_cycle[f.key] = (comp, inner)
    for f in in_scope:
        rep.analysed(f)
        construct = f"{f.key}::R07.1::stack-cycle"
        if f.key in on_cycle:
            comp, inner = on_cycle[f.key]
            sites = sorted({f"{astq.loc(e.src, e.node)} {e.text}" for e in inner if e.src is f})
            rep.fail("R07.1", astq.loc(f), construct,
                     f"{f.qualname} lies on a call cycle through real stack frames "
                     f"({' -> '.join(x.qualname for x in comp)}): stack depth grows with the data; call sites: "
                     + "; ".join(sites), facts={"cycle": [x.qualname for x in comp], "sites": sites})
        else:
            rep.ok("R07.1", astq.loc(f), construct)
    if not cyc:
        roots = [f for f in in_scope if f.name in ("__call__", "__init__")]
        depth, chain = cg.longest_chain(roots)
        rep.extra["longest_stack_chain"] = {"frames": depth, "chain": [k.split("::")[1] for k in chain]}
    # trampolined / delegation edges, listed so that the exclusions are visible
    rep.extra["trampolined_edges"] = sorted({f"{e.src.qualname} ~> {e.dst.qualname}" for e in cg.edges
                                             if e.kind == "gen-create" and e.src.module.name.startswith(scope)})
    rep.extra["delegation_edges_excluded"] = sorted({f"{e.src.qualname} -> {e.dst.qualname}" for e in cg.edges
                                                     if e.kind == "delegation"
                                                     and e.src.module.name.startswith(scope)
                                                     and e.dst.module.name.startswith(scope)
                                                     and e.dst.name == "__call__"})
    ctx.floor("R07.1", 40)


# ------------------------------------------------------------------------------------------------ R07.2
def interval_classes(model):
    base = model.cls(BI, "_Interval")
    return base, model.subclasses(base)


def split_only_slots(model):
    """Slots of _Interval that __init__ does not write: they exist only once the node has been split."""
    base = model.cls(BI, "_Interval")
    if not base.slots:
        raise AnalysisError("_Interval.__slots__ is not a literal tuple", where=BI)
    init = base.methods.get("__init__")
    if init is None:
        raise AnalysisError("_Interval.__init__ vanished", where=BI)
    written = set()
    for n in own_nodes(init.node):
        if isinstance(n, ast.Attribute) and isinstance(n.ctx, ast.Store) and isinstance(n.value, ast.Name) \
                and n.value.id == init.params[0]:
            written.add(n.attr)
    return [s for s in base.slots if s not in written], sorted(written)


_EXIT = object()


class MustWrite:
    """must_write(method, slot): on every normal exit of `method` (return, fall-through, or a trampoline tail call,
    which is a continuation and not an exception) ``self.<slot>`` has been written -- directly, or through a call on
    self / an alias of self whose every override must-writes the slot.  Exceptional exits are ignored."""

    def __init__(self, model, classes):
        self.model = model
        self.classes = classes
        self.memo = {}

    def impls(self, name):
        out = []
        for c in self.classes:
            m = self.model.lookup_method(c, name)
            if m is not None and m not in out:
                out.append(m)
        return out

    def method(self, m, slot):
        key = (m.key, slot)
        if key in self.memo:
            return self.memo[key]
        self.memo[key] = False   # recursion guard: assume not
        if not m.params or isinstance(m.node, ast.Lambda):
            return False
        exits = []
        st = self._blk(m.node.body, {m.params[0]}, False, slot, exits, None)
        if st is not _EXIT:
            exits.append(st)
        res = bool(exits) and all(exits)
        self.memo[key] = res
        return res

    def call_writes(self, call, aliases, slot):
        f = call.func
        if isinstance(f, ast.Attribute) and isinstance(f.value, ast.Name) and f.value.id in aliases:
            impls = self.impls(f.attr)
            return bool(impls) and all(self.method(i, slot) for i in impls)
        return False

    def _expr_writes(self, expr, aliases, slot):
        return any(isinstance(n, ast.Call) and self.call_writes(n, aliases, slot) for n in ast.walk(expr))

    def _blk(self, stmts, aliases, w, slot, exits, breaks):
        for s in stmts:
            if isinstance(s, ast.Return):
                if s.value is not None and self._expr_writes(s.value, aliases, slot):
                    w = True
                exits.append(w)
                return _EXIT
            if isinstance(s, ast.Raise):
                exc = s.exc
                if isinstance(exc, ast.Call) and astq.dotted(exc.func) == "trampoline.TailCall":
                    exits.append(w or self._expr_writes(exc, aliases, slot))
                return _EXIT
            if isinstance(s, ast.Break):
                if breaks is not None:
                    breaks.append(w)
                return _EXIT
            if isinstance(s, ast.Continue):
                return _EXIT
            if isinstance(s, ast.Assign):
                if self._expr_writes(s.value, aliases, slot):
                    w = True
                for t in s.targets:
                    for el in ([t] if not isinstance(t, ast.Tuple) else t.elts):
                        if isinstance(el, ast.Attribute) and isinstance(el.value, ast.Name) \
                                and el.value.id in aliases and el.attr == slot:
                            w = True
                        if isinstance(el, ast.Name):
                            if isinstance(s.value, ast.Name) and s.value.id in aliases and len(s.targets) == 1:
                                aliases.add(el.id)
                            else:
                                aliases.discard(el.id)
                continue
            if isinstance(s, ast.Expr):
                if self._expr_writes(s.value, aliases, slot):
                    w = True
                continue
            if isinstance(s, ast.If):
                a1, a2 = set(aliases), set(aliases)
                w1 = self._blk(s.body, a1, w, slot, exits, breaks)
                w2 = self._blk(s.orelse, a2, w, slot, exits, breaks)
                if w1 is _EXIT and w2 is _EXIT:
                    return _EXIT
                if w1 is _EXIT:
                    w = w2
                    aliases.intersection_update(a2)
                elif w2 is _EXIT:
                    w = w1
                    aliases.intersection_update(a1)
                else:
                    w = w1 and w2
                    aliases.intersection_update(a1 & a2)
                continue
            if isinstance(s, ast.While) and isinstance(s.test, ast.Constant) and s.test.value is True:
                # the body runs at least once; `w` only ever grows, so the states at the breaks of the first
                # iteration bound the state at loop exit from below
                inner_breaks = []
                self._blk(s.body, set(aliases), w, slot, exits, inner_breaks)
                for d in astq._stored_names([s]):
                    aliases.discard(d)
                if not inner_breaks:
                    return _EXIT       # leaves only through return / tail call (already recorded)
                w = all(inner_breaks)
                continue
            if isinstance(s, (ast.While, ast.For)):
                # may run zero times: collect exits inside, state after the loop is the state before it
                self._blk(s.body, set(aliases), w, slot, exits, [])
                for d in astq._stored_names([s]):
                    aliases.discard(d)
                continue
            if isinstance(s, ast.Try):
                self._blk(s.body, set(aliases), w, slot, exits, breaks)
                for h in s.handlers:
                    self._blk(h.body, set(aliases), w, slot, exits, breaks)
                for d in astq._stored_names([s]):
                    aliases.discard(d)
                continue
            if isinstance(s, ast.With):
                r = self._blk(s.body, aliases, w, slot, exits, breaks)
                if r is _EXIT:
                    return _EXIT
                w = r
                continue
        return w


def _exits_by_raise(stmts):
    return bool(stmts) and isinstance(stmts[-1], ast.Raise)


def _receiver_text(expr):
    return astq.dotted(expr) or ast.unparse(expr)


def r07_2(ctx):
    rep, model = ctx.rep, ctx.model
    rep.rule("R07.2", "slots that exist only on split nodes are read only on a parent, under `_midway is not None`, "
                      "or after a call that must write them on the same receiver")
    slots, init_slots = split_only_slots(model)
    need = {"_left_child", "_right_child", "_W_seed", "_H_seed"}
    if not need <= set(slots):
        raise AnalysisError(f"split-only slots {slots} no longer include {sorted(need - set(slots))}: the node "
                            f"layout changed, R07.2 needs review", where=BI)
    base, fam = interval_classes(model)
    mw = MustWrite(model, fam)
    rep.extra["split_only_slots"] = slots
    for fi in model.functions.values():
        if isinstance(fi.node, ast.Lambda):
            continue
        reads = [n for n in own_nodes(fi.node) if isinstance(n, ast.Attribute) and isinstance(n.ctx, ast.Load)
                 and n.attr in slots]
        if not reads:
            continue
        rep.analysed(fi)
        # aliases of `<x>._parent` inside this function:  parent = self._parent
        parent_aliases = set()
        for n in own_nodes(fi.node):
            if isinstance(n, ast.Assign) and len(n.targets) == 1 and isinstance(n.targets[0], ast.Name) \
                    and isinstance(n.value, ast.Attribute) and n.value.attr == "_parent":
                if len(astq.assignments_to(fi, n.targets[0].id)) == 1:
                    parent_aliases.add(n.targets[0].id)
        for rd in reads:
            recv = rd.value
            rtext = _receiver_text(recv)
            construct = f"{fi.key}::R07.2::{rtext}.{rd.attr}"
            why = None
            # (i) receiver is somebody's parent
            if (isinstance(recv, ast.Attribute) and recv.attr == "_parent") or \
                    (isinstance(recv, ast.Name) and recv.id in parent_aliases):
                why = "receiver is a parent node (a node with a child has been split)"
            # (ii) dominated by `<recv>._midway is not None`
            if why is None:
                for cond, pol, kind in astq.path_conditions(fi, rd):
                    if _is_midway_test(cond, rtext) is not None:
                        is_none = _is_midway_test(cond, rtext)
                        if (is_none and not pol) or (not is_none and pol):
                            why = f"dominated by `{astq.cond_text(cond, pol)}` ({kind})"
                            break
            # (iii) after a call on the same receiver that must write the slot
            if why is None:
                why = _after_must_write(fi, rd, recv, rtext, mw)
            # (iv) the method itself is only ever the continuation of a must-write on self: self.<slot> read inside
            #      a method that wrote it earlier on every path (covered by (iii) through direct stores)
            if why is None:
                why = _after_direct_store(fi, rd, rtext)
            # (v) lemma L-loc: `x._loc(x._start, m)` with x._start < m < x._end leaves x split
            if why is None:
                why = _after_interior_loc(model, fi, rd, rtext, mw)
            if why:
                rep.ok("R07.2", astq.loc(fi, rd), construct, why)
            else:
                rep.fail("R07.2", astq.loc(fi, rd), construct,
                         f"`{rtext}.{rd.attr}` is read although nothing on the path guarantees that `{rtext}` has "
                         f"been split (slot `{rd.attr}` is only created by a split): AttributeError on an unsplit node")
    ctx.floor("R07.2", 18)


def _is_midway_test(cond, rtext):
    """`<rtext>._midway is None` -> True ; `... is not None` -> False ; else None."""
    if isinstance(cond, ast.Compare) and len(cond.ops) == 1 and isinstance(cond.ops[0], (ast.Is, ast.IsNot)) \
            and isinstance(cond.comparators[0], ast.Constant) and cond.comparators[0].value is None:
        d = astq.dotted(cond.left)
        if d == f"{rtext}._midway":
            return isinstance(cond.ops[0], ast.Is)
    return None


def _stmt_chain(fi, target):
    """[(block, index)] from the outermost block down to the statement containing target."""
    chain = []

    def rec(stmts):
        for i, s in enumerate(stmts):
            if any(n is target for n in ast.walk(s)):
                chain.append((stmts, i))
                for fld in ("body", "orelse", "finalbody"):
                    blk = getattr(s, fld, None)
                    if isinstance(blk, list) and blk and isinstance(blk[0], ast.stmt) and \
                            any(n is target for b in blk for n in ast.walk(b)):
                        rec(blk)
                        return
                if isinstance(s, ast.Try):
                    for h in s.handlers:
                        if any(n is target for b in h.body for n in ast.walk(b)):
                            rec(h.body)
                            return
                return
    rec(fi.node.body)
    return chain


def _after_must_write(fi, rd, recv, rtext, mw):
    root = astq.root_name(recv)
    chain = _stmt_chain(fi, rd)
    for stmts, idx in reversed(chain):
        for j in range(idx - 1, -1, -1):
            p = stmts[j]
            # receiver rebound between p and the read?
            if root in astq._stored_names(stmts[j:idx]) - set():
                rebound_later = root in astq._stored_names(stmts[j + 1:idx])
                if rebound_later:
                    break
            if isinstance(p, (ast.Expr, ast.Assign)):
                val = p.value
                for n in ast.walk(val):
                    if isinstance(n, ast.Call) and isinstance(n.func, ast.Attribute) \
                            and _receiver_text(n.func.value) == rtext:
                        impls = mw.impls(n.func.attr)
                        if impls and all(mw.method(i, rd.attr) for i in impls):
                            return (f"follows `{ast.unparse(n)[:50]}` on the same receiver, and every implementation "
                                    f"of `{n.func.attr}` must write `{rd.attr}`")
    return None


def _after_direct_store(fi, rd, rtext):
    chain = _stmt_chain(fi, rd)
    for stmts, idx in reversed(chain):
        for j in range(idx - 1, -1, -1):
            p = stmts[j]
            if isinstance(p, ast.Assign):
                for t in p.targets:
                    for el in ([t] if not isinstance(t, ast.Tuple) else t.elts):
                        if isinstance(el, ast.Attribute) and el.attr == rd.attr and _receiver_text(el.value) == rtext:
                            return f"follows the store `{ast.unparse(el)} = ...` in the same function"
    return None


def _loc_lemma_holds(model, mw):
    """Lemma L-loc, re-established from `_Interval._loc_inner` on every run: its body is (1) a pass-to-parent arm
    guarded by `ta < self._start or tb > self._end`, (2) an exact-match arm guarded by `ta == self._start and
    tb == self._end`, (3) a leaf arm `if self._midway is None:` every exit of which has split `self`; all later
    statements run only on nodes that are already split.  Hence a query (self._start, m) with
    self._start < m < self._end (arms 1 and 2 excluded) returns with `self` split."""
    fi = model.func(BI, "_Interval._loc_inner")
    ifs = [s for s in fi.node.body if isinstance(s, ast.If)]
    if len(ifs) < 3:
        return False
    t1, t2, t3 = (ast.unparse(x.test) for x in ifs[:3])
    sn = fi.params[0]
    ok1 = t1 in (f"ta < {sn}._start or tb > {sn}._end", f"tb > {sn}._end or ta < {sn}._start")
    ok2 = t2 in (f"ta == {sn}._start and tb == {sn}._end", f"tb == {sn}._end and ta == {sn}._start")
    ok3 = t3 == f"{sn}._midway is None"
    if not (ok1 and ok2 and ok3):
        return False
    for slot in ("_left_child", "_right_child"):
        exits = []
        st = mw._blk(ifs[2].body, {sn}, False, slot, exits, None)
        if st is not _EXIT:
            exits.append(st)
        if not exits or not all(exits):
            return False
    # the wrapper `_loc` must pass its (rounded) arguments straight to `_loc_inner` on self
    loc = model.func(BI, "_Interval._loc")
    calls = [c for c in astq.calls(loc) if isinstance(c.func, ast.Attribute) and c.func.attr == "_loc_inner"]
    return len(calls) == 1 and astq.dotted(calls[0].func.value) == loc.params[0]


def _after_interior_loc(model, fi, rd, rtext, mw):
    if rd.attr not in ("_left_child", "_right_child"):
        return None
    chain = _stmt_chain(fi, rd)
    for stmts, idx in reversed(chain):
        for j in range(idx - 1, -1, -1):
            p = stmts[j]
            if not isinstance(p, ast.Expr) or not isinstance(p.value, ast.Call):
                continue
            c = p.value
            if not (isinstance(c.func, ast.Attribute) and c.func.attr == "_loc"
                    and _receiver_text(c.func.value) == rtext and len(c.args) == 2):
                continue
            a, b = c.args

            def is_bound_to(expr, attr):
                if astq.dotted(expr) == f"{rtext}.{attr}":
                    return True
                if isinstance(expr, ast.Name):
                    binds = astq.assignments_to(fi, expr.id)
                    return len(binds) >= 1 and all(v is not None and astq.dotted(v) == f"{rtext}.{attr}"
                                                   for _, v in binds)
                return False
            if not is_bound_to(a, "_start"):
                continue
            # premise  start < b < end  among the path conditions of the call
            lo = hi = False
            for cond, pol, kind in astq.path_conditions(fi, c):
                if not pol or not isinstance(cond, ast.Compare):
                    continue
                items = [cond.left] + list(cond.comparators)
                for (x, op, y) in zip(items, cond.ops, items[1:]):
                    if isinstance(op, ast.Lt):
                        if is_bound_to(x, "_start") and ast.unparse(y) == ast.unparse(b):
                            lo = True
                        if ast.unparse(x) == ast.unparse(b) and is_bound_to(y, "_end"):
                            hi = True
                    if isinstance(op, ast.Gt):
                        if is_bound_to(y, "_start") and ast.unparse(x) == ast.unparse(b):
                            lo = True
                        if ast.unparse(y) == ast.unparse(b) and is_bound_to(x, "_end"):
                            hi = True
            if lo and hi and _loc_lemma_holds(model, mw):
                return (f"follows `{ast.unparse(c)}` under `{rtext}._start < {ast.unparse(b)} < {rtext}._end` "
                        f"(lemma L-loc: an interior query starting at the node's own start splits the node)")
    return None


# ------------------------------------------------------------------------------------------------ R07.3
def r07_3(ctx):
    rep, model = ctx.rep, ctx.model
    rep.rule("R07.3", "interval analysis: the dependency-tree piece length is strictly positive for cache_size in "
                      "{0,1,..} or None and dt > 0")
    fi = model.func(BI, "BrownianInterval._create_dependency_tree")
    rep.analysed(fi)
    # the piece length is the local that the refinement loop compares a node's length (`end - start`) against
    pl = None
    for w in [n for n in ast.walk(fi.node) if isinstance(n, ast.While)]:
        for c in [n for n in ast.walk(w) if isinstance(n, ast.Compare) and len(n.ops) == 1]:
            sides = [c.left, c.comparators[0]]
            subs = [x for x in sides if isinstance(x, ast.BinOp) and isinstance(x.op, ast.Sub)]
            names = [x for x in sides if isinstance(x, ast.Name)]
            if len(subs) == 1 and len(names) == 1 and isinstance(c.ops[0], (ast.Gt, ast.Lt, ast.GtE, ast.LtE)):
                pl = names[0].id
    if pl is None:
        raise AnalysisError("no `length > <piece length>` test in the refinement loop of _create_dependency_tree", where=astq.loc(fi))
    assigns = [a for a in astq.assignments_to(fi, pl)]
    if len(assigns) != 1 or assigns[0][1] is None:
        raise AnalysisError(f"expected exactly one assignment to the piece length `{pl}`", where=astq.loc(fi))
    target_stmt = assigns[0][0]
    results = {}
    for case, is_none in (("cache_size=None", True), ("cache_size in {0,1,2,...}", False)):
        def decide(test, env, is_none=is_none):
            t = ast.unparse(test)
            if t == "self._cache_size is None":
                return is_none
            if t == "self._cache_size is not None":
                return not is_none
            return None
        env = {"self._tree_dt": Iv(0.0, INF, lo_open=True), "dt": Iv(0.0, INF, lo_open=True)}
        if not is_none:
            env["self._cache_size"] = Iv(0.0, INF)
        ev = IntervalEval(env, fi, decide)
        # evaluate the statements up to and including the assignment
        body = fi.node.body
        idx = next((i for i, s in enumerate(body) if s is target_stmt), None)
        if idx is None:
            raise AnalysisError(f"`{pl}` is not assigned at the top level of _create_dependency_tree",
                                where=astq.loc(fi, target_stmt))
        ev.block([s for s in body[:idx + 1] if not (isinstance(s, ast.Expr) and isinstance(s.value, ast.Constant))])
        if pl not in ev.env:
            raise AnalysisError(f"interval analysis could not evaluate `{pl}`", where=astq.loc(fi, target_stmt))
        results[case] = ev.env[pl]
    for case, iv in results.items():
        construct = f"{fi.key}::R07.3::piece_length::{case}"
        rep.check(iv.positive(), "R07.3", astq.loc(fi, target_stmt), construct,
                  f"`{ast.unparse(target_stmt)}` has range {iv} for {case}: the piece length may be 0, so every "
                  f"interval is longer than it and the refinement never terminates",
                  f"range {iv} is strictly positive", facts={"range": repr(iv)})
    rep.assume("R07.3: dt > 0 and t1 > t0 (so _tree_dt > 0); cache_size is None or a non-negative integer "
               "(the documented domain)")
    # the refinement loop compares lengths against piece_length with a strict `>`
    cmps = [n for n in ast.walk(fi.node) if isinstance(n, ast.Compare)
            and any(isinstance(x, ast.Name) and x.id == pl for x in ast.walk(n))]
    for c in cmps:
        ok = len(c.ops) == 1 and ((isinstance(c.ops[0], ast.Gt) and astq.dotted(c.comparators[0]) == pl)
                                  or (isinstance(c.ops[0], ast.Lt) and astq.dotted(c.left) == pl))
        rep.check(ok, "R07.3", astq.loc(fi, c), f"{fi.key}::R07.3::refine-test",
                  f"refinement test `{ast.unparse(c)}` is not `length > piece_length`: nodes no longer than the "
                  f"piece length would still be refined", "refinement only while length > piece_length")
    ctx.floor("R07.3", 3)


# ------------------------------------------------------------------------------------------------ R07.4
def _paths(stmts):
    """Enumerate paths through a statement list built from if/elif/else, simple statements, return/raise.
    Yields (conds, events, terminated) with conds = [(test, polarity)], events = list of stmts in order."""
    if not stmts:
        yield [], [], False
        return
    s, rest = stmts[0], stmts[1:]
    if isinstance(s, ast.If):
        for pol, arm in ((True, s.body), (False, s.orelse)):
            for c1, e1, t1 in _paths(arm):
                if t1:
                    yield [(s.test, pol)] + c1, e1, True
                else:
                    for c2, e2, t2 in _paths(rest):
                        yield [(s.test, pol)] + c1 + c2, e1 + e2, t2
        return
    if isinstance(s, (ast.Return, ast.Raise)):
        yield [], [s], True
        return
    if isinstance(s, (ast.For, ast.While, ast.Try, ast.With)):
        raise AnalysisError(f"R07.4: unsupported statement in cache method: `{ast.unparse(s)[:50]}`")
    for c, e, t in _paths(rest):
        yield c, [s] + e, t


def _eval_guard(test, n, M, key_present, sname):
    """Concrete truth value of a guard over the small model (len(self)=n, max=M, key present?)."""
    def ev(e):
        if isinstance(e, ast.Constant) and isinstance(e.value, (int, float, bool)):
            return e.value
        if isinstance(e, ast.Call) and isinstance(e.func, ast.Name) and e.func.id == "len" and len(e.args) == 1:
            a = e.args[0]
            if isinstance(a, ast.Name) and a.id == sname:
                return n
            if astq.dotted(a) == f"{sname}._keys":
                return n
        if astq.dotted(e) == f"{sname}._max_size":
            return M
        if isinstance(e, ast.BinOp) and isinstance(e.op, (ast.Add, ast.Sub)):
            l, r = ev(e.left), ev(e.right)
            return l + r if isinstance(e.op, ast.Add) else l - r
        if isinstance(e, ast.UnaryOp) and isinstance(e.op, ast.Not):
            return not ev(e.operand)
        if isinstance(e, ast.BoolOp):
            vals = [ev(v) for v in e.values]
            return all(vals) if isinstance(e.op, ast.And) else any(vals)
        if isinstance(e, ast.Compare) and len(e.ops) == 1:
            op = e.ops[0]
            if isinstance(op, (ast.In, ast.NotIn)):
                if isinstance(e.comparators[0], ast.Name) and e.comparators[0].id == sname or \
                        astq.dotted(e.comparators[0]) == f"{sname}._keys":
                    return key_present if isinstance(op, ast.In) else not key_present
            else:
                l, r = ev(e.left), ev(e.comparators[0])
                return {ast.Lt: l < r, ast.LtE: l <= r, ast.Gt: l > r, ast.GtE: l >= r, ast.Eq: l == r,
                        ast.NotEq: l != r}[type(op)]
        raise AnalysisError(f"R07.4: guard `{ast.unparse(test)}` is outside the small-model fragment "
                            f"(sub-expression `{ast.unparse(e)}`)")
    return bool(ev(test))


def r07_4(ctx):
    rep, model = ctx.rep, ctx.model
    rep.rule("R07.4", "cache never exceeds its bound: path enumeration of _LRUDict.__setitem__ over a small model; "
                      "cache slot only subscripted; None/0/n -> dict/_EmptyDict/_LRUDict(n)")
    lru = model.cls(BI, "_LRUDict")
    setitem = lru.methods.get("__setitem__")
    if setitem is None:
        raise AnalysisError("_LRUDict.__setitem__ vanished", where=BI)
    rep.analysed(setitem)
    # small-model execution: the class is instantiated abstractly (its own __init__) for several bounds and driven
    # through its own __setitem__ / __getitem__ by insertion sequences that mix new keys with keys already present;
    # after every store the number of entries must be <= max_size, the key just stored must be retrievable, and every
    # retrievable key must map to the value stored for it last (the cache may forget, it may never alter)
    from ..interp import Interp, Hooks, SimRaise
    bounds = (1, 2, 3, 4, 5, 8) if ctx.tier == "quick" else (1, 2, 3, 4, 5, 6, 7, 8, 9, 12, 16, 45)
    n_ops, bad = 0, None
    for M in bounds:
        patterns = {
            "fresh keys": [("k%d" % i) for i in range(3 * M + 4)],
            "fresh / repeat newest": [("k%d" % (i // 2)) for i in range(4 * M + 6)],
            "fresh / repeat oldest": None,
        }
        for label, seq in patterns.items():
            it = Interp(model, Hooks())
            obj = it.instantiate(lru, [Fraction(M)], {})
            truth = {}
            steps = seq if seq is not None else range(4 * M + 6)
            fresh = 0
            for i, k in enumerate(steps):
                if seq is None:
                    store_now = list(it.dict_store(obj).keys())
                    if i % 2 == 1 and store_now:
                        k = store_now[0]
                    else:
                        k = "k%d" % fresh
                        fresh += 1
                v = ("value", k, i)
                try:
                    it.call_function(setitem, [obj, k, v], {})
                except SimRaise as e:
                    bad = bad or (M, label, i, f"storing {k!r} raises {e.exc_name}")
                    break
                truth[k] = v
                n_ops += 1
                store = it.dict_store(obj)
                if len(store) > M:
                    bad = bad or (M, label, i, f"{len(store)} entries after storing {k!r}")
                    break
                if store.get(k) != v:
                    bad = bad or (M, label, i, f"{k!r} is not retrievable right after it was stored")
                    break
                wrong = [kk for kk, vv in store.items() if truth.get(kk) != vv]
                if wrong:
                    bad = bad or (M, label, i, f"key {wrong[0]!r} maps to a value that was not the last one stored for it")
                    break
    construct = f"{setitem.key}::R07.4::lru-bound"
    if bad:
        M, label, i, what = bad
        rep.fail("R07.4", astq.loc(setitem), construct,
                 f"_LRUDict(max_size={M}), insertion pattern `{label}`, operation {i}: {what}: the cache exceeds "
                 f"cache_size or alters a value", facts={"operations": n_ops})
    else:
        rep.ok("R07.4", astq.loc(setitem), construct,
               f"{n_ops} stores over max_size in {bounds} x 3 insertion patterns: len <= max_size, values unaltered",
               facts={"operations": n_ops})
    # _EmptyDict stores nothing
    empty = model.cls(BI, "_EmptyDict")
    es = empty.methods.get("__setitem__")
    if es is None:
        raise AnalysisError("_EmptyDict.__setitem__ vanished", where=BI)
    stores_something = any(isinstance(n, (ast.Assign, ast.AugAssign, ast.Call, ast.Subscript))
                           for n in own_nodes(es.node))
    rep.check(not stores_something, "R07.4", astq.loc(es), f"{es.key}::R07.4::stores-nothing",
              "_EmptyDict.__setitem__ does something: cache_size=0 must cache nothing", "stores nothing")
    # the cache slot: which attribute holds the cache?  (assigned from _LRUDict(...) in the constructor)
    init = model.func(BI, "BrownianInterval.__init__")
    rep.analysed(init)
    cache_attr = None
    ctor_sites = []
    for n in own_nodes(init.node):
        if isinstance(n, ast.Assign) and len(n.targets) == 1 and isinstance(n.targets[0], ast.Attribute):
            v = n.value
            kind = None
            if isinstance(v, ast.Call) and astq.dotted(v.func) in ("_LRUDict", "_EmptyDict"):
                kind = astq.dotted(v.func)
            elif isinstance(v, ast.Dict) and not v.keys:
                kind = "dict"
            elif isinstance(v, ast.Call) and astq.dotted(v.func) == "dict" and not v.args and not v.keywords:
                kind = "dict"
            if kind and (cache_attr is None or n.targets[0].attr == cache_attr):
                if kind != "dict" or "cache" in n.targets[0].attr:
                    cache_attr = cache_attr or n.targets[0].attr
                    ctor_sites.append((n, kind))
    if cache_attr is None or not any(k == "_LRUDict" for _, k in ctor_sites):
        raise AnalysisError("could not find the cache slot (an attribute assigned from _LRUDict(...))",
                            where=astq.loc(init))
    for n, kind in ctor_sites:
        conds = [(ast.unparse(c), p) for c, p, _ in astq.path_conditions(init, n)]
        construct = f"{init.key}::R07.4::cache-ctor::{kind}"
        if kind == "dict":
            ok = ("cache_size is None", True) in conds
            rep.check(ok, "R07.4", astq.loc(init, n), construct,
                      "an unbounded dict is installed as cache without `cache_size is None`", "only when cache_size is None")
        elif kind == "_EmptyDict":
            ok = ("cache_size == 0", True) in conds
            rep.check(ok, "R07.4", astq.loc(init, n), construct,
                      "_EmptyDict installed under a condition other than cache_size == 0", "only when cache_size == 0")
        else:
            arg = astq.arg_or_kw(n.value, 0, "max_size")
            ok_arg = arg is not None and ast.unparse(arg) == "cache_size"
            ok_cond = ("cache_size is None", False) in conds and ("cache_size == 0", False) in conds
            rep.check(ok_arg and ok_cond, "R07.4", astq.loc(init, n), construct,
                      f"_LRUDict constructed with max_size=`{ast.unparse(arg) if arg is not None else '?'}` under "
                      f"{conds}: the bound must be exactly cache_size, and 0 / None must not reach it",
                      "max_size=cache_size, cache_size not None and != 0")
    # only operations that cannot add an entry behind __setitem__'s back may touch the cache slot: subscripting,
    # membership tests, len(), reading methods -- directly or through a local alias; update / setdefault / |= / handing
    # the object to other code bypass the bounded store
    READ_ONLY = {"get", "keys", "values", "items", "pop", "clear", "__contains__", "__getitem__", "__len__"}

    def use_kind(fi, pm, n, depth=0):
        par = pm.get(n)
        if isinstance(par, ast.Subscript) and par.value is n:
            return "ok", "subscript access"
        if isinstance(par, ast.Compare) and n in par.comparators and \
                all(isinstance(o, (ast.In, ast.NotIn)) for o in par.ops):
            return "ok", "membership test"
        if isinstance(par, ast.Call) and n in par.args and isinstance(par.func, ast.Name) and par.func.id == "len":
            return "ok", "len()"
        if isinstance(par, ast.Attribute) and par.value is n and par.attr in READ_ONLY:
            return "ok", f".{par.attr}"
        if isinstance(par, ast.Assign) and par.value is n and len(par.targets) == 1 and isinstance(par.targets[0], ast.Name) \
                and depth == 0:
            alias = par.targets[0].id
            if len(astq.assignments_to(fi, alias)) != 1:
                return "bad", f"alias `{alias}` is re-bound"
            for m in own_nodes(fi.node):
                if isinstance(m, ast.Name) and m.id == alias and isinstance(m.ctx, ast.Load):
                    k, why = use_kind(fi, pm, m, 1)
                    if k != "ok":
                        return k, f"through alias `{alias}`: {why}"
            return "ok", f"local alias `{alias}`, used by subscripting / membership only"
        return "bad", f"`{ast.unparse(astq.stmt_of(fi, n))[:70]}`"
    def ops_of(fi, pm, n, depth=0):
        """The special methods / attributes a use of the cache slot (or of a local alias of it) needs."""
        par = pm.get(n)
        if isinstance(par, ast.Subscript) and par.value is n:
            return {"__setitem__" if isinstance(par.ctx, ast.Store) else "__delitem__" if isinstance(par.ctx, ast.Del)
                    else "__getitem__"}
        if isinstance(par, ast.Compare) and n in par.comparators:
            return {"__contains__"}
        if isinstance(par, ast.Call) and n in par.args and isinstance(par.func, ast.Name) and par.func.id == "len":
            return {"__len__"}
        if isinstance(par, ast.Attribute) and par.value is n:
            return {par.attr}
        if isinstance(par, ast.Assign) and par.value is n and len(par.targets) == 1 and isinstance(par.targets[0], ast.Name) \
                and depth == 0:
            out = set()
            for m in own_nodes(fi.node):
                if isinstance(m, ast.Name) and m.id == par.targets[0].id and isinstance(m.ctx, ast.Load):
                    out |= ops_of(fi, pm, m, 1)
            return out
        return set()
    n_uses = 0
    for fi in model.functions.values():
        if isinstance(fi.node, ast.Lambda):
            continue
        pm = None
        for n in own_nodes(fi.node):
            if isinstance(n, ast.Attribute) and n.attr == cache_attr:
                pm = pm or astq.parent_map(fi.node)
                n_uses += 1
                construct = f"{fi.key}::R07.4::cache-use::{astq.digest(astq.stmt_of(fi, n))}"
                if isinstance(n.ctx, ast.Store) and fi is init:
                    rep.ok("R07.4", astq.loc(fi, n), construct, "constructor binding")
                    continue
                kind, why = use_kind(fi, pm, n)
                # every cache class the constructor may install answers the operation (cache_size = 0 installs a stub that
                # is not a dict: an operation only dicts have raises AttributeError / TypeError for that configuration)
                for op in sorted(ops_of(fi, pm, n)):
                    for cname in sorted({k for _, k in ctor_sites if k != "dict"}):
                        c = model.cls(BI, cname)
                        has = any(op in k.methods for k in model.mro(c)) or "dict" in model.external_bases(c)
                        rep.check(has, "R07.4", astq.loc(fi, n), f"{construct}::protocol::{cname}.{op}",
                                  f"`{ast.unparse(astq.stmt_of(fi, n))[:70]}` applies `{op}` to the cache, which {cname} (the "
                                  f"cache installed for cache_size {'== 0' if cname == '_EmptyDict' else '>= 1'}) does not "
                                  f"provide: every query on such an object raises", f"{cname} provides {op}")
                if kind == "ok":
                    rep.ok("R07.4", astq.loc(fi, n), construct, why)
                else:
                    rep.fail("R07.4", astq.loc(fi, n), construct,
                             f"the cache is used other than by subscripting / membership tests ({why}): "
                             f"update/setdefault/|= or an escaping reference bypass the bounded __setitem__")
    ctx.floor("R07.4", 8)


# ------------------------------------------------------------------------------------------------ R07.7
def r07_7(ctx):
    """Without a step-size hint the dependency tree is refined from statistics of the queries.  One call of
    _create_dependency_tree(x) leaves about (t1 - t0) / (36 x) nodes behind, permanently, so x must be tied to the
    *history* (the work the caller has already done), never to the length of one query: a single legal query of length
    1e-9 must not cost 1e7 nodes and one of 1e-12 must not exhaust memory.  The repository's own constructor and
    __call__ are driven abstractly (exact rationals, tree search and values mocked) through N ordinary queries followed
    by one short query; every refinement request is recorded."""
    rep, model = ctx.rep, ctx.model
    rep.rule("R07.7", "statistics-driven refinement of the dependency tree is bounded by the query history: the refinement "
                      "length is never below a quarter of the mean query length so far")
    from ..interp import Interp, Intrinsic, Obj
    from ..nf import Rat
    from .. import nf
    from . import brownian_kit as bk
    from .c04 import eval_init
    call = model.func(BI, "BrownianInterval.__call__")
    rep.analysed(call)
    F = Fraction
    scenarios = []
    for N in ((100, 150) if ctx.tier == "quick" else (100, 101, 150, 400)):
        for eps in (F(1, 10 ** 6), F(1, 10 ** 9), F(1, 10 ** 12)):
            scenarios.append((f"{N} queries of length 1/200, then one of length {float(eps):g}", [F(1, 200)] * N + [eps]))
    scenarios.append(("101 queries of length 1e-6 (a genuinely fine solve)", [F(1, 10 ** 6)] * 101))
    # zero-length queries (bm(t, t) is a valid query) must not drive the statistics to zero: a refinement down to length 0
    # never ends
    scenarios.append(("120 zero-length queries", [F(0)] * 120))
    scenarios.append(("one query of length 1/100, then 150 zero-length queries", [F(1, 100)] + [F(0)] * 150))
    scenarios.append(("101 queries of length 1/200, then 120 of length 1e-9 (the mean halves only gradually)",
                      [F(1, 200)] * 101 + [F(1, 10 ** 9)] * 120))
    n_requests = 0
    for label, lengths in scenarios:
        r0 = eval_init(model)
        me = r0["me"]
        table = {("s", "T0"): Rat.const(0), ("s", "T1"): Rat.const(1)}
        for k, v in list(me.attrs.items()):
            if isinstance(v, Rat):
                c = nf.substitute(v, table).const_value()
                if c is not None:
                    me.attrs[k] = c
        if me.attrs.get("_dt") is not None or me.attrs.get("_halfway_tree"):
            raise AnalysisError("constructor scenario without dt hint did not leave _dt None", where=astq.loc(call))
        requests = []

        class H(bk.BrownianHooks):
            def on_call(self, interp, callee, args, kwargs, node, fi):
                f2 = getattr(callee, "fi", None)
                if f2 is not None and f2.name == "_create_dependency_tree" and not getattr(self, "_inside", False):
                    requests.append(args[0] if args else kwargs.get("dt"))
                    # the method itself runs (it updates the statistics it is driven by), on a top node collapsed to zero
                    # length so that it has nothing to split: the tree is not materialised
                    saved = me.attrs["_end"]
                    me.attrs["_end"] = me.attrs["_start"]
                    self._inside = True
                    try:
                        interp.call_function(f2, [me] + list(args), dict(kwargs))
                    finally:
                        self._inside = False
                        me.attrs["_end"] = saved
                    return None
                return bk.BrownianHooks.on_call(self, interp, callee, args, kwargs, node, fi)
        zero = Rat.const(0)
        piece = Obj("piece", attrs={"_start": F(0), "_end": F(1),
                                    "_increment_and_levy_area": Intrinsic("piece.value", lambda it, a, k, n, f: (zero, zero, None))})
        piece.attrs["_loc"] = Intrinsic("_loc", lambda it, a, k, n, f: [piece])
        me.attrs["_last_interval"] = piece
        # the tree itself is not built: the top node stays a leaf whose search routine does nothing
        me.attrs["_loc"] = Intrinsic("_loc", lambda it, a, k, n, f: [piece])
        me.attrs["_midway"] = None
        me.attrs["_round"] = bk.identity_round()
        it = Interp(model, H())
        t, total = F(0), F(0)
        worst = None
        for i, ln in enumerate(lengths):
            ta = t if t + ln <= 1 else F(0)
            t = ta + ln
            total += ln
            before = len(requests)
            it.call_function(call, [me, ta, ta + ln], {})
            for x in requests[before:]:
                n_requests += 1
                x = x if isinstance(x, Fraction) else (x.const_value() if isinstance(x, Rat) else None)
                if x is None:
                    raise AnalysisError("refinement length is not a number in a concrete scenario", where=astq.loc(call))
                mean = total / (i + 1)
                if (x * 4 < mean or x <= 0) and worst is None:
                    worst = (i + 1, x, mean)
        construct = f"{call.key}::R07.7::{label}"
        if worst is None:
            rep.ok("R07.7", astq.loc(call), construct, f"{len(requests)} refinement request(s), all >= mean query length / 4")
        else:
            i, x, mean = worst
            if x <= 0:
                rep.fail("R07.7", astq.loc(call), construct,
                         f"{label}: query no. {i} asks for the dependency tree to be refined down to length {float(x):g}: the "
                         f"refinement splits nodes until they are that short, i.e. for ever (the query never returns)")
                continue
            rep.fail("R07.7", astq.loc(call), construct,
                     f"{label}: query no. {i} asks for the dependency tree to be refined down to {float(x):g} while the mean "
                     f"query length so far is {float(mean):g}: that single call leaves about {float(1 / (36 * x)):.3g} tree nodes "
                     f"behind (permanent, not governed by cache_size); a shorter query makes it arbitrarily worse -- the call "
                     f"does not return in any reasonable time or memory")
    if n_requests == 0:
        raise AnalysisError("no scenario triggered a statistics-driven refinement: the mechanism R07.7 is about vanished",
                            where=astq.loc(call))
    ctx.floor("R07.7", 4)


# ------------------------------------------------------------------------------------------------ R07.5
def _quantised(fi, expr, before):
    """Is `expr` a call of the quantiser (`._round(...)`) or a name whose last binding before `before` is one?"""
    if isinstance(expr, ast.Call) and isinstance(expr.func, ast.Attribute) and expr.func.attr == "_round":
        return True
    if isinstance(expr, ast.Name):
        last = None
        for stmt, val in astq.assignments_to(fi, expr.id):
            if stmt.lineno < before.lineno:
                if last is None or stmt.lineno > last[0].lineno:
                    last = (stmt, val)
        if last is not None and last[1] is not None:
            v = last[1]
            return isinstance(v, ast.Call) and isinstance(v.func, ast.Attribute) and v.func.attr == "_round"
    return False


def r07_5(ctx):
    rep, model = ctx.rep, ctx.model
    rep.rule("R07.5", "every tree search in BrownianInterval.__call__ is guarded by `quantised ta != quantised tb`; every "
                      "other `_loc(a, b)` request is dominated by a strict `a < b` on values the quantiser leaves unchanged")
    fi = model.func(BI, "BrownianInterval.__call__")
    rep.analysed(fi)
    locs = [c for c in astq.calls(fi) if isinstance(c.func, ast.Attribute) and c.func.attr in ("_loc", "_loc_inner")]
    if not locs:
        raise AnalysisError("no `_loc(...)` call in BrownianInterval.__call__", where=astq.loc(fi))
    for c in locs:
        construct = f"{fi.key}::R07.5::{astq.digest(c)}"
        guards = []
        ok = False
        for cond, pol, kind in astq.path_conditions(fi, c):
            if isinstance(cond, ast.Compare) and len(cond.ops) == 1 and \
                    isinstance(cond.ops[0], (ast.Eq, ast.NotEq)):
                differs = (isinstance(cond.ops[0], ast.Eq) and not pol) or (isinstance(cond.ops[0], ast.NotEq) and pol)
                names = {astq.root_name(cond.left), astq.root_name(cond.comparators[0])}
                texts = ast.unparse(cond)
                if differs and ("ta" in texts and "tb" in texts):
                    guards.append(texts)
                    if _quantised(fi, cond.left, cond) and _quantised(fi, cond.comparators[0], cond):
                        ok = True
        rep.check(ok, "R07.5", astq.loc(fi, c), construct,
                  f"`{ast.unparse(c)}` is reached whenever {guards or 'nothing'} holds, a test on un-quantised times: "
                  f"a query whose end points coincide after rounding to the tolerance reaches the tree search with a "
                  f"zero-length interval (unbounded splitting in dyadic mode)",
                  f"guarded by a comparison of quantised end points: {guards}")
    # every other tree search / split request in the Brownian classes: `x._loc(a, b)` rounds its arguments, so the strict
    # ordering a < b that keeps the split point interior must be established on values the rounding leaves unchanged
    # (a node's stored _start / _end / _midway, or a result of `_round`) -- else the rounded split point can coincide with
    # an end point: a zero-length child, and a child identical to its parent (the refinement loop never ends)
    for other in model.funcs_in("torchsde._brownian"):
        if other is fi or isinstance(other.node, ast.Lambda):
            continue
        for c in astq.calls(other):
            if not (isinstance(c.func, ast.Attribute) and c.func.attr == "_loc" and len(c.args) == 2):
                continue
            if other.name in ("_loc", "_loc_inner"):
                continue
            a, b = c.args
            ordered = False
            for cond, pol, kind in astq.path_conditions(other, c):
                if not pol or not isinstance(cond, ast.Compare):
                    continue
                items = [cond.left] + list(cond.comparators)
                for x, op, y in zip(items, cond.ops, items[1:]):
                    lt = (isinstance(op, ast.Lt) and ast.unparse(x) == ast.unparse(a) and ast.unparse(y) == ast.unparse(b)) or \
                         (isinstance(op, ast.Gt) and ast.unparse(y) == ast.unparse(a) and ast.unparse(x) == ast.unparse(b))
                    if lt:
                        ordered = True
            stable = _round_stable(other, a, c) and _round_stable(other, b, c)
            rep.check(ordered and stable, "R07.5", astq.loc(other, c), f"{other.key}::R07.5::{astq.digest(c)}",
                      f"`{ast.unparse(c)}` in {other.qualname}: "
                      + ("no dominating test `" + ast.unparse(a) + " < " + ast.unparse(b) + "`" if not ordered else
                         f"the test `{ast.unparse(a)} < {ast.unparse(b)}` is made on a value that `_loc` still rounds "
                         f"(`{ast.unparse(b if _round_stable(other, a, c) else a)}` is not a stored node time or a result of "
                         f"_round)")
                      + ": after rounding to the tolerance the split point can coincide with an end point, giving a "
                        "zero-length child and a child equal to its parent -- the refinement never terminates",
                      "strict order established on quantised values")
    ctx.floor("R07.5", 2)


def _round_stable(fi, expr, before):
    """`expr` is unchanged by the quantiser: a result of `_round`, a stored node time, or a name bound only to such."""
    if _quantised(fi, expr, before):
        return True
    if isinstance(expr, ast.Attribute) and expr.attr in ("_start", "_end", "_midway"):
        return True
    if isinstance(expr, ast.Name):
        binds = [v for st, v in astq.assignments_to(fi, expr.id)]
        return bool(binds) and all(v is not None and (
            (isinstance(v, ast.Attribute) and v.attr in ("_start", "_end", "_midway")) or
            (isinstance(v, ast.Call) and isinstance(v.func, ast.Attribute) and v.func.attr == "_round")) for v in binds)
    return False


# ------------------------------------------------------------------------------------------------ R07.6
def r07_6(ctx):
    rep, model = ctx.rep, ctx.model
    rep.rule("R07.6", "sdeint's default Brownian motion is a BrownianInterval over [ts[0], ts[-1]]")
    fi = model.func(SDEINT, "check_contract")
    rep.analysed(fi)
    sites = [c for c in astq.calls(fi) if astq.call_name(c).endswith("BrownianInterval")]
    if not sites:
        raise AnalysisError("check_contract no longer constructs a BrownianInterval", where=astq.loc(fi))
    for c in sites:
        t0, t1 = astq.arg_or_kw(c, 0, "t0"), astq.arg_or_kw(c, 1, "t1")
        ok = t0 is not None and t1 is not None and ast.unparse(t0) == "ts[0]" and ast.unparse(t1) == "ts[-1]"
        conds = [(ast.unparse(cd), p) for cd, p, _ in astq.path_conditions(fi, c)]
        ok = ok and ("bm is None", True) in conds
        rep.check(ok, "R07.6", astq.loc(fi, c), f"{fi.key}::R07.6::default-bm",
                  f"default Brownian motion `{ast.unparse(c)[:80]}` does not span [ts[0], ts[-1]] (or is built although "
                  f"`bm` was given): solver queries would fall outside / be clipped",
                  "BrownianInterval(t0=ts[0], t1=ts[-1]) iff bm is None")
    ctx.floor("R07.6", 1)


def run_thorough(ctx):
    """Whole-package scope for the stack-cycle search (quick restricts it to torchsde/_brownian)."""
    cg = ctx.callgraph()
    cyc = cg.cycles(kinds=STACK_KINDS)
    for comp, inner in cyc:
        if all(f.module.name.startswith("torchsde._brownian") for f in comp):
            continue          # already reported by R07.1
        f = comp[0]
        ctx.rep.fail("R07.1", astq.loc(f), f"{f.key}::R07.1::stack-cycle",
                     f"call cycle through real stack frames outside the Brownian package: "
                     f"{' -> '.join(x.qualname for x in comp)}")
    ctx.rep.extra["whole_package_cycles"] = len(cyc)


def run(ctx):
    ctx.guard(r07_1)
    ctx.guard(r07_2)
    ctx.guard(r07_3)
    ctx.guard(r07_4)
    ctx.guard(r07_5)
    ctx.guard(r07_6)
    ctx.guard(r07_7)
    # the search compares quantised query times with stored node times: a stored time that is not on the tolerance grid (a
    # root end point that rounds outwards) sends an in-range query past the root, whose parent is None (rule of C06)
    from . import c06
    ctx.guard(c06.r06_3)


# ------------------------------------------------------------------------------------------------ R07.8
def r07_8(ctx):
    """Termination of the dyadic descent in `_Interval._split` (halfway_tree=True, BrownianTree).

    The loop splits a node at the *quantised* midpoint and descends towards the requested point.  In floating point the
    quantised midpoint of a narrow node can coincide with one of its end points although the requested point lies
    strictly inside (tol = 1e-14 at t = 45: node [45.85031670664449, 45.85031670664451], requested 45.8503167066445,
    `round(0.5 * (start + end), 14)` = the right end).  The child on the requested side is then the node itself.  The
    quantiser is therefore modelled adversarially: idempotent on the node's end points and on the requested point, and
    mapping the computed midpoint to the right (or the left) end point.  The descent must still terminate, and the
    requested point must end up as the boundary between two nodes (the tree search that called `_split` continues from
    there)."""
    rep, model = ctx.rep, ctx.model
    rep.rule("R07.8", "the dyadic descent of _Interval._split terminates also when the quantised midpoint of a node falls on "
                      "one of its end points, and leaves the requested point as a node boundary")
    from ..interp import Interp, Intrinsic, Obj
    from ..nf import Rat
    from . import brownian_kit as bk
    split = model.func(BI, "_Interval._split")
    rep.analysed(split)
    icls = model.cls(BI, "_Interval")
    F = Fraction
    n = 0
    for label, lands_on in (("midpoint quantised to the right end", "end"), ("midpoint quantised to the left end", "start"),
                            ("midpoint resolved (control)", None)):
        for S, M, E in ((F(0), F(1, 2), F(2)), (F(0), F(3, 2), F(2)), (F(10), F(41, 4), F(11))):
            fixed = {S, M, E}

            def rnd(it, a, k, nd, f, S=S, E=E, fixed=fixed, lands_on=lands_on):
                x = a[0]
                x = x.const_value() if isinstance(x, Rat) else x
                if x in fixed or lands_on is None:
                    return x
                if S < x < E:
                    return E if lands_on == "end" else S
                return x
            top, _ = bk.make_top(model, halfway=True, extra={"_round": Intrinsic("_round", rnd)})
            parent = Obj("parent", attrs={"_spawn_key": F(0), "_depth": F(0)})
            node = Obj("node", cls=icls, attrs={"_parent": parent, "_is_left": True, "_top": top, "_start": S, "_end": E,
                                                "_midway": None})
            construct = f"{split.key}::R07.8::{label}::[{S},{E}] split at {M}"
            it = Interp(model, bk.BrownianHooks())
            n += 1
            try:
                it.call_function(split, [node, M], {})
            except AnalysisError as e:
                if "loop bound exceeded" not in str(e):
                    raise
                rep.fail("R07.8", astq.loc(split), construct,
                         f"node [{S}, {E}], requested split point {M}, {label}: the descent does not terminate (the child "
                         f"on the requested side has the end points of its parent, so every pass repeats the last one and "
                         f"adds a tree node): a BrownianTree query hangs until memory is exhausted")
                continue
            # the requested point is now a boundary somewhere on the descent path
            cur, found, depth = node, False, 0
            while isinstance(cur, Obj) and cur.attrs.get("_midway") is not None and depth < 64:
                mid = cur.attrs["_midway"]
                mid = mid.const_value() if isinstance(mid, Rat) else mid
                if mid == M:
                    found = True
                    break
                cur = cur.attrs.get("_left_child") if M < mid else cur.attrs.get("_right_child")
                depth += 1
            rep.check(found, "R07.8", astq.loc(split), construct,
                      f"node [{S}, {E}], requested split point {M}, {label}: after _split no node on the way down to {M} "
                      f"has it as its split point, so the tree search that asked for the split cannot finish",
                      "terminates with the requested point as a node boundary")
    ctx.floor("R07.8", 9)


_run_c07h = run


def run(ctx):
    _run_c07h(ctx)
    ctx.guard(r07_8)


_run_before_r07_9 = run


def run(ctx):
    _run_before_r07_9(ctx)
    from . import replay_rules
    ctx.guard(replay_rules.r07_9)


EXPLANATION = EXPLANATION + " " + (
    "R07.9 (replay.py, see C03): the real tree is driven through four histories per configuration; every query must return normally and after every query the store of the cache object the constructor installed holds at most cache_size entries. R07.8: _Interval._split is evaluated on concrete nodes with an adversarial quantiser (idempotent on the node's end points and the requested point, mapping the computed midpoint to an end point): it must terminate and leave the requested point as a node boundary.")
