"""End-to-end replay of the fixed-step driver with the real step functions (C12 / C13 / C15).

`BaseSDESolver.integrate` and the `step` of every (solver class, noise type, option) scenario are interpreted together on
*concrete rational times* with an opaque SDE (F[t, y], G[t, y], prod, GDG, DGGA atoms) and an opaque Brownian motion
(W[ta, tb], U[ta, tb], A[ta, tb] atoms): a whole solve over a handful of steps comes out as a list of canonical forms.
Two solves return "bit-identical results" -- for every SDE and every Brownian path -- exactly when those forms coincide
(up to what the normal form identifies: real-number algebra; the float-exactness clauses are R12.8 / R13.x's business).
What this adds to the per-pass rules of C12 / C13 / C15 is the interplay over a whole solve: the clipped last step, the
end-of-call guard, outputs inside steps, restarts, the extra solver state travelling through several calls.
"""
from fractions import Fraction

from .. import astq, nf
from ..errors import AnalysisError
from ..interp import Cat, Interp, Intrinsic, Obj, SimRaise
from ..nf import Rat
from . import integrate_kit as ik
from . import solverkit, solvers, steps

F = Fraction
SIZE_LIMIT = 20000         # terms of one canonical form; the unchanged tree stays below a tenth of it (largest: 1506, R03.11 thorough)


class _Hooks(solverkit.StepHooks):
    def tensor_attr(self, interp, recv, name, node, fi):
        if name in ("dtype", "device"):
            return f"{recv}.{name}"
        if name == "shape":
            return (nf.sym(f"{recv}.shape[0]", True), nf.sym(f"{recv}.shape[1]", True))
        return solverkit.StepHooks.tensor_attr(self, interp, recv, name, node, fi)

    def tensor_method(self, interp, recv, name, args, kwargs, node, fi):
        if name in ik.BUFFER_METHODS:                 # an output tensor preallocated from the state
            return ik.new_output_buffer(args[:1], dict(kwargs, dtype=kwargs.get("dtype", f"{recv}.dtype")))
        return solverkit.StepHooks.tensor_method(self, interp, recv, name, args, kwargs, node, fi)

    def external_call(self, interp, dotted, args, kwargs, node, fi):
        if dotted in ik.OUTPUT_BUFFER_CTORS:
            return ik.new_output_buffer(args, kwargs)
        if dotted == "torch.stack":
            return Cat("stack", list(args[0]), kwargs.get("dim", F(0)))
        if dotted == "warnings.warn":
            return None
        if dotted in ("torch.round", "round", "torch.floor", "torch.ceil", "math.floor", "math.ceil") and len(args) == 1:
            import math as _m
            x = args[0].const_value() if isinstance(args[0], Rat) else args[0]
            if isinstance(x, (Fraction, int)) and not isinstance(x, bool):
                kind = dotted.split(".")[-1]
                return Fraction(round(x) if kind == "round" else _m.floor(x) if kind == "floor" else _m.ceil(x))
        return solverkit.StepHooks.external_call(self, interp, dotted, args, kwargs, node, fi)


class _OffGrid(Exception):
    pass


def solve(model, dom, sc, ts, dt, y0=None, extra0=None, sde=None, bm=None):
    """(list of outputs, extra solver state) of sc's solver over the output times `ts` with step `dt`."""
    sde = sde or solverkit.make_sde()
    sde.attrs["sde_type"], sde.attrs["noise_type"] = sc.sde_type, sc.noise_type
    bm = bm or solverkit.make_bm(solverkit.BMLog())
    g_ndim = 3 if sc.noise_type == dom.noise_types.get("scalar") else 2
    it = Interp(model, _Hooks(g_ndim))
    it.max_loop = 4096
    it.size_limit = SIZE_LIMIT
    so = solverkit.solver_obj(model, sc.cls, sde, bm, dict(sc.options),
                              extra_attrs={"dt": F(dt), "adaptive": False, "dt_min": F(1, 10 ** 5)})
    from ..interp import BoundMethod
    if model.lookup_method(sc.cls, "step") is not sc.step_fi:
        so.attrs["step"] = BoundMethod(sc.step_fi, so)        # classes that bind `self.step` in their constructor (SRK)
    y0 = nf.sym("y0") if y0 is None else y0
    if extra0 is None:
        init = model.lookup_method(sc.cls, "init_extra_solver_state")
        extra0 = tuple(it.call_function(init, [so, ts[0], y0], {}))
    integ = model.func(ik.BASE_SOLVER, "BaseSDESolver.integrate")
    out = it.call_function(integ, [so, y0, list(ts), extra0], {})
    ys, extra = out
    if isinstance(ys, Cat):
        ys = list(ys.parts)
    elif ik.is_output_buffer(ys):
        ys = [v for _, v in ik.output_writes(ys)]
    return list(ys), tuple(extra) if isinstance(extra, (tuple, list)) else (extra,)


def step_trace(model, dom, sc, ts, dt):
    """The (t0, t1) pairs the driver hands to `self.step` over the output times `ts`, in order: the real `integrate` with the
    step function replaced by a recorder that returns fresh symbols (cheap whatever the solver)."""
    from ..interp import Intrinsic
    sde = solverkit.make_sde()
    sde.attrs["sde_type"], sde.attrs["noise_type"] = sc.sde_type, sc.noise_type
    bm = solverkit.make_bm(solverkit.BMLog())
    it = Interp(model, _Hooks(2))
    it.max_loop = 4096
    so = solverkit.solver_obj(model, sc.cls, sde, bm, dict(sc.options),
                              extra_attrs={"dt": F(dt), "adaptive": False, "dt_min": F(1, 10 ** 5)})
    pairs = []

    def record(interp, args, kwargs, node, fi):
        t0, t1 = args[0], args[1]
        pairs.append(tuple(x.const_value() if isinstance(x, Rat) else x for x in (t0, t1)))
        return nf.sym(f"Y{len(pairs)}"), (nf.sym(f"X{len(pairs)}"),)

    so.attrs["step"] = Intrinsic("step", record, params=["t0", "t1", "y0", "extra0"])
    integ = model.func(ik.BASE_SOLVER, "BaseSDESolver.integrate")
    it.call_function(integ, [so, nf.sym("y0"), list(ts), (nf.sym("X0"),)], {})
    return pairs


def off_grid(model, dom, sc, ts, dt, T):
    """None if the driver's steps over `ts` are the consecutive points of ts[0] + k dt clipped to T; else a description."""
    grid = []
    t = ts[0]
    while t < T:
        nxt = min(t + dt, T)
        grid.append((t, nxt))
        t = nxt
    got = step_trace(model, dom, sc, ts, dt)
    if got == grid:
        return None
    k = next((i for i, (a, b) in enumerate(zip(got, grid)) if a != b), min(len(got), len(grid)))
    took = f"steps from {got[k][0]} to {got[k][1]}" if k < len(got) else "stops"
    due = f"({grid[k][0]}, {grid[k][1]})" if k < len(grid) else "nothing"
    return f"step {k + 1} of the solve over ts = [{', '.join(str(x) for x in ts)}]: the driver {took} where the grid ts[0] + k dt has {due}"


def heavy(model, dom, sc):
    """Steps that loop over stages with nested state-dependent evaluations (SRK for diagonal / scalar noise): their canonical
    forms grow by an order of magnitude per step, so they are replayed over two steps instead of three.  Decided from the
    step's shape (a stage loop that evaluates the diffusion at stage values), not by timing."""
    import ast as _ast
    loops = [n for n in _ast.walk(sc.step_fi.node) if isinstance(n, _ast.For)]
    return any("g_prod" in _ast.unparse(l) or ".g(" in _ast.unparse(l) for l in loops) and \
        any(isinstance(n, _ast.For) for l in loops for n in _ast.walk(l) if n is not l)


def chain(model, dom, sc, grid, dt):
    """The grid states by definition: the step function applied along ts[0] + k dt by this rule's own loop (the driver under
    test is not involved): [y0, step(t0, t1, y0), ...] and the final extra state."""
    sde = solverkit.make_sde()
    sde.attrs["sde_type"], sde.attrs["noise_type"] = sc.sde_type, sc.noise_type
    bm = solverkit.make_bm(solverkit.BMLog())
    g_ndim = 3 if sc.noise_type == dom.noise_types.get("scalar") else 2
    it = Interp(model, _Hooks(g_ndim))
    so = solverkit.solver_obj(model, sc.cls, sde, bm, dict(sc.options),
                              extra_attrs={"dt": F(dt), "adaptive": False, "dt_min": F(1, 10 ** 5)})
    y = nf.sym("y0")
    init = model.lookup_method(sc.cls, "init_extra_solver_state")
    extra = tuple(it.call_function(init, [so, grid[0], y], {}))
    out = [y]
    for a, b in zip(grid[:-1], grid[1:]):
        y, extra = it.call_function(sc.step_fi, [so, a, b, y, extra], {})
        extra = tuple(extra) if isinstance(extra, (tuple, list)) else (extra,)
        out.append(y)
    return out, extra


def same(a, b):
    if isinstance(a, (tuple, list)) or isinstance(b, (tuple, list)):
        return isinstance(a, (tuple, list)) and isinstance(b, (tuple, list)) and len(a) == len(b) and \
            all(same(x, y) for x, y in zip(a, b))
    return nf.equal(Rat.lift(a), Rat.lift(b))


def mode():
    import os
    return os.environ.get("TSVERIF_SOLVER_REPLAY", "")


def skipped(ctx, rule, fi):
    """Variant self-tests / seed checks of edits outside the driver, the interpolation and the step functions."""
    if mode() != "skip":
        return False
    ctx.rep.ok(rule, astq.loc(fi), f"{fi.key}::{rule}::not-replayed", "edit outside the driver and the steps: base verdict applies")
    ctx.floor(rule, 1)
    return True


def scenarios(ctx):
    dom = solvers.Domains(ctx.model)
    scs = list(steps.scenarios(ctx.model, dom))
    if ctx.tier == "quick":
        scs = list(steps.distinct_step_scenarios(ctx.model, dom))
    if mode() == "light":
        # one scenario per solver class, the cheap ones
        seen, out = set(), []
        for sc in scs:
            if sc.cls.name not in seen and not (sc.cls.name == "SRK" and "additive" not in sc.label):
                seen.add(sc.cls.name)
                out.append(sc)
        scs = out
    return dom, scs


# ------------------------------------------------------------------------------------------------ R12.10
def r12_10(ctx):
    """Output-time invariance of a whole solve.  dt = 1/8.  Reference: outputs at every grid point of [0, 3/8] (and of
    [0, 5/16], whose last step is clipped).  Then (a) only the end points, (b) outputs on the grid, strictly inside steps
    (two inside one step) and at the end: every value at a grid time must be the reference's grid state, every value
    inside a step the linear interpolant of the reference's two neighbouring grid states, ys[0] is y0, and the extra
    solver state handed back is the reference's."""
    rep, model = ctx.rep, ctx.model
    rep.rule("R12.10", "replay of whole fixed-step solves with the real steps: outputs at grid times are the grid states, outputs "
                       "inside a step their linear interpolants, whatever other output times are requested; clipped last "
                       "step included; ys[0] is y0")
    dom, scs = scenarios(ctx)
    integ = model.func(ik.BASE_SOLVER, "BaseSDESolver.integrate")
    rep.analysed(integ)
    if skipped(ctx, "R12.10", integ):
        return
    dt = F(1, 8)
    n = 0
    for sc in scs:
        rep.analysed(sc.step_fi)
        big = heavy(model, dom, sc)
        horizons = (F(3, 8), F(5, 16)) if not big else (F(1, 4), F(3, 16))
        for T in (horizons if ctx.tier != "quick" else horizons[1:]):
            grid = [k * dt for k in range(int(T / dt) + 1)]
            if grid[-1] != T:
                grid.append(T)
            construct = f"{sc.step_fi.key}::R12.10::{sc.label}::T={T}"
            try:
                bad = []
                mixed = sorted({t for t in (F(0), F(1, 16), F(1, 8), F(5, 32), F(7, 32), F(9, 32), T) if t <= T})
                # first the clock alone (the step function replaced by a recorder): "the solver advances on the grid
                # ts[0] + k dt regardless of the requested output times".  A driver that steps elsewhere is reported here;
                # its states are not evaluated (off the grid the number of steps, and with it the size of the canonical
                # forms, is not bounded by the horizon)
                for ts in (grid, [F(0), T], mixed, [F(1, 32) + t for t in grid], [F(-3, 16) + t for t in grid]):
                    why = off_grid(model, dom, sc, ts, dt, ts[0] + T)
                    if why:
                        bad.append(why)
                        break
                if bad:
                    raise _OffGrid()
                ref, ref_extra = solve(model, dom, sc, grid, dt)
                state = dict(zip(grid, ref))
                # the grid is ts[0] + k dt, whatever ts[0] is: the driver's grid states are the step function chained along
                # that grid by this rule's own loop, also for a start that is no multiple of dt and for a negative one
                for t_start in (F(1, 32), F(-3, 16)):
                    g2 = [t_start + (t - grid[0]) for t in grid]
                    got, got_extra = solve(model, dom, sc, g2, dt)
                    want, want_extra = chain(model, dom, sc, g2, dt)
                    if not (same(got, want) and same(got_extra, want_extra)):
                        k = next((i for i, (x, y_) in enumerate(zip(got, want)) if not same(x, y_)), len(want))
                        bad.append(f"from ts[0] = {t_start} the state reported at ts[0] + {k} steps is not the step function applied "
                                   f"{k} times along ts[0] + k dt")
                        break
                if not same(ref[0], nf.sym("y0")):
                    bad.append("ys[0] is not y0")
                for label, ts in (("end points only", [F(0), T]),
                                  ("outputs on the grid, inside steps and twice inside one step", mixed)):
                    ys, extra = solve(model, dom, sc, ts, dt)
                    if len(ys) != len(ts):
                        bad.append(f"{label}: {len(ys)} outputs for {len(ts)} output times")
                        continue
                    for t, y in zip(ts, ys):
                        if t in state:
                            want = state[t]
                        else:
                            lo = max(g for g in grid if g < t)
                            hi = min(g for g in grid if g > t)
                            want = Rat.lift(state[lo]) + (t - lo) / (hi - lo) * (Rat.lift(state[hi]) - Rat.lift(state[lo]))
                        if not same(y, want):
                            bad.append(f"{label}: the output at t = {t} is not the {'grid state' if t in state else 'linear interpolant of the neighbouring grid states'}")
                            break
                    if not same(extra, ref_extra):
                        bad.append(f"{label}: the extra solver state handed back differs from the reference solve's")
            except _OffGrid:
                pass
            except SimRaise as e:
                bad = [f"the solve raises {e.exc_name}: {e.message}"]
            n += 1
            rep.check(not bad, "R12.10", astq.loc(integ), construct,
                      f"{sc.label}, dt = 1/8, horizon {T}: {'; '.join(bad[:2])}: the returned values depend on which other "
                      f"output times were requested", "one dt-grid trajectory, whatever the output times")
    ctx.floor("R12.10", 6 if mode() == "light" else 16)


# ------------------------------------------------------------------------------------------------ R13.8
def r13_8(ctx):
    """Chunked equals one-shot, for whole solves: [0, 3/8] with dt = 1/8 at once, and in two and in three chunks, each
    restarted from the returned final state and the returned extra solver state; every state at a chunk boundary, the
    final state and the final extra state must be the one-shot solve's, as canonical forms."""
    rep, model = ctx.rep, ctx.model
    rep.rule("R13.8", "replay of whole solves with the real steps: solving [0, 3/8] in two and in three chunks, restarted from the "
                      "returned state and extra solver state, returns the one-shot solve's states and final extra state")
    dom, scs = scenarios(ctx)
    integ = model.func(ik.BASE_SOLVER, "BaseSDESolver.integrate")
    rep.analysed(integ)
    if skipped(ctx, "R13.8", integ):
        return
    dt = F(1, 8)
    for sc in scs:
        rep.analysed(sc.step_fi)
        construct = f"{sc.step_fi.key}::R13.8::{sc.label}"
        try:
            cuts4 = [F(0), F(1, 8), F(1, 4), F(3, 8)] if not heavy(model, dom, sc) else [F(0), F(1, 8), F(1, 4)]
            one, one_extra = solve(model, dom, sc, cuts4, dt)
            bad = []
            for label, cuts in (("two chunks", [cuts4[0], cuts4[-2], cuts4[-1]]), ("one step per chunk", cuts4)):
                y, extra = nf.sym("y0"), None
                for a, b in zip(cuts[:-1], cuts[1:]):
                    ys, extra = solve(model, dom, sc, [a, b], dt, y0=y, extra0=extra)
                    y = ys[-1]
                    if not same(y, one[cuts4.index(b)]):
                        bad.append(f"{label}: the state at t = {b} differs from the one-shot solve's")
                        break
                else:
                    if not same(extra, one_extra):
                        bad.append(f"{label}: the final extra solver state differs from the one-shot solve's")
        except SimRaise as e:
            bad = [f"the solve raises {e.exc_name}: {e.message}"]
        rep.check(not bad, "R13.8", astq.loc(integ), construct,
                  f"{sc.label}, dt = 1/8 over [0, 3/8]: {'; '.join(bad[:2])}", "identical canonical forms")
    ctx.floor("R13.8", 6 if mode() == "light" else 8)


# ------------------------------------------------------------------------------------------------ R15.10
def r15_10(ctx):
    """Algebraic reversibility of a whole solve: reversible Heun forward over [0, T] (two and three whole steps of dt = 1/8), then the same solver on the time-reversed, negated SDE (f~(t, y) = -f(-t, y), g~ likewise)
    driven by the reversed Brownian motion (the real ReverseBrownian.__call__ over the same opaque path), from the final
    state with the negated final (f, g) extras: every forward state must come back, as a polynomial identity."""
    rep, model = ctx.rep, ctx.model
    rep.rule("R15.10", "replay: reversible Heun forward over two and three steps, then on the negated, "
                       "time-reversed SDE with ReverseBrownian and the negated final extras, returns to every forward state "
                       "as an algebraic identity")
    dom, scs = scenarios(ctx)
    dom_all = list(steps.scenarios(model, dom))
    rh = [sc for sc in dom_all if sc.cls.name == "ReversibleHeun"]
    if not rh:
        raise AnalysisError("no ReversibleHeun scenario found")
    integ = model.func(ik.BASE_SOLVER, "BaseSDESolver.integrate")
    rep.analysed(integ)
    rb = model.func("torchsde/_brownian/derived.py", "ReverseBrownian.__call__")
    rep.analysed(rb)
    if skipped(ctx, "R15.10", integ):
        return
    dt = F(1, 8)
    for sc in rh:
        rep.analysed(sc.step_fi)
        for T in (F(1, 4), F(3, 8)):          # whole steps: the reversed solve walks the mirrored grid only then (R15.3)
            construct = f"{sc.step_fi.key}::R15.10::{sc.label}::T={T}"
            grid = [k * dt for k in range(int(T / dt) + 1)]
            if grid[-1] != T:
                grid.append(T)
            try:
                sde = solverkit.make_sde()
                bm = solverkit.make_bm(solverkit.BMLog())
                fwd, extra = solve(model, dom, sc, grid, dt, sde=sde, bm=bm)
                # the negated, time-reversed SDE over the same opaque F, G
                neg = Obj("negated-sde", attrs={})

                def wrap(name, sde=sde):
                    inner = sde.attrs[name]

                    def f(it, a, k, n, fi):
                        a = list(a)
                        a[0] = -Rat.lift(a[0]) if not isinstance(a[0], Fraction) else -a[0]
                        r = inner.fn(it, a, k, n, fi)
                        return tuple(-Rat.lift(x) for x in r) if isinstance(r, (tuple, list)) else -Rat.lift(r)
                    return Intrinsic(f"neg.{name}", f, params=getattr(inner, "params", None))
                for name, v in sde.attrs.items():
                    if isinstance(v, Intrinsic) and name not in ("prod",):
                        neg.attrs[name] = wrap(name)
                    else:
                        neg.attrs[name] = v
                rev = Obj("reverse-bm", cls=model.cls("torchsde/_brownian/derived.py", "ReverseBrownian"),
                          attrs={"base_brownian": bm})
                e_neg = tuple((-Rat.lift(x)) if i < 2 else x for i, x in enumerate(extra))
                back, _ = solve(model, dom, sc, [-t for t in reversed(grid)], dt, y0=fwd[-1], extra0=e_neg, sde=neg, bm=rev)
                bad = [f"the state at t = {t} is not reconstructed" for t, a, b in zip(grid, fwd, reversed(back)) if not same(a, b)]
            except SimRaise as e:
                bad = [f"a solve raises {e.exc_name}: {e.message}"]
            rep.check(not bad, "R15.10", astq.loc(sc.step_fi), construct,
                      f"{sc.label}, dt = 1/8, forward over [0, {T}] and back: {'; '.join(bad[:2])}: the reverse solve is not the "
                      f"algebraic inverse of the forward solve", "every forward state reconstructed")
    ctx.floor("R15.10", 4)
