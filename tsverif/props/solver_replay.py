"""End-to-end replay of the fixed-step driver with the real step functions (C12 / C13 / C15).

`BaseSDESolver.integrate` and the `step` of every (solver class, noise type, option) scenario are interpreted together on
*concrete rational times* with an opaque SDE (F[t, y], G[t, y], prod, GDG, DGGA atoms) and an opaque Brownian motion
(W[ta, tb], U[ta, tb], A[ta, tb] atoms): a whole solve over a handful of steps comes out as a list of canonical forms.
Two solves return "bit-identical results" -- for every SDE and every Brownian path -- exactly when those forms coincide
(up to what the normal form identifies: real-number algebra; the float-exactness clauses are R12.8 / R13.x's business).
What this adds to the per-pass rules of C12 / C13 / C15 is the interplay over a whole solve: the clipped last step, the
end-of-call guard, outputs inside steps, restarts, the extra solver state travelling through several calls.
"""
from fractions import Fraction

from .. import astq, nf
from ..errors import AnalysisError
from ..interp import Cat, Interp, Intrinsic, Obj, SimRaise
from ..nf import Rat
from . import integrate_kit as ik
from . import solverkit, solvers, steps

F = Fraction
SIZE_LIMIT = 20000         # terms of one canonical form; the unchanged tree stays below a tenth of it (largest: 1506, R03.11 thorough)


class _Hooks(solverkit.StepHooks):
    def tensor_attr(self, interp, recv, name, node, fi):
        if name in ("dtype", "device"):
            return f"{recv}.{name}"
        if name == "shape":
            return (nf.sym(f"{recv}.shape[0]", True), nf.sym(f"{recv}.shape[1]", True))
        return solverkit.StepHooks.tensor_attr(self, interp, recv, name, node, fi)

    def tensor_method(self, interp, recv, name, args, kwargs, node, fi):
        if name in ik.BUFFER_METHODS:                 # an output tensor preallocated from the state
            return ik.new_output_buffer(args[:1], dict(kwargs, dtype=kwargs.get("dtype", f"{recv}.dtype")))
        return solverkit.StepHooks.tensor_method(self, interp, recv, name, args, kwargs, node, fi)

    def external_call(self, interp, dotted, args, kwargs, node, fi):
        if dotted in ik.OUTPUT_BUFFER_CTORS:
            return ik.new_output_buffer(args, kwargs)
        if dotted == "torch.stack":
            return Cat("stack", list(args[0]), kwargs.get("dim", F(0)))
        if dotted == "warnings.warn":
            return None
        if dotted in ("torch.round", "round", "torch.floor", "torch.ceil", "math.floor", "math.ceil") and len(args) == 1:
            import math as _m
            x = args[0].const_value() if isinstance(args[0], Rat) else args[0]
            if isinstance(x, (Fraction, int)) and not isinstance(x, bool):
                kind = dotted.split(".")[-1]
                return Fraction(round(x) if kind == "round" else _m.floor(x) if kind == "floor" else _m.ceil(x))
        return solverkit.StepHooks.external_call(self, interp, dotted, args, kwargs, node, fi)


class _OffGrid(Exception):
    pass


def solve(model, dom, sc, ts, dt, y0=None, extra0=None, sde=None, bm=None):
    """(list of outputs, extra solver state) of sc's solver over the output times `ts` with step `dt`."""
    sde = sde or solverkit.make_sde()
    sde.attrs["sde_type"], sde.attrs["noise_type"] = sc.sde_type, sc.noise_type
    bm = bm or solverkit.make_bm(solverkit.BMLog())
    g_ndim = 3 if sc.noise_type == dom.noise_types.get("scalar") else 2
    it = Interp(model, _Hooks(g_ndim))
    it.max_loop = 4096
    it.size_limit = SIZE_LIMIT
    so = solverkit.solver_obj(model, sc.cls, sde, bm, dict(sc.options),
                              extra_attrs={"dt": F(dt), "adaptive": False, "dt_min": F(1, 10 ** 5)})
    from ..interp import BoundMethod
    if model.lookup_method(sc.cls, "step") is not sc.step_fi:
        so.attrs["step"] = BoundMethod(sc.step_fi, so)        # classes that bind `self.step` in their constructor (SRK)
    y0 = nf.sym("y0") if y0 is None else y0
    if extra0 is None:
        init = model.lookup_method(sc.cls, "init_extra_solver_state")
        extra0 = tuple(it.call_function(init, [so, ts[0], y0], {}))
    integ = model.func(ik.BASE_SOLVER, "BaseSDESolver.integrate")
    out = it.call_function(integ, [so, y0, list(ts), extra0], {})
    ys, extra = out
    if isinstance(ys, Cat):
        ys = list(ys.parts)
    elif ik.is_output_buffer(ys):
        ys = [v for _, v in ik.output_writes(ys)]
    return list(ys), tuple(extra) if isinstance(extra, (tuple, list)) else (extra,)


def step_trace(model, dom, sc, ts, dt):
    """The (t0, t1) pairs the driver hands to `self.step` over the output times `ts`, in order: the real `integrate` with the
    step function replaced by a recorder that returns fresh symbols (cheap whatever the solver)."""
    from ..interp import Intrinsic
    sde = solverkit.make_sde()
    sde.attrs["sde_type"], sde.attrs["noise_type"] = sc.sde_type, sc.noise_type
    bm = solverkit.make_bm(solverkit.BMLog())
    it = Interp(model, _Hooks(2))
    it.max_loop = 4096
    so = solverkit.solver_obj(model, sc.cls, sde, bm, dict(sc.options),
                              extra_attrs={"dt": F(dt), "adaptive": False, "dt_min": F(1, 10 ** 5)})
    pairs = []

    def record(interp, args, kwargs, node, fi):
        t0, t1 = args[0], args[1]
        pairs.append(tuple(x.const_value() if isinstance(x, Rat) else x for x in (t0, t1)))
        return nf.sym(f"Y{len(pairs)}"), (nf.sym(f"X{len(pairs)}"),)

    so.attrs["step"] = Intrinsic("step", record, params=["t0", "t1", "y0", "extra0"])
    integ = model.func(ik.BASE_SOLVER, "BaseSDESolver.integrate")
    it.call_function(integ, [so, nf.sym("y0"), list(ts), (nf.sym("X0"),)], {})
    return pairs


def off_grid(model, dom, sc, ts, dt, T):
    """None if the driver's steps over `ts` are the consecutive points of ts[0] + k dt clipped to T; else a description."""
    grid = []
    t = ts[0]
    while t < T:
        nxt = min(t + dt, T)
        grid.append((t, nxt))
        t = nxt
    got = step_trace(model, dom, sc, ts, dt)
    if got == grid:
        return None
    k = next((i for i, (a, b) in enumerate(zip(got, grid)) if a != b), min(len(got), len(grid)))
    took = f"steps from {got[k][0]} to {got[k][1]}" if k < len(got) else "stops"
    due = f"({grid[k][0]}, {grid[k][1]})" if k < len(grid) else "nothing"
    return f"step {k + 1} of the solve over ts = [{', '.join(str(x) for x in ts)}]: the driver {took} where the grid ts[0] + k dt has {due}"


def heavy(model, dom, sc):
    """Steps that loop over stages with nested state-dependent evaluations (SRK for diagonal / scalar noise): their canonical
    forms grow by an order of magnitude per step, so they are replayed over two steps instead of three.  Decided from the
    step's shape (a stage loop that evaluates the diffusion at stage values), not by timing."""
    import ast as _ast
    loops = [n for n in _ast.walk(sc.step_fi.node) if isinstance(n, _ast.For)]
    return any("g_prod" in _ast.unparse(l) or ".g(" in _ast.unparse(l) for l in loops) and \
        any(isinstance(n, _ast.For) for l in loops for n in _ast.walk(l) if n is not l)


def chain(model, dom, sc, grid, dt):
    """The grid states by definition: the step function applied along ts[0] + k dt by this rule's own loop (the driver under
    test is not involved): [y0, step(t0, t1, y0), ...] and the final extra state."""
    sde = solverkit.make_sde()
    sde.attrs["sde_type"], sde.attrs["noise_type"] = sc.sde_type, sc.noise_type
    bm = solverkit.make_bm(solverkit.BMLog())
    g_ndim = 3 if sc.noise_type == dom.noise_types.get("scalar") else 2
    it = Interp(model, _Hooks(g_ndim))
    so = solverkit.solver_obj(model, sc.cls, sde, bm, dict(sc.options),
                              extra_attrs={"dt": F(dt), "adaptive": False, "dt_min": F(1, 10 ** 5)})
    y = nf.sym("y0")
    init = model.lookup_method(sc.cls, "init_extra_solver_state")
    extra = tuple(it.call_function(init, [so, grid[0], y], {}))
    out = [y]
    for a, b in zip(grid[:-1], grid[1:]):
        y, extra = it.call_function(sc.step_fi, [so, a, b, y, extra], {})
        extra = tuple(extra) if isinstance(extra, (tuple, list)) else (extra,)
        out.append(y)
    return out, extra


def same(a, b):
    if isinstance(a, (tuple, list)) or isinstance(b, (tuple, list)):
        return isinstance(a, (tuple, list)) and isinstance(b, (tuple, list)) and len(a) == len(b) and \
            all(same(x, y) for x, y in zip(a, b))
    return nf.equal(Rat.lift(a), Rat.lift(b))


def mode():
    import os
    return os.environ.get("TSVERIF_SOLVER_REPLAY", "")


def skipped(ctx, rule, fi):
    """Variant self-tests / seed checks of edits outside the driver, the interpolation and the step functions."""
    if mode() != "skip":
        return False
    ctx.rep.ok(rule, astq.loc(fi), f"{fi.key}::{rule}::not-replayed", "edit outside the driver and the steps: base verdict applies")
    ctx.floor(rule, 1)
    return True


def scenarios(ctx):
    dom = solvers.Domains(ctx.model)
    scs = list(steps.scenarios(ctx.model, dom))
    if ctx.tier == "quick":
        scs = list(steps.distinct_step_scenarios(ctx.model, dom))
    if mode() == "light":
        # one scenario per solver class, the cheap ones
        seen, out = set(), []
        for sc in scs:
            if sc.cls.name not in seen and not (sc.cls.name == "SRK" and "additive" not in sc.label):
                seen.add(sc.cls.name)
                out.append(sc)
        scs = out
    return dom, scs


# ------------------------------------------------------------------------------------------------ R12.10
def r12_10(ctx):
    """Output-time invariance of a whole solve.  dt = 1/8.  Reference: outputs at every grid point of [0, 3/8] (and of
    [0, 5/16], whose last step is clipped).  Then (a) only the end points, (b) outputs on the grid, strictly inside steps
    (two inside one step) and at the end: every value at a grid time must be the reference's grid state, every value
    inside a step the linear interpolant of the reference's two neighbouring grid states, ys[0] is y0, and the extra
    solver state handed back is the reference's."""
    rep, model = ctx.rep, ctx.model
    rep.rule("R12.10", "replay of whole fixed-step solves with the real steps: outputs at grid times are the grid states, outputs "
                       "inside a step their linear interpolants, whatever other output times are requested; clipped last "
                       "step included; ys[0] is y0")
    dom, scs = scenarios(ctx)
    integ = model.func(ik.BASE_SOLVER, "BaseSDESolver.integrate")
    rep.analysed(integ)
    if skipped(ctx, "R12.10", integ):
        return
    dt = F(1, 8)
    n = 0
    for sc in scs:
        rep.analysed(sc.step_fi)
        big = heavy(model, dom, sc)
        horizons = (F(3, 8), F(5, 16)) if not big else (F(1, 4), F(3, 16))
        for T in (horizons if ctx.tier != "quick" else horizons[1:]):
            grid = [k * dt for k in range(int(T / dt) + 1)]
            if grid[-1] != T:
                grid.append(T)
            construct = f"{sc.step_fi.key}::R12.10::{sc.label}::T={T}"
            try:
                bad = []
                mixed = sorted({t for t in (F(0), F(1, 16), F(1, 8), F(5, 32), F(7, 32), F(9, 32), T) if t <= T})
                # first the clock alone (the step function replaced by a recorder): "the solver advances on the grid
                # ts[0] + k dt regardless of the requested output times".  A driver that steps elsewhere is reported here;
                # its states are not evaluated (off the grid the number of steps, and with it the size of the canonical
                # forms, is not bounded by the horizon)
                for ts in (grid, [F(0), T], mixed, [F(1, 32) + t for t in grid], [F(-3, 16) + t for t in grid]):
                    why = off_grid(model, dom, sc, ts, dt, ts[0] + T)
                    if why:
                        bad.append(why)
                        break
                if bad:
                    raise _OffGrid()
                ref, ref_extra = solve(model, dom, sc, grid, dt)
                state = dict(zip(grid, ref))
                # the grid is ts[0] + k dt, whatever ts[0] is: the driver's grid states are the step function chained along
                # that grid by this rule's own loop, also for a start that is no multiple of dt and for a negative one
                for t_start in (F(1, 32), F(-3, 16)):
                    g2 = [t_start + (t - grid[0]) for t in grid]
                    got, got_extra = solve(model, dom, sc, g2, dt)
                    want, want_extra = chain(model, dom, sc, g2, dt)
                    if not (same(got, want) and same(got_extra, want_extra)):
                        k = next((i for i, (x, y_) in enumerate(zip(got, want)) if not same(x, y_)), len(want))
                        bad.append(f"from ts[0] = {t_start} the state reported at ts[0] + {k} steps is not the step function applied "
                                   f"{k} times along ts[0] + k dt")
                        break
                if not same(ref[0], nf.sym("y0")):
                    bad.append("ys[0] is not y0")
                for label, ts in (("end points only", [F(0), T]),
                                  ("outputs on the grid, inside steps and twice inside one step", mixed)):
                    ys, extra = solve(model, dom, sc, ts, dt)
                    if len(ys) != len(ts):
                        bad.append(f"{label}: {len(ys)} outputs for {len(ts)} output times")
                        continue
                    for t, y in zip(ts, ys):
                        if t in state:
                            want = state[t]
                        else:
                            lo = max(g for g in grid if g < t)
                            hi = min(g for g in grid if g > t)
                            want = Rat.lift(state[lo]) + (t - lo) / (hi - lo) * (Rat.lift(state[hi]) - Rat.lift(state[lo]))
                        if not same(y, want):
                            bad.append(f"{label}: the output at t = {t} is not the {'grid state' if t in state else 'linear interpolant of the neighbouring grid states'}")
                            break
                    if not same(extra, ref_extra):
                        bad.append(f"{label}: the extra solver state handed back differs from the reference solve's")
            except _OffGrid:
                pass
            except SimRaise as e:
                bad = [f"the solve raises {e.exc_name}: {e.message}"]
            n += 1
            rep.check(not bad, "R12.10", astq.loc(integ), construct,
                      f"{sc.label}, dt = 1/8, horizon {T}: {'; '.join(bad[:2])}: the returned values depend on which other "
                      f"output times were requested", "one dt-grid trajectory, whatever the output times")
    ctx.floor("R12.10", 6 if mode() == "light" else 16)


# ------------------------------------------------------------------------------------------------ R13.8
def r13_8(ctx):
    """Chunked equals one-shot, for whole solves: [0, 3/8] with dt = 1/8 at once, and in two and in three chunks, each
    restarted from the returned final state and the returned extra solver state; every state at a chunk boundary, the
    final state and the final extra state must be the one-shot solve's, as canonical forms."""
    rep, model = ctx.rep, ctx.model
    rep.rule("R13.8", "replay of whole solves with the real steps: solving [0, 3/8] in two and in three chunks, restarted from the "
                      "returned state and extra solver state, returns the one-shot solve's states and final extra state")
    dom, scs = scenarios(ctx)
    integ = model.func(ik.BASE_SOLVER, "BaseSDESolver.integrate")
    rep.analysed(integ)
    if skipped(ctx, "R13.8", integ):
        return
    dt = F(1, 8)
    for sc in scs:
        rep.analysed(sc.step_fi)
        construct = f"{sc.step_fi.key}::R13.8::{sc.label}"
        try:
            cuts4 = [F(0), F(1, 8), F(1, 4), F(3, 8)] if not heavy(model, dom, sc) else [F(0), F(1, 8), F(1, 4)]
            one, one_extra = solve(model, dom, sc, cuts4, dt)
            bad = []
            for label, cuts in (("two chunks", [cuts4[0], cuts4[-2], cuts4[-1]]), ("one step per chunk", cuts4)):
                y, extra = nf.sym("y0"), None
                for a, b in zip(cuts[:-1], cuts[1:]):
                    ys, extra = solve(model, dom, sc, [a, b], dt, y0=y, extra0=extra)
                    y = ys[-1]
                    if not same(y, one[cuts4.index(b)]):
                        bad.append(f"{label}: the state at t = {b} differs from the one-shot solve's")
                        break
                else:
                    if not same(extra, one_extra):
                        bad.append(f"{label}: the final extra solver state differs from the one-shot solve's")
        except SimRaise as e:
            bad = [f"the solve raises {e.exc_name}: {e.message}"]
        rep.check(not bad, "R13.8", astq.loc(integ), construct,
                  f"{sc.label}, dt = 1/8 over [0, 3/8]: {'; '.join(bad[:2])}", "identical canonical forms")
    ctx.floor("R13.8", 6 if mode() == "light" else 8)


# ------------------------------------------------------------------------------------------------ R15.10
def r15_10(ctx):
    """Algebraic reversibility of a whole solve: reversible Heun forward over [0, T] (two and three whole steps of dt = 1/8), then the same solver on the time-reversed, negated SDE (f~(t, y) = -f(-t, y), g~ likewise)
    driven by the reversed Brownian motion (the real ReverseBrownian.__call__ over the same opaque path), from the final
    state with the negated final (f, g) extras: every forward state must come back, as a polynomial identity."""
    rep, model = ctx.rep, ctx.model
    rep.rule("R15.10", "replay: reversible Heun forward over two and three steps, then on the negated, "
                       "time-reversed SDE with ReverseBrownian and the negated final extras, returns to every forward state "
                       "as an algebraic identity")
    dom, scs = scenarios(ctx)
    dom_all = list(steps.scenarios(model, dom))
    rh = [sc for sc in dom_all if sc.cls.name == "ReversibleHeun"]
    if not rh:
        raise AnalysisError("no ReversibleHeun scenario found")
    integ = model.func(ik.BASE_SOLVER, "BaseSDESolver.integrate")
    rep.analysed(integ)
    rb = model.func("torchsde/_brownian/derived.py", "ReverseBrownian.__call__")
    rep.analysed(rb)
    if skipped(ctx, "R15.10", integ):
        return
    dt = F(1, 8)
    for sc in rh:
        rep.analysed(sc.step_fi)
        for T in (F(1, 4), F(3, 8)):          # whole steps: the reversed solve walks the mirrored grid only then (R15.3)
            construct = f"{sc.step_fi.key}::R15.10::{sc.label}::T={T}"
            grid = [k * dt for k in range(int(T / dt) + 1)]
            if grid[-1] != T:
                grid.append(T)
            try:
                sde = solverkit.make_sde()
                bm = solverkit.make_bm(solverkit.BMLog())
                fwd, extra = solve(model, dom, sc, grid, dt, sde=sde, bm=bm)
                # the negated, time-reversed SDE over the same opaque F, G
                neg = Obj("negated-sde", attrs={})

                def wrap(name, sde=sde):
                    inner = sde.attrs[name]

                    def f(it, a, k, n, fi):
                        a = list(a)
                        a[0] = -Rat.lift(a[0]) if not isinstance(a[0], Fraction) else -a[0]
                        r = inner.fn(it, a, k, n, fi)
                        return tuple(-Rat.lift(x) for x in r) if isinstance(r, (tuple, list)) else -Rat.lift(r)
                    return Intrinsic(f"neg.{name}", f, params=getattr(inner, "params", None))
                for name, v in sde.attrs.items():
                    if isinstance(v, Intrinsic) and name not in ("prod",):
                        neg.attrs[name] = wrap(name)
                    else:
                        neg.attrs[name] = v
                rev = Obj("reverse-bm", cls=model.cls("torchsde/_brownian/derived.py", "ReverseBrownian"),
                          attrs={"base_brownian": bm})
                e_neg = tuple((-Rat.lift(x)) if i < 2 else x for i, x in enumerate(extra))
                back, _ = solve(model, dom, sc, [-t for t in reversed(grid)], dt, y0=fwd[-1], extra0=e_neg, sde=neg, bm=rev)
                bad = [f"the state at t = {t} is not reconstructed" for t, a, b in zip(grid, fwd, reversed(back)) if not same(a, b)]
            except SimRaise as e:
                bad = [f"a solve raises {e.exc_name}: {e.message}"]
            rep.check(not bad, "R15.10", astq.loc(sc.step_fi), construct,
                      f"{sc.label}, dt = 1/8, forward over [0, {T}] and back: {'; '.join(bad[:2])}: the reverse solve is not the "
                      f"algebraic inverse of the forward solve", "every forward state reconstructed")
    ctx.floor("R15.10", 4)


# ------------------------------------------------------------------------------------------------ R12.11
def _chained_driver(model, dom, sc, ts, dt, y0=None, extra0=None):
    """The real `integrate` over `ts` with `self.step` an uninterpreted *function* of (t0, t1, state, extra state): the
    outputs are canonical forms over STEP_Y / STEP_E atoms, which name the whole history of a state (every step taken
    before it, with its end points).  Returns (outputs, final extra state, step pairs)."""
    sde = solverkit.make_sde()
    sde.attrs["sde_type"], sde.attrs["noise_type"] = sc.sde_type, sc.noise_type
    bm = solverkit.make_bm(solverkit.BMLog())
    it = Interp(model, _Hooks(2))
    it.max_loop = 4096
    it.size_limit = SIZE_LIMIT
    so = solverkit.solver_obj(model, sc.cls, sde, bm, dict(sc.options),
                              extra_attrs={"dt": F(dt), "adaptive": False, "dt_min": F(1, 10 ** 5)})
    pairs = []

    def step(interp, args, kwargs, node, fi):
        if len(args) != 4 or kwargs:
            raise AnalysisError("self.step is expected to be called with four positional arguments", where=astq.loc(fi, node))
        t0, t1, y, e = args
        pairs.append(tuple(x.const_value() if isinstance(x, Rat) else x for x in (t0, t1)))
        e0 = e[0] if isinstance(e, (tuple, list)) and len(e) == 1 else nf.sym("EXTRA_OF_ANOTHER_SHAPE")
        return _step_y(t0, t1, y, e0), (_step_e(t0, t1, y, e0),)

    so.attrs["step"] = Intrinsic("step", step, params=["t0", "t1", "y0", "extra0"])
    integ = model.lookup_method(sc.cls, "integrate")
    ys, extra = it.call_function(integ, [so, nf.sym("y0") if y0 is None else y0, list(ts),
                                         (nf.sym("X0"),) if extra0 is None else tuple(extra0)], {})
    if isinstance(ys, Cat):
        ys = list(ys.parts)
    elif ik.is_output_buffer(ys):
        ys = [v for _, v in ik.output_writes(ys)]
    return list(ys), extra, pairs


_STEP_NAMES = {}      # (kind, t0, t1, canonical state, canonical extra state) -> short tensor symbol


def _interned(kind, t0, t1, y, e):
    """STEP_<kind>[t0, t1, y, e] as an uninterpreted function whose values are interned as short symbols: equal arguments
    (as canonical forms) give the same symbol, different ones different symbols -- and the canonical forms stay small
    however long the chain of steps is (a nested atom would be re-sorted and re-hashed at every operation)."""
    k = (kind, repr(Rat.lift(t0).key()), repr(Rat.lift(t1).key()), repr(Rat.lift(y).key()), repr(Rat.lift(e).key()))
    name = _STEP_NAMES.get(k)
    if name is None:
        name = _STEP_NAMES[k] = f"{kind}{len(_STEP_NAMES)}"
    return nf.sym(name)


def _step_y(t0, t1, y, e):
    return _interned("S", t0, t1, y, e)


def _step_e(t0, t1, y, e):
    return _interned("E", t0, t1, y, e)


def _random_output_times(rnd, dt):
    """A strictly increasing list of output times on the lattice ts[0] + j dt/32: gaps from dt/32 (many outputs inside one
    step) to 5/2 dt (outputs steps apart), aligned with the dt grid or not, starts negative, zero or positive."""
    u = dt / 32
    start = rnd.choice([F(0), F(0), -rnd.randint(1, 200) * u, rnd.randint(1, 200) * u, rnd.randint(-3, 3) * dt])
    n = rnd.randint(2, 7)
    style = rnd.random()
    ts = [start]
    for _ in range(n - 1):
        if style < 0.25:
            gap = rnd.randint(1, 12) * u                      # crowded: several outputs inside one step
        elif style < 0.5:
            gap = rnd.randint(1, 3) * 32 * u                  # on the grid (when the start is)
        else:
            gap = rnd.randint(1, 80) * u
        ts.append(ts[-1] + gap)
    # intermediate output times a hair before / after where they were (grid points among them): 1e-4 .. 1e-12 of a step.
    # The end points stay on the lattice, so that the remainder of the last step is never of rounding-error size (that
    # case, where the repaired driver merges the remainder into the last step, is R12.7's).
    for j in range(1, len(ts) - 1):
        if rnd.random() < 0.3:
            moved = ts[j] + rnd.choice([-1, 1]) * dt / 10 ** rnd.choice([4, 6, 9, 12])
            if ts[j - 1] < moved < ts[j + 1]:
                ts[j] = moved
    return ts


def r12_11(ctx):
    """The statement of C12 itself, for seeded random output-time lists: with `self.step` an uninterpreted function the real
    driver's outputs must be -- by this rule's own loop along ts[0] + k dt clipped to ts[-1] -- ys[0] = y0, the grid state at
    a grid time, the linear interpolant of the two neighbouring grid states inside a step; the steps taken are the
    consecutive grid points; the extra state handed back is the last grid state's; one output per output time."""
    import random
    rep, model = ctx.rep, ctx.model
    rep.rule("R12.11", "seeded random output-time lists (crowded, sparse, on and off the grid, shifted and negative starts, four "
                       "step sizes), real driver with an uninterpreted chained step: steps taken = ts[0] + k dt clipped to "
                       "ts[-1]; outputs = grid states / linear interpolants of the neighbouring grid states; ys[0] = y0; extra "
                       "state = the last grid state's")
    dom = solvers.Domains(model)
    drivers = {}
    for sc in steps.scenarios(model, dom):
        # the driver is one function, but it can see the declared noise and SDE type: one scenario for each pair
        drivers.setdefault((model.lookup_method(sc.cls, "integrate").key, str(sc.noise_type), str(sc.sde_type)), sc)
    n_lists = 25 if mode() in ("light", "skip") else (100 if ctx.tier == "quick" else 1500)
    for (key, noise, kind), sc in sorted(drivers.items()):
        integ = model.lookup_method(sc.cls, "integrate")
        rep.analysed(integ)
        rnd = random.Random(f"R12.11/{ctx.seed}/{noise}/{kind}")
        key = f"{key}::R12.11::{noise}/{kind}"
        failures = {}
        done = 0
        for i in range(n_lists):
            dt = rnd.choice([F(1, 8), F(1, 3), F(5, 7), F(2)])
            ts = _random_output_times(rnd, dt)
            T = ts[-1]
            # by definition
            t, y, e = ts[0], nf.sym("y0"), nf.sym("X0")
            state, grid = {t: y}, []
            while t < T:
                nxt = min(t + dt, T)
                y, e = _step_y(t, nxt, y, e), _step_e(t, nxt, y, e)
                grid.append((t, nxt))
                state[nxt] = y
                t = nxt
            shown = f"dt = {dt}, ts = [{', '.join(str(x) for x in ts)}]"
            try:
                ys, extra, pairs = _chained_driver(model, dom, sc, ts, dt)
            except SimRaise as ex:
                failures.setdefault("raises", f"{shown}: the solve raises {ex.exc_name}: {ex.message}")
                continue
            done += 1
            if pairs != grid:
                k = next((j for j, (a, b) in enumerate(zip(pairs, grid)) if a != b), min(len(pairs), len(grid)))
                took = f"steps from {pairs[k][0]} to {pairs[k][1]}" if k < len(pairs) else "stops"
                due = f"({grid[k][0]}, {grid[k][1]})" if k < len(grid) else "no further step"
                failures.setdefault("step-sequence", f"{shown}: step {k + 1}: the driver {took} where the grid ts[0] + k dt has {due}")
                continue                       # the values of another grid are not compared
            if len(ys) != len(ts):
                failures.setdefault("one-output-per-time", f"{shown}: {len(ys)} outputs")
                continue
            if not same(ys[0], nf.sym("y0")):
                failures.setdefault("ys0", f"{shown}: ys[0] is `{ys[0]}`")
            knots = sorted(state)
            for t, got in zip(ts[1:], ys[1:]):
                if t in state:
                    if not same(got, state[t]):
                        failures.setdefault("grid-output", f"{shown}: the output at the grid time {t} is not the grid state")
                else:
                    lo = max(g for g in knots if g < t)
                    hi = min(g for g in knots if g > t)
                    want = Rat.lift(state[lo]) + (t - lo) / (hi - lo) * (Rat.lift(state[hi]) - Rat.lift(state[lo]))
                    if not same(got, want):
                        failures.setdefault("interpolated-output", f"{shown}: the output at t = {t}, inside the step ({lo}, {hi}), is "
                                                                   f"not the linear interpolant of the two grid states")
            ex0 = extra[0] if isinstance(extra, (tuple, list)) and len(extra) == 1 else extra
            if not same(ex0, e):
                failures.setdefault("extra-state", f"{shown}: the extra solver state handed back is not the last grid state's")
        for clause in ("raises", "step-sequence", "one-output-per-time", "ys0", "grid-output", "interpolated-output", "extra-state"):
            rep.check(clause not in failures, "R12.11", astq.loc(integ), f"{key}::{clause}",
                      f"{failures.get(clause)} (first of the {n_lists} seeded lists that fails this clause)",
                      f"{done} seeded output-time lists")
    ctx.floor("R12.11", 7 * 8)


# ------------------------------------------------------------------------------------------------ R13.9
def r13_9(ctx):
    """C13's statement for seeded random chunkings: a horizon of 1..12 steps (the last one clipped or not), cut at a random
    subset of its grid points, each chunk solved by the real driver from the state and extra state the previous chunk
    returned (with further output times inside the chunks): the states at the cuts, the final state and the final extra
    state are the one-shot solve's.  `self.step` is an uninterpreted function whose values name their whole history."""
    import random
    rep, model = ctx.rep, ctx.model
    rep.rule("R13.9", "seeded random chunkings of a fixed-step solve at grid points (any number of chunks, clipped last step, "
                      "further outputs inside the chunks), real driver with an uninterpreted chained step: every cut state, the "
                      "final state and the final extra state equal the one-shot solve's")
    dom = solvers.Domains(model)
    drivers = {}
    for sc in steps.scenarios(model, dom):
        drivers.setdefault((model.lookup_method(sc.cls, "integrate").key, str(sc.noise_type), str(sc.sde_type)), sc)
    n_cases = 15 if mode() in ("light", "skip") else (60 if ctx.tier == "quick" else 800)
    for (key, noise, kind), sc in sorted(drivers.items()):
        integ = model.lookup_method(sc.cls, "integrate")
        rep.analysed(integ)
        rnd = random.Random(f"R13.9/{ctx.seed}/{noise}/{kind}")
        failures, done = {}, 0
        for i in range(n_cases):
            dt = rnd.choice([F(1, 8), F(1, 3), F(5, 7), F(2)])
            t0 = rnd.choice([F(0), -rnd.randint(1, 200) * dt / 32, rnd.randint(1, 200) * dt / 32])
            n = rnd.randint(2, 12)
            T = t0 + n * dt - rnd.choice([0, 0, rnd.randint(1, 31)]) * dt / 32            # clipped last step or not
            inner = [t0 + k * dt for k in range(1, n) if t0 + k * dt < T]
            cuts = [t0] + sorted(rnd.sample(inner, rnd.randint(1, len(inner)))) + [T] if inner else [t0, T]
            shown = f"dt = {dt}, [t0, T] = [{t0}, {T}], cuts at [{', '.join(str(c) for c in cuts[1:-1])}]"
            try:
                one, one_extra, _ = _chained_driver(model, dom, sc, cuts, dt)
                y, extra = nf.sym("y0"), None
                for j, (a, b) in enumerate(zip(cuts[:-1], cuts[1:])):
                    # further output times inside the chunk (they must not matter)
                    mids = sorted({a + (b - a) * F(rnd.randint(1, 63), 64) for _ in range(rnd.randint(0, 2))})
                    ys, extra, _ = _chained_driver(model, dom, sc, [a] + mids + [b], dt, y0=y, extra0=extra)
                    y = ys[-1]
                    if not same(y, one[j + 1]):
                        failures.setdefault("cut-state", f"{shown}: after chunk {j + 1} the state at t = {b} is not the one-shot solve's")
                        break
                else:
                    if not same(tuple(extra), tuple(one_extra)):
                        failures.setdefault("extra-state", f"{shown}: the final extra solver state is not the one-shot solve's")
                done += 1
            except SimRaise as ex:
                failures.setdefault("raises", f"{shown}: a solve raises {ex.exc_name}: {ex.message}")
        for clause in ("raises", "cut-state", "extra-state"):
            rep.check(clause not in failures, "R13.9", astq.loc(integ), f"{key}::R13.9::{noise}/{kind}::{clause}",
                      f"{failures.get(clause)} (first of the {n_cases} seeded chunkings that fails this clause)",
                      f"{done} seeded chunkings")
    ctx.floor("R13.9", 3 * 8)


# ------------------------------------------------------------------------------------------------ R14.9
class _NoTermination(Exception):
    pass


class _ScriptedController(_Hooks):
    """The adaptive driver's two questions -- how large is the error of this trial, what does the controller propose next --
    answered from a seeded script: an error from a fixed menu (well below 1, exactly 1, just above 1, huge) and a factor
    the real controller could return for it (rejected: [1/5, 1); accepted: [1, 7/5])."""
    CAP = 4000

    def __init__(self, rnd):
        _Hooks.__init__(self, 2)
        self.rnd = rnd
        self.step_calls = []       # (t0, t1, y, e, result y, result e)
        self.trials = []           # {calls, err_args, err, length, factor}

    def on_call(self, interp, callee, args, kwargs, node, fi):
        from ..interp import Closure
        if isinstance(callee, Closure) and callee.fi is not None and callee.fi.name == "compute_error":
            if len(self.trials) >= self.CAP:
                raise _NoTermination()
            err = self.rnd.choice([F(1, 100), F(1, 10), F(1, 2), F(1), F(101, 100), F(50)])
            self.trials.append({"calls": self.step_calls[:], "err_args": list(args[:2]), "tols": list(args[2:4]), "err": err})
            del self.step_calls[:]
            return err
        if isinstance(callee, Closure) and callee.fi is not None and callee.fi.name == "update_step_size":
            a = list(args)
            err = kwargs.get("error_estimate", a[0] if a else None)
            prev = kwargs.get("prev_step_size", a[1] if len(a) > 1 else None)
            prev = prev.const_value() if isinstance(prev, Rat) else prev
            if not isinstance(prev, (Fraction, int)) or not self.trials:
                raise AnalysisError("the controller is asked about a step size that is no concrete number in this replay",
                                    where=astq.loc(fi, node))
            f = self.rnd.choice([F(1, 5), F(1, 2), F(9, 10)] if err > 1 else [F(1), F(6, 5), F(7, 5)])
            self.trials[-1].update(asked_err=err, asked_len=F(prev), factor=f)
            return F(prev) * f, nf.sym(f"RATIO{len(self.trials)}", True)
        return _Hooks.on_call(self, interp, callee, args, kwargs, node, fi)


def _adaptive_solve(model, dom, sc, ts, dt, dt_min, rnd, cap):
    sde = solverkit.make_sde()
    sde.attrs["sde_type"], sde.attrs["noise_type"] = sc.sde_type, sc.noise_type
    bm = solverkit.make_bm(solverkit.BMLog())
    hooks = _ScriptedController(rnd)
    hooks.CAP = cap
    it = Interp(model, hooks)
    it.max_loop = 3 * cap
    it.size_limit = SIZE_LIMIT
    so = solverkit.solver_obj(model, sc.cls, sde, bm, dict(sc.options),
                              extra_attrs={"dt": F(dt), "adaptive": True, "dt_min": F(dt_min),
                                           "rtol": nf.sym("RTOL", True), "atol": nf.sym("ATOL", True)})

    def step(interp, args, kwargs, node, fi):
        if len(args) != 4 or kwargs:
            raise AnalysisError("self.step is expected to be called with four positional arguments", where=astq.loc(fi, node))
        t0, t1, y, e = args
        t0, t1 = (x.const_value() if isinstance(x, Rat) else x for x in (t0, t1))
        e0 = e[0] if isinstance(e, (tuple, list)) and len(e) == 1 else nf.sym("EXTRA_OF_ANOTHER_SHAPE")
        ry, re_ = _step_y(t0, t1, y, e0), _step_e(t0, t1, y, e0)
        hooks.step_calls.append((t0, t1, y, e0, ry, re_))
        return ry, (re_,)

    so.attrs["step"] = Intrinsic("step", step, params=["t0", "t1", "y0", "extra0"])
    integ = model.lookup_method(sc.cls, "integrate")
    ys, extra = it.call_function(integ, [so, nf.sym("y0"), list(ts), (nf.sym("X0"),)], {})
    if isinstance(ys, Cat):
        ys = list(ys.parts)
    elif ik.is_output_buffer(ys):
        ys = [v for _, v in ik.output_writes(ys)]
    return list(ys), extra, hooks


def r14_9(ctx):
    """C14's statement, clause by clause, on the trace of the real adaptive driver under seeded scripted schedules (errors and
    controller factors from a script, `self.step` an uninterpreted function whose values name their history)."""
    import random
    rep, model = ctx.rep, ctx.model
    rep.rule("R14.9", "seeded scripted controller schedules (errors below / at / above 1, shrink factors 1/5..9/10, growth factors "
                      "1..7/5, dt_min above dt, a quarter and a sixteenth of dt), real adaptive driver with an uninterpreted "
                      "chained step: terminates; every trial = one full step and two chained half steps through the midpoint from "
                      "the current state, its error asked of exactly those two results; trials start at the current time, are not "
                      "shorter than dt_min unless clipped to ts[-1]; error <= 1 => accepted, error > 1 with a proposal above "
                      "dt_min => rejected, state unchanged, retried strictly smaller; accepted steps tile [ts[0], ts[-1]]; outputs = "
                      "two-half-step states / their linear interpolants; extra state = the last accepted step's")
    dom = solvers.Domains(model)
    drivers = {}
    for sc in steps.scenarios(model, dom):
        drivers.setdefault((model.lookup_method(sc.cls, "integrate").key, str(sc.noise_type), str(sc.sde_type)), sc)
    n_cases = 10 if mode() in ("light", "skip") else (40 if ctx.tier == "quick" else 500)
    clauses = ("raises", "terminates", "trial-shape", "error-arguments", "trial-start", "trial-length", "accepts", "rejects",
               "retried-smaller", "tiling", "ends-at-the-end", "one-output-per-time", "ys0", "knot-output", "interpolated-output",
               "extra-state")
    for (key, noise, kind), sc in sorted(drivers.items()):
        integ = model.lookup_method(sc.cls, "integrate")
        rep.analysed(integ)
        rnd = random.Random(f"R14.9/{ctx.seed}/{noise}/{kind}")
        failures, done, n_trials = {}, 0, 0
        for i in range(n_cases):
            dt = rnd.choice([F(1, 8), F(1, 3)])
            dt_min = rnd.choice([dt * 2, dt / 4, dt / 16])
            ts = _random_output_times(rnd, dt)
            T = ts[-1]
            # a driver that follows the statement needs at most (T - t0) / dt_min accepted steps, and between two of them at
            # most log(16) / log(10/9) < 28 rejections (every rejection shrinks by 9/10 or more, down to dt_min)
            hooks_cap = int(30 * (T - ts[0]) / dt_min) + 30
            shown = f"dt = {dt}, dt_min = {dt_min}, ts = [{', '.join(str(x) for x in ts)}], schedule #{i}"
            bad = lambda clause, text: failures.setdefault(clause, f"{shown}: {text}")       # noqa: E731
            try:
                ys, extra, hooks = _adaptive_solve(model, dom, sc, ts, dt, dt_min, rnd, hooks_cap)
            except _NoTermination:
                bad("terminates", f"more than {hooks_cap} trials")
                continue
            except SimRaise as ex:
                bad("raises", f"the solve raises {ex.exc_name}: {ex.message}")
                continue
            done += 1
            n_trials += len(hooks.trials)
            if hooks.step_calls:
                bad("trial-shape", f"{len(hooks.step_calls)} step(s) taken after the last error estimate")
            t, y, e = ts[0], nf.sym("y0"), nf.sym("X0")
            knots = {t: y}
            prev_rejected_len = None
            ok = True
            for k, tr in enumerate(hooks.trials):
                calls = tr["calls"]
                where = f"trial {k + 1}"
                full = [c for c in calls if same(c[2], y) and same(c[3], e) and c[0] == t]
                if len(calls) != 3 or len(full) != 2:
                    bad("trial-start" if len(calls) == 3 and not full else "trial-shape",
                        f"{where}: steps {[(str(c[0]), str(c[1])) for c in calls]} -- expected one full step and the first half "
                        f"step from the current state at t = {t}")
                    ok = False
                    break
                (fa, fb), (ha, hm) = sorted(((c[0], c[1]) for c in full), key=lambda p: p[1], reverse=True)
                c_full = next(c for c in full if c[1] == fb)
                c_h1 = next(c for c in full if c[1] == hm and c is not c_full)
                c_h2 = next(c for c in calls if c is not c_full and c is not c_h1)
                if not (hm == (fa + fb) / 2 and c_h2[0] == hm and c_h2[1] == fb and same(c_h2[2], c_h1[4]) and same(c_h2[3], c_h1[5])):
                    bad("trial-shape", f"{where} over ({fa}, {fb}): the half steps are ({c_h1[0]}, {c_h1[1]}) and ({c_h2[0]}, {c_h2[1]}), "
                                       f"or the second does not start from the first's result")
                    ok = False
                    break
                ea = tr["err_args"]
                if not (len(ea) == 2 and ((same(ea[0], c_full[4]) and same(ea[1], c_h2[4])) or (same(ea[1], c_full[4]) and same(ea[0], c_h2[4])))):
                    bad("error-arguments", f"{where}: the error is not estimated from the full step's and the two half steps' results")
                if not (fa < fb <= T):
                    bad("tiling", f"{where}: the trial ({fa}, {fb}) does not advance inside [ts[0], ts[-1]]")
                    ok = False
                    break
                length = fb - fa
                if length < dt_min and fb != T:
                    bad("trial-length", f"{where}: a trial of length {length} < dt_min that is not clipped to ts[-1]")
                if prev_rejected_len is not None and not length < prev_rejected_len:
                    bad("retried-smaller", f"{where}: the retry after a rejected trial of length {prev_rejected_len} has length {length}")
                # what became of the trial: read off the next trial's start (or the returned state, for the last one)
                if k + 1 < len(hooks.trials):
                    nxt = [c for c in hooks.trials[k + 1]["calls"]]
                    starts = {c[0] for c in nxt}
                    if fb in starts and any(same(c[2], c_h2[4]) and same(c[3], c_h2[5]) for c in nxt if c[0] == fb):
                        accepted = True
                    elif fa in starts and any(same(c[2], y) and same(c[3], e) for c in nxt if c[0] == fa):
                        accepted = False
                    else:
                        bad("tiling", f"{where} over ({fa}, {fb}): the next trial starts neither from its two-half-step result at {fb} "
                                      f"nor from the unchanged state at {fa}")
                        ok = False
                        break
                else:
                    ex0 = extra[0] if isinstance(extra, (tuple, list)) and len(extra) == 1 else extra
                    accepted = same(ex0, c_h2[5])
                err = tr["err"]
                proposal = tr.get("asked_len", length) * tr.get("factor", 1)
                if tr.get("asked_err") != err or tr.get("asked_len") != length:
                    bad("error-arguments", f"{where}: the controller is asked about error {tr.get('asked_err')} and a step of "
                                           f"{tr.get('asked_len')}; the trial had error {err} and length {length}")
                if err <= 1 and not accepted:
                    bad("accepts", f"{where}: error {err} <= 1 and the step is not accepted")
                if err > 1 and proposal > dt_min and accepted:
                    bad("rejects", f"{where}: error {err} > 1, the controller proposes {proposal} > dt_min, and the step is accepted")
                if accepted:
                    t, y, e = fb, c_h2[4], c_h2[5]
                    knots[t] = y
                    prev_rejected_len = None
                else:
                    prev_rejected_len = length
            if not ok:
                continue
            if t != T:
                bad("ends-at-the-end", f"the accepted steps end at {t}, not at ts[-1] = {T}")
                continue
            ex0 = extra[0] if isinstance(extra, (tuple, list)) and len(extra) == 1 else extra
            if not same(ex0, e):
                bad("extra-state", "the extra solver state handed back is not the last accepted step's")
            if len(ys) != len(ts):
                bad("one-output-per-time", f"{len(ys)} outputs")
                continue
            if not same(ys[0], nf.sym("y0")):
                bad("ys0", f"ys[0] is `{ys[0]}`")
            ks = sorted(knots)
            for tt, got in zip(ts[1:], ys[1:]):
                if tt in knots:
                    if not same(got, knots[tt]):
                        bad("knot-output", f"the output at the accepted time {tt} is not the two-half-step state")
                else:
                    lo = max(g for g in ks if g < tt)
                    hi = min(g for g in ks if g > tt)
                    want = Rat.lift(knots[lo]) + (tt - lo) / (hi - lo) * (Rat.lift(knots[hi]) - Rat.lift(knots[lo]))
                    if not same(got, want):
                        bad("interpolated-output", f"the output at t = {tt}, inside the accepted step ({lo}, {hi}), is not the linear "
                                                   f"interpolant of the two accepted states")
        for clause in clauses:
            rep.check(clause not in failures, "R14.9", astq.loc(integ), f"{key}::R14.9::{noise}/{kind}::{clause}",
                      f"{failures.get(clause)} (first of the {n_cases} seeded schedules that fails this clause)",
                      f"{done} seeded schedules, {n_trials} trials")
    ctx.floor("R14.9", len(clauses) * 8)
