"""C03 -- a Brownian object is one path: increments and areas obey Chen's relation (DESIGN.md section C03)."""
import ast
from fractions import Fraction

from .. import astq, nf
from ..errors import AnalysisError
from ..interp import Interp, Intrinsic, Obj, SimRaise
from ..nf import Rat
from . import brownian_kit as bk

BI, DERIVED = bk.BI, bk.DERIVED

EXPLANATION = (
    "The value functions of torchsde/_brownian are partially evaluated (ast only) into canonical polynomial forms over "
    "opaque atoms and compared with Chen's relation as polynomial identities. R03.1: in both arms of the split (left / "
    "right child, with and without space-time Levy area) W_L + W_R == W and (l+r) H == r (H_R + W_L/2) + l (H_L - W_R/2) "
    "identically in l, r and the noises. R03.2/3/5: BrownianInterval.__call__ evaluated on 1, 2 and 3 stored pieces "
    "returns W, U, A equal to the right-fold composition of the pieces by Chen's relation (the code folds from the left, "
    "so equality also shows the update order is right) and U == (tb - ta)(W/2 + H). R03.4: Davie/Foster areas and the "
    "aggregated area are antisymmetric. R03.6: the zero-length arm returns zeros for every slot and never touches the "
    "tree. R03.7: each wrapper uses an admissible (time map, output map): identity/identity (+w0 only for point "
    "evaluation), or reflection with U -> (tb-ta) W - U, A -> -A. Not decided: values after arbitrary histories (C05), "
    "floating-point tolerance. Also runs R05.5 (no in-place update of possibly cached tensors), because a mutated cached "
    "increment makes later overlapping queries disagree."
)


def r03_1(ctx):
    rep, model = ctx.rep, ctx.model
    rep.rule("R03.1", "split identities: W_L + W_R == W; (l+r) H == r (H_R + W_L/2) + l (H_L - W_R/2)")
    for have_H, halfway in ((True, False), (False, False), (True, True), (False, True)):
        L = bk.eval_split(model, have_H, True, halfway=halfway)
        R = bk.eval_split(model, have_H, False, halfway=halfway)
        fi = L["fi"]
        rep.analysed(fi)
        W, H, l, r = L["W"], L["H"], L["l"], L["r"]
        dy = "/dyadic" if halfway else ""
        construct = f"{fi.key}::R03.1::W-additive::{'H' if have_H else 'noH'}{dy}"
        rep.check(nf.equal(L["W_out"] + R["W_out"], W), "R03.1", astq.loc(fi), construct,
                  f"children increments sum to `{Rat.lift(L['W_out']) + R['W_out']}`, not to the parent's W "
                  f"({'with' if have_H else 'without'} space-time Levy area): a query for the parent interval no longer "
                  f"equals the sum of its halves", "W_L + W_R == W")
        if have_H:
            lhs = (l + r) * H
            rhs = r * (R["H_out"] + L["W_out"] * Fraction(1, 2)) + l * (L["H_out"] - R["W_out"] * Fraction(1, 2))
            rep.check(nf.equal(lhs, rhs), "R03.1", astq.loc(fi), f"{fi.key}::R03.1::H-chen{dy}",
                      "children (W, H) do not recombine to the parent's H by Chen's relation: "
                      f"(l+r)H - [r(H_R + W_L/2) + l(H_L - W_R/2)] = `{nf.reduce_sqrt(lhs - rhs)}`",
                      "(l+r) H == r (H_R + W_L/2) + l (H_L - W_R/2)")
        else:
            rep.check(L["H_out"] is None and R["H_out"] is None, "R03.1", astq.loc(fi), f"{fi.key}::R03.1::noH-none{dy}",
                      "without space-time Levy area the children must carry H = None", "H is None")
    ctx.floor("R03.1", 8)


def r03_2(ctx):
    rep, model = ctx.rep, ctx.model
    rep.rule("R03.2", "multi-piece aggregation of W, U (through H) and A equals the Chen composition of the pieces")
    # time scales of the representative ordering: pieces much longer than the tolerance; pieces of exactly one tolerance
    # cell (two distinct resolved times one `tol` apart are a genuine interval, not a zero-length query); pieces shorter
    # than a tolerance that is coarser than its own rounding grid (tol = 5e-3 rounds to 1e-3: two cells are 2e-3 < tol)
    scales = [("", None, None), ("::one-tolerance-cell", Fraction(1, 1000), Fraction(1, 1000)),
              ("::below-a-coarse-tolerance", Fraction(2, 1000), Fraction(5, 1000))]
    cases = [(n, sc) for n in ((1, 2, 3) if ctx.tier == "quick" else (1, 2, 3, 4, 5)) for sc in scales[:1]]
    cases += [(n, sc) for n in (1, 2) for sc in scales[1:]]
    for n, (tag, step, tol) in cases:
        for have_H, have_A in ((True, True), (True, False), (False, False)):
            hooks = None
            if step is not None:
                hooks = bk.BrownianHooks()
                hooks.ordering = {"T0": Fraction(0), "ta": Fraction(1), "T1": Fraction(100), "TOL": tol, "DT": Fraction(1, 7),
                                  "TREE_DT": Fraction(1), "tb": 1 + n * step}
                hooks.ordering.update({f"u{i}": 1 + i * step for i in range(1, n)})
            r = bk.eval_call(model, n, have_H, have_A, return_U=have_H, return_A=have_A, hooks=hooks)
            fi = r["fi"]
            rep.analysed(fi)
            out = r["out"]
            out = out if isinstance(out, tuple) else (out,)
            ref = bk.chen_reference(r["cuts"], n, have_H, have_A)
            base = f"{fi.key}::R03.2::{n}-pieces::{'H' if have_H else 'noH'}{'A' if have_A else ''}{tag}"
            want = [("W", ref["W"])]
            if have_H:
                want.append(("U", (r["tb"] - r["ta"]) * (ref["W"] * Fraction(1, 2) + ref["H"])))
            if have_A:
                want.append(("A", ref["A"]))
            if len(out) != len(want):
                rep.fail("R03.2", astq.loc(fi), f"{base}::arity", f"__call__ returns {len(out)} values, expected "
                         f"{[w for w, _ in want]}")
                continue
            for (name, expect), got in zip(want, out):
                ok = isinstance(got, Rat) and nf.equal(got, expect)
                rep.check(ok, "R03.2", astq.loc(fi), f"{base}::{name}",
                          f"over {n} stored piece(s) the returned {name} is `{str(got)[:300]}`, which is not the Chen "
                          f"composition of the pieces `{str(expect)[:300]}`: "
                          + ("U(s,t) != U(s,u) + U(u,t) + (t-u) W(s,u)" if name == "U" else
                             "the Levy areas do not combine by Chen's relation" if name == "A" else
                             "increments are not additive"),
                          f"{name} == Chen composition")
            # the tree search is asked for exactly the query interval
            ok_loc = len(r["loc_calls"]) == 1 and nf.equal(r["loc_calls"][0][0], r["ta"]) and \
                nf.equal(r["loc_calls"][0][1], r["tb"])
            rep.check(ok_loc, "R03.2", astq.loc(fi), f"{base}::loc-args",
                      f"the tree search is called with {r['loc_calls']}, not with the query (ta, tb)", "_loc(ta, tb)")
    ctx.floor("R03.2", 40)


def r03_4(ctx):
    rep, model = ctx.rep, ctx.model
    rep.rule("R03.4", "antisymmetry: Davie/Foster area + its transpose == 0; aggregated area antisymmetric")
    for levy in ("davie", "foster"):
        r = bk.eval_davie_foster(model, levy)
        fi = r["fi"]
        rep.analysed(fi)
        A = r["A"]
        ok = isinstance(A, Rat) and nf.equal(A + nf.transpose(A), Rat.const(0))
        rep.check(ok, "R03.4", astq.loc(fi), f"{fi.key}::R03.4::{levy}",
                  f"{levy} Levy area `{A}` is not antisymmetric: A + A^T = `{A + nf.transpose(A) if isinstance(A, Rat) else A}`",
                  "A + A^T == 0")
    # aggregation keeps antisymmetry: substitute antisymmetric pieces
    r = bk.eval_call(model, 3, True, True)
    A = r["out"][2]

    def antisym(a):
        if a[0] == "t" and a[1].startswith("A"):
            return Rat.atom(a) - nf.transpose(Rat.atom(a))
        return Rat.atom(a)
    A2 = nf.map_atoms(A, antisym)
    rep.check(nf.equal(A2 + nf.transpose(A2), Rat.const(0)), "R03.4", astq.loc(r["fi"]), f"{r['fi'].key}::R03.4::aggregate",
              "the aggregated Levy area of antisymmetric pieces is not antisymmetric", "aggregate antisymmetric")
    # scalar / 1-d case: zero area
    hooks = bk.BrownianHooks(ndim=1)
    r1 = bk.eval_davie_foster(model, "davie", hooks)
    ok1 = not isinstance(r1["A"], Rat) and r1["A"] == 0 or (isinstance(r1["A"], Rat) and r1["A"].is_zero())
    rep.check(ok1, "R03.4", astq.loc(r1["fi"]), f"{r1['fi'].key}::R03.4::one-dimensional",
              f"for a one-dimensional Brownian motion the Levy area must be zero, got `{r1['A']}`", "zero area in 1-d")
    ctx.floor("R03.4", 4)


def r03_6(ctx):
    rep, model = ctx.rep, ctx.model
    rep.rule("R03.6", "zero-length query returns zeros for W, U, A and does not touch the tree")
    for have_H, have_A in ((True, True), (True, False), (False, False)):
        r = bk.eval_call(model, 2, have_H, have_A, zero_length=True, return_U=have_H, return_A=have_A)
        fi = r["fi"]
        out = r["out"] if isinstance(r["out"], tuple) else (r["out"],)
        ok = all(isinstance(x, (Rat, Fraction, int)) and Rat.lift(x).is_zero() for x in out) and not r["loc_calls"]
        rep.check(ok, "R03.6", astq.loc(fi), f"{fi.key}::R03.6::{'H' if have_H else 'noH'}{'A' if have_A else ''}",
                  f"zero-length query returns `{out}` (tree searches: {len(r['loc_calls'])}); every slot must be zero",
                  "zeros, no tree search")
    # shape of the zero Levy area: the normal path treats a sample shape with fewer than two axes as batch-only (Levy
    # area = zeros of the sample shape) and otherwise returns (*size, size[-1]); the zero-length arm must agree
    fi = model.func(BI, "BrownianInterval.__call__")

    class LowRank(bk.BrownianHooks):
        def tensor_method(self, interp, recv, name, args, kwargs, node, f2):
            if name in ("ndimension", "dim"):
                return Fraction(1)
            return bk.BrownianHooks.tensor_method(self, interp, recv, name, args, kwargs, node, f2)
    low = bk.eval_davie_foster(model, "davie", LowRank())
    if not (isinstance(low["A"], (Rat, Fraction, int)) and Rat.lift(low["A"]).is_zero()):
        raise AnalysisError("for a sample shape with fewer than two axes the Levy-area approximation is no longer "
                            "zeros_like(W): the shape convention this rule compares against has changed", where=astq.loc(low["fi"]))
    for size in ((), (Fraction(3),), (Fraction(2), Fraction(3)), (Fraction(2), Fraction(3), Fraction(4))):
        r = bk.eval_call(model, 2, True, True, zero_length=True, return_U=True, return_A=True, size=size)
        sizes = [tuple(a[0]) if a and isinstance(a[0], (tuple, list)) else None for a, k, n in r["hooks"].zeros_calls]
        want_a = tuple(size) if len(size) < 2 else tuple(size) + tuple(size[-1:])
        ok = len(sizes) == 3 and sizes[0] == tuple(size) and sizes[1] == tuple(size) and sizes[2] == want_a
        shown = [tuple(int(x) for x in s_) if s_ is not None else None for s_ in sizes]
        rep.check(ok, "R03.6", astq.loc(fi), f"{fi.key}::R03.6::zero-shapes::size={tuple(int(x) for x in size)}",
                  f"for sample shape {tuple(int(x) for x in size)} a zero-length query builds zeros of shapes {shown} for (W, H, A); "
                  f"a query of positive length returns A of shape {tuple(int(x) for x in want_a)} there (fewer than two axes: "
                  f"the sample shape itself), so results of the two kinds of query cannot be combined",
                  "same shapes as a query of positive length")
    ctx.floor("R03.6", 7)


def r03_7(ctx):
    rep, model = ctx.rep, ctx.model
    rep.rule("R03.7", "wrappers: admissible (time map, output map) pairs derived from Chen's relation")
    # ReverseBrownian: reflection (ta,tb) -> (-tb,-ta) with W -> W, U -> (tb-ta) W - U, A -> -A
    fi = None
    for ru, ra in ((False, False), (True, False), (False, True), (True, True)):
        try:
            r = bk.eval_reverse(model, ru, ra)
        except SimRaise as e:
            # refusing U / A outright is admissible
            rep.ok("R03.7", DERIVED, f"{DERIVED}::ReverseBrownian.__call__::R03.7::refuses::{ru},{ra}",
                   f"raises {e.exc_name}")
            continue
        fi = r["fi"]
        rep.analysed(fi)
        ta, tb = r["ta"], r["tb"]
        ok_time = len(r["calls"]) == 1 and nf.equal(r["calls"][0][0], -tb) and nf.equal(r["calls"][0][1], -ta)
        rep.check(ok_time, "R03.7", astq.loc(fi), f"{fi.key}::R03.7::time-map::{ru},{ra}",
                  f"ReverseBrownian queries its base on {[(str(a), str(b)) for a, b, _ in r['calls']]}, not on the "
                  f"reflected interval (-tb, -ta)", "queries (-tb, -ta)")
        if not ok_time:
            continue
        Wb, Ub, Ab = nf.fn("Wb", -tb, -ta), nf.fn("Ub", -tb, -ta), nf.fn("Ab", -tb, -ta)
        want = [Wb] + ([(tb - ta) * Wb - Ub] if ru else []) + ([-Ab] if ra else [])
        out = r["out"] if isinstance(r["out"], tuple) else (r["out"],)
        ok = len(out) == len(want) and all(isinstance(g, Rat) and nf.equal(g, w) for g, w in zip(out, want))
        rep.check(ok, "R03.7", astq.loc(fi), f"{fi.key}::R03.7::output-map" if (ru or ra) else
                  f"{fi.key}::R03.7::output-map::W-only",
                  f"ReverseBrownian(return_U={ru}, return_A={ra}) returns `{[str(x) for x in out]}`; for the reversed "
                  f"path t -> -W(-t) Chen's relation requires `{[str(x) for x in want]}` (U -> (tb-ta) W - U, A -> -A)",
                  "W, (tb-ta) W - U, -A of the reflected interval")
    # BrownianPath / BrownianTree: identity time map; +w0 only on the point-evaluation arm without U/A
    for cname in ("BrownianPath", "BrownianTree"):
        cls = model.cls(DERIVED, cname)
        call = cls.methods.get("__call__")
        if call is None:
            raise AnalysisError(f"{cname}.__call__ vanished", where=DERIVED)
        rep.analysed(call)
        for tb_given, ru, ra in ((True, False, False), (True, True, True), (False, False, False), (False, True, False)):
            calls = []

            def inner(it, obj, args, kwargs, node, f):
                calls.append((args, dict(kwargs)))
                return nf.fn("INNER", *[a for a in args if isinstance(a, Rat)]) if not (
                    kwargs.get("return_U") or kwargs.get("return_A")) else tuple(
                    nf.fn(n2, *[a for a in args if isinstance(a, Rat)]) for n2 in
                    ["INNER"] + (["INNER_U"] if kwargs.get("return_U") else []) + (["INNER_A"] if kwargs.get("return_A") else []))
            w0 = nf.sym("w0")
            me = Obj(cname, cls=cls, attrs={"_interval": Obj("interval", call_hook=inner), "_w0": w0})
            it = Interp(model, bk.BrownianHooks())
            t, tb = nf.sym("t", True), nf.sym("tb", True)
            out = it.call_function(call, [me, t] + ([tb] if tb_given else []), {"return_U": ru, "return_A": ra})
            construct = f"{call.key}::R03.7::{'interval' if tb_given else 'point'}::{ru},{ra}"
            if len(calls) != 1:
                rep.fail("R03.7", astq.loc(call), construct, f"{cname} queries its interval {len(calls)} times")
                continue
            a, kw = calls[0]
            a = list(a) + [kw.get("tb")] if len(a) == 1 and "tb" in kw else list(a)
            ok_args = nf.equal(a[0], t) and ((tb_given and len(a) > 1 and isinstance(a[1], Rat) and nf.equal(a[1], tb))
                                             or (not tb_given and (len(a) == 1 or a[1] is None)))
            ok_flags = bool(kw.get("return_U", False)) == ru and bool(kw.get("return_A", False)) == ra
            inner_val = nf.fn("INNER", *[x for x in a if isinstance(x, Rat)])
            if not ru and not ra:
                want = inner_val + w0 if not tb_given else inner_val
                ok_out = isinstance(out, Rat) and nf.equal(out, want)
            else:
                ok_out = isinstance(out, tuple) and isinstance(out[0], Rat) and nf.equal(out[0], inner_val)
            rep.check(ok_args and ok_flags and ok_out, "R03.7", astq.loc(call), construct,
                      f"{cname}({'t, tb' if tb_given else 't'}, return_U={ru}, return_A={ra}) forwards {a}, {kw} and "
                      f"returns `{out}`: increments must be passed through unchanged (w0 added only to a point "
                      f"evaluation without U/A)", "identity time map, identity output map")
    ctx.floor("R03.7", 10)


def run(ctx):
    ctx.guard(r03_1)
    ctx.guard(r03_2)
    ctx.guard(r03_4)
    ctx.guard(r03_6)
    ctx.guard(r03_7)
    # one path also means later queries see the same stored values: no in-place update of a tensor that may be cached
    from . import c05
    ctx.guard(c05.r05_5)


# ------------------------------------------------------------------------------------------------ R03.8
def method_params(fi):
    a = fi.node.args
    return [p.arg for p in a.posonlyargs + a.args][1:]


def _eval_loc_inner(model, s_, e_, mid_, ta_, tb_):
    """One activation of _Interval._loc_inner on a node [s, e] (split at mid, or a leaf if mid is None) for the query
    (ta, tb), all times being representative rationals of one *ordering*; children / parent / _split are opaque."""
    fi = model.func(BI, "_Interval._loc_inner")
    icls = model.cls(BI, "_Interval")
    actions = []

    def rec(name):
        def f(it, a, k, n, f2):
            actions.append((name, tuple(a[:2])))
            return ("GEN", name)
        return Intrinsic(name, f, params=method_params(fi))
    parent = Obj("parent", attrs={"_loc_inner": rec("parent")})
    left = Obj("left", attrs={"_loc_inner": rec("left")})
    right = Obj("right", attrs={"_loc_inner": rec("right")})
    node = Obj("node", cls=icls, attrs={"_start": Fraction(s_), "_end": Fraction(e_), "_parent": parent,
                                        "_midway": None if mid_ is None else Fraction(mid_)})
    if mid_ is not None:
        node.attrs["_left_child"], node.attrs["_right_child"] = left, right

    def split(it, a, k, n, f2):
        actions.append(("split", (a[0],)))
        node.attrs["_midway"] = a[0]
        node.attrs["_left_child"], node.attrs["_right_child"] = left, right
        return None
    node.attrs["_split"] = Intrinsic("_split", split, params=method_params(model.func(BI, "_Interval._split")))

    class H(bk.BrownianHooks):
        def on_yield(self, interp, value, n, f2):
            return None
    it = Interp(model, H())
    out = []
    try:
        it.run_generator_body(fi, [node, Fraction(ta_), Fraction(tb_), out], {})
    except SimRaise as ex:
        actions.append(("raise", (ex.exc_name,)))
    return actions, out, node, fi


def _loc_spec(s_, e_, mid_, ta, tb):
    """What one activation must do for the pieces to be an ordered contiguous cover of [ta, tb] by existing nodes."""
    if ta < s_ or tb > e_:
        return [("parent", (ta, tb))], False
    if ta == s_ and tb == e_:
        return [], True
    if mid_ is None:
        if ta == s_:
            return [("split", (tb,)), ("left", (ta, tb))], False
        return [("split", (ta,)), ("right", (ta, tb))], False
    if tb <= mid_:
        return [("left", (ta, tb))], False
    if ta >= mid_:
        return [("right", (ta, tb))], False
    return [("left", (ta, mid_)), ("right", (mid_, tb))], False


def r03_8(ctx):
    rep, model = ctx.rep, ctx.model
    rep.rule("R03.8", "tree search, one activation for every ordering of the query end points relative to the node's "
                      "(start, midpoint, end): exact match appends the node; a query inside one child is delegated "
                      "unchanged; a straddling query is cut at the midpoint, left part first; a leaf is split at the "
                      "interior query end point; anything outside goes to the parent unchanged")
    n = 0
    pts_split, pts_leaf = ((-1, 0, 2, 4, 6, 8, 9), (-1, 0, 3, 5, 8, 9)) if ctx.tier == "quick" else \
        ((-2, -1, 0, 1, 2, 3, 4, 5, 6, 7, 8, 9, 10), (-2, -1, 0, 1, 3, 5, 7, 8, 9, 10))
    # queries that coincide with the node up to a rounding error (a backward pass rebuilds the time grid from the other
    # end): they are different intervals and must be cut exactly like any other
    e = Fraction(8, 10 ** 13)
    near = [(Fraction(0), 8 - e), (e, Fraction(8)), (e, 8 - e), (Fraction(0), 4 - e), (4 + e, Fraction(8))]
    for mid_, points in ((4, pts_split), (None, pts_leaf)):
        pairs = [(ta, tb) for i, ta in enumerate(points) for tb in points[i + 1:]] + near
        for ta, tb in pairs:
            if True:
                n += 1
                actions, out, node, fi = _eval_loc_inner(model, 0, 8, mid_, ta, tb)
                want, appended = _loc_spec(0, 8, mid_, ta, tb)
                got = [(a, tuple(int(x) if isinstance(x, Fraction) and x.denominator == 1 else x for x in args))
                       for a, args in actions]
                want = [(a, tuple(int(x) if isinstance(x, Fraction) and x.denominator == 1 else x for x in args))
                        for a, args in want]
                ok = got == want and ((len(out) == 1 and out[0] is node) if appended else not out)
                kind = "leaf" if mid_ is None else "split node"
                rep.check(ok, "R03.8", astq.loc(fi), f"{fi.key}::R03.8::{kind}::ta={ta},tb={tb}",
                          f"{kind} [0, 8]{'' if mid_ is None else ' (midpoint 4)'}, query ({ta}, {tb}): the search does "
                          f"{got} and appends {len(out)} node(s); an ordered contiguous cover of the query by existing "
                          f"nodes requires {want}{' and appending the node itself' if appended else ''}", "as required")
    rep.analysed(model.func(BI, "_Interval._loc_inner"))
    ctx.floor("R03.8", 30)


_run_c03 = run


def run(ctx):
    _run_c03(ctx)
    ctx.guard(r03_8)
    # "equally through BrownianPath, BrownianTree and ReverseBrownian": a wrapper is a view of one underlying object
    from . import c05
    ctx.guard(c05.r05_7)


_run_before_replay = run


def run(ctx):
    _run_before_replay(ctx)
    # small-model replay of the real tree: the interplay of cache, search hint, dependency tree, splitting and rounding over
    # whole query histories, on exact rationals with symbolic noise (replay.py)
    from . import replay_rules
    ctx.guard(replay_rules.r03_9)


EXPLANATION = EXPLANATION + " " + (
    "R03.9 (replay.py): the repository's own constructor, __call__, tree search (through the trampoline), splitting and bridge formulas are evaluated by the abstract evaluator on exact rational times with one symbolic unit normal per seeded draw -- nothing of the tree is mocked, the library is never run; after each of three query histories (fresh object; forward-then-backward sweep; adaptive-looking history with rejected trials and the dyadic half-then-step pattern) triples s < u < t are asked with the whole interval first, in the middle or last, and W(s,t) = W(s,u) + W(u,t), U(s,t) = U(s,u) + U(u,t) + (t-u) W(s,u) must hold as identities of canonical forms; configurations: cache sizes 0, 1, 45 / 0..4, 45, unbounded, dt hints, tolerance with and without the dyadic tree (queries moved onto the tolerance grid: the property speaks of resolved times), Levy mode none. R03.2 is also evaluated for pieces exactly one tolerance cell long and for pieces shorter than a tolerance that is coarser than its rounding grid.")


_run_before_r03_10 = run


def run(ctx):
    _run_before_r03_10(ctx)
    from . import replay_rules
    ctx.guard(replay_rules.r03_10)


_run_before_r03_11 = run


def run(ctx):
    _run_before_r03_11(ctx)
    from . import replay_rules
    ctx.guard(replay_rules.r03_11)


_run_before_r03_12 = run


def run(ctx):
    _run_before_r03_12(ctx)
    from . import replay_rules
    ctx.guard(replay_rules.r03_12)


_run_before_r03_13 = run


def run(ctx):
    _run_before_r03_13(ctx)
    # Chen over the triples of seeded random histories (replay of the real tree)
    from . import replay_rules
    ctx.guard(replay_rules.r03_13)
