"""C09 -- adjoint: same forward values as sdeint; gradients (DESIGN.md section C09)."""
import ast
from fractions import Fraction

from .. import astq, nf
from ..errors import AnalysisError
from ..interp import Cat, ClassRef, Closure, Hooks, Interp, Intrinsic, Obj, SimRaise
from ..model import own_nodes
from ..nf import Rat
from . import solverkit, solvers
from .c13 import SdeintHooks, eval_sdeint
from . import c19

ADJOINT = "torchsde/_core/adjoint.py"
SDEINT = "torchsde/_core/sdeint.py"
DERIVED = "torchsde/_brownian/derived.py"

EXPLANATION = (
    "sdeint, sdeint_adjoint and the autograd.Function between them are partially evaluated (ast only) with "
    "check_contract, the solver constructor, integrate and Function.apply opaque. R09.1 (same forward values): both entry "
    "points pass the same arguments to check_contract, construct the solver with the same keywords (the forward "
    "tolerances, never the adjoint_* ones), use the same initial extra state, and the Function's forward runs "
    "solver.integrate(y0, ts, extras) on exactly the values sdeint would, returning its result unchanged. R09.2: the "
    "positional arguments of both .apply sites bind to forward's parameters by name, and backward returns one None per "
    "non-tensor parameter followed by the gradients. R09.3: saved tensors are unpacked in the order they were saved. "
    "R09.4 (sweep coverage, T = 4 output times): the backward pass solves the adjoint over (-ts[i], -ts[i-1]) for i = "
    "T-1..1, each exactly once, on ReverseBrownian(ctx.bm); the state block is reset to ys[i-1] and the cotangent "
    "grad_ys[i-1] is added after each piece; grad_ys[-1] seeds the sweep; so every output cotangent is injected exactly "
    "once. R09.5: the default adjoint method is accepted by its solver for every forward configuration (shared with "
    "C19), and adjoint_params are filtered by requires_grad. R11.1 / R11.4 (shared with C11): the adjoint vector fields "
    "integrated by the backward solve are the prescribed ones in every cell. Not decided: convergence of adjoint gradients "
    "as dt -> 0."
)


class AdjEntryHooks(SdeintHooks):
    pass


def r09_1(ctx):
    rep, model = ctx.rep, ctx.model
    rep.rule("R09.1", "sdeint_adjoint validates, constructs the solver and integrates exactly as sdeint does")
    E = None
    out_a, ha, fa = eval_sdeint(model, E, which=(SDEINT, "sdeint"))
    kw_extra = {}
    fi_b = model.func(ADJOINT, "sdeint_adjoint")
    hb = SdeintHooks()
    it = Interp(model, hb)
    ts = Obj("ts", getitem_hook=lambda i, o, idx, n, f: nf.sym(f"ts[{idx}]", True))
    kw = dict(sde=Obj("user-sde", attrs={"__is_module__": True}), y0=nf.sym("y0"), ts=ts, bm=Obj("bm"), method="midpoint",
              adjoint_method=None, dt=nf.sym("dt", True), adaptive=False, adjoint_adaptive=True, rtol=nf.sym("rtol", True),
              adjoint_rtol=nf.sym("adjoint_rtol", True), atol=nf.sym("atol", True), adjoint_atol=nf.sym("adjoint_atol", True),
              dt_min=nf.sym("dt_min", True), options=None, adjoint_options=None, adjoint_params=None, names=None,
              logqp=False, extra=True, extra_solver_state=None)
    out_b = it.call_function(fi_b, [], kw)
    rep.analysed(fa)
    rep.analysed(fi_b)

    def names_of(args):
        return [str(a) if isinstance(a, Rat) else getattr(a, "name", repr(a)) for a in args]
    ok = len(ha.check_args) == 1 and len(hb.check_args) == 1 and names_of(ha.check_args[0]) == names_of(hb.check_args[0])
    rep.check(ok, "R09.1", astq.loc(fi_b), f"{fi_b.key}::R09.1::check_contract-args",
              f"sdeint_adjoint calls check_contract with {names_of(hb.check_args[0]) if hb.check_args else None}, sdeint "
              f"with {names_of(ha.check_args[0]) if ha.check_args else None}", "identical validation")

    def kwnames(d):
        return {k: (str(v) if isinstance(v, Rat) else getattr(v, "name", repr(v))) for k, v in d.items()}
    ok = len(ha.ctor_kwargs) == 1 and len(hb.ctor_kwargs) == 1 and kwnames(ha.ctor_kwargs[0]) == kwnames(hb.ctor_kwargs[0])
    rep.check(ok, "R09.1", astq.loc(fi_b), f"{fi_b.key}::R09.1::solver-kwargs",
              f"the forward solver of sdeint_adjoint is built with {kwnames(hb.ctor_kwargs[0]) if hb.ctor_kwargs else None}; "
              f"sdeint builds it with {kwnames(ha.ctor_kwargs[0]) if ha.ctor_kwargs else None}: the forward solution would "
              f"differ", "identical solver construction")
    ok = len(hb.init_calls) == 1 and nf.equal(hb.init_calls[0][0], nf.sym("ts[0]", True)) and \
        nf.equal(hb.init_calls[0][1], nf.sym("y0"))
    rep.check(ok, "R09.1", astq.loc(fi_b), f"{fi_b.key}::R09.1::initial-extras",
              f"sdeint_adjoint initialises the extra state with {hb.init_calls}", "init_extra_solver_state(ts[0], y0)")
    ok = isinstance(out_b, tuple) and len(out_b) == 2 and nf.equal(out_b[0], nf.sym("YS_OUT"))
    rep.check(ok, "R09.1", astq.loc(fi_b), f"{fi_b.key}::R09.1::returns",
              f"sdeint_adjoint(extra=True) returns `{out_b}`", "returns the Function's (ys, extras) through parse_return")
    ctx._cache["adjoint_apply_args"] = hb.apply_args
    ctx.floor("R09.1", 4)


def r09_6(ctx):
    """'Only the tensors asked for receive gradients.'  Everything differentiable that sdeint_adjoint computes from the
    SDE *outside* the autograd Function is tracked by ordinary autograd, which knows nothing of adjoint_params: if such a
    value is handed to the Function as a tensor input, the cotangent the backward pass returns for it is pushed on into
    every parameter the SDE's methods touch.  The initial extra solver state is such a value; for each forward solver
    class its init_extra_solver_state is evaluated on the opaque SDE, and it is a violation if the state contains drift or
    diffusion evaluations while the entry point computes it outside `.apply` and passes it in."""
    rep, model = ctx.rep, ctx.model
    rep.rule("R09.6", "no SDE evaluation that reaches the adjoint Function as a tensor input is made outside it (only "
                      "adjoint_params and y0 receive gradients)")
    from . import steps
    fi_b = model.func(ADJOINT, "sdeint_adjoint")
    hb = SdeintHooks()
    it = Interp(model, hb)
    ts = Obj("ts", getitem_hook=lambda i, o, idx, n, f: nf.sym(f"ts[{idx}]", True))
    kw = dict(sde=Obj("user-sde", attrs={"__is_module__": True}), y0=nf.sym("y0"), ts=ts, bm=Obj("bm"), method="midpoint",
              adjoint_method=None, dt=nf.sym("dt", True), adaptive=False, adjoint_adaptive=True, rtol=nf.sym("rtol", True),
              adjoint_rtol=nf.sym("adjoint_rtol", True), atol=nf.sym("atol", True), adjoint_atol=nf.sym("adjoint_atol", True),
              dt_min=nf.sym("dt_min", True), options=None, adjoint_options=None, adjoint_params=None, names=None,
              logqp=False, extra=True, extra_solver_state=None)
    it.call_function(fi_b, [], kw)
    rep.analysed(fi_b)
    # does a value computed by init_extra_solver_state outside the Function reach .apply?
    outside = False
    for args in hb.apply_args:
        for a in args:
            vals = a if isinstance(a, (list, tuple)) else [a]
            for v in vals:
                if isinstance(v, Rat) and any(t[0] == "fn" and t[1] == "INIT" for t in nf.all_atoms(v)):
                    outside = True
    dom = solvers.Domains(model)
    seen = {}
    for sc in steps.scenarios(model, dom):
        if sc.cls.name in seen:
            continue
        init = model.lookup_method(sc.cls, "init_extra_solver_state")
        t0, y0 = nf.sym("t0", True), nf.sym("y0")
        sde = solverkit.make_sde()
        so = solverkit.solver_obj(model, sc.cls, sde, solverkit.make_bm(), dict(sc.options))
        it2 = Interp(model, solverkit.StepHooks(2))
        try:
            ex = it2.call_function(init, [so, t0, y0], {})
        except SimRaise:
            ex = ()
        atoms = set()
        for x in (ex or ()):
            if isinstance(x, Rat):
                atoms |= {a[1] for a in nf.all_atoms(x) if a[0] == "fn"}
        seen[sc.cls.name] = (init, sorted(atoms & {"F", "G"}))
    if len(seen) < 8:
        raise AnalysisError(f"R09.6 found only {sorted(seen)} forward solver classes")
    for name, (init, evals) in sorted(seen.items()):
        bad = outside and bool(evals)
        rep.check(not bad, "R09.6", astq.loc(fi_b), f"{fi_b.key}::R09.6::extras-outside-function::{name}",
                  f"sdeint_adjoint computes {name}.init_extra_solver_state(ts[0], y0) -- which evaluates {evals} of the SDE -- "
                  f"outside the autograd Function and passes the result in as tensor inputs: the backward pass returns their "
                  f"cotangents and ordinary autograd pushes them into every parameter those evaluations touch, whether or not "
                  f"it is in adjoint_params (method={name!r} solver: a parameter that was not asked for receives a partial, "
                  f"meaningless gradient instead of None)",
                  "no SDE evaluation outside the Function" if not evals else "evaluated inside the Function")
    ctx.floor("R09.6", 8)


def forward_scenarios(model):
    """_SdeintAdjointMethod.forward evaluated for every (adaptive, outcome of a grid-alignment test) combination: the calls
    it makes to solver.integrate and what it returns."""
    from .c10 import make_ctx
    fwd = model.func(ADJOINT, "_SdeintAdjointMethod.forward")
    out = []
    for adaptive in (False, True):
        for aligned in (True, False):
            seen = []

            class H(Hooks):
                def tensor_method(self, interp, recv, name, args, kwargs, node, fi):
                    if name == "detach":
                        return nf.linear("DETACH", (), Rat.lift(recv))
                    if name in ("round", "abs", "floor", "ceil"):
                        return nf.fn(name, recv)
                    return NotImplemented

                def external_call(self, interp, dotted, args, kwargs, node, fi, aligned=aligned):
                    if dotted in ("torch.allclose", "torch.isclose", "torch.equal"):
                        return aligned                   # whether the output times lie on the step grid: both outcomes
                    if dotted == "torch.stack":
                        return Cat("stack", list(args[0]), kwargs.get("dim", args[1] if len(args) > 1 else Fraction(0)))
                    return NotImplemented

                def subscript(self, interp, recv, index, node, fi):
                    if isinstance(recv, Rat) and nf.equal(recv, nf.sym("ts")) and isinstance(index, slice):
                        lo = "a" if index.start is None else "b"
                        return [nf.sym(f"ts[{lo}]", True), nf.sym(f"ts[{lo}+1]", True)]
                    return NotImplemented
            ctx_obj = make_ctx([], [])

            def integrate(it, a, k, n, f):
                seen.append(tuple(a))
                whole = isinstance(a[1], Rat) and nf.equal(a[1], nf.sym("ts"))
                ys = nf.sym("YS") if whole else [nf.fn("YS_PIECE", Fraction(len(seen)), Fraction(r)) for r in range(2)]
                return (ys, (nf.sym("E1"),))
            solver = Obj("solver", attrs={"integrate": Intrinsic("integrate", integrate), "adaptive": adaptive,
                                          "dt": nf.sym("dt", True), "rtol": nf.sym("rtol", True), "atol": nf.sym("atol", True),
                                          "dt_min": nf.sym("dt_min", True), "options": {}})
            it = Interp(model, H())
            y0, x1 = nf.sym("y0"), nf.sym("X1")
            ts = nf.sym("ts")            # a tensor symbol: arithmetic on it is symbolic; slices of it are short lists of times
            args = [ctx_obj, Obj("sde"), ts, nf.sym("dt", True), Obj("bm"), solver, "midpoint", "midpoint", False,
                    nf.sym("rtol", True), nf.sym("atol", True), nf.sym("dt_min", True), {}, Fraction(1), y0, x1, nf.sym("P1")]
            try:
                ret = it.call_function(fwd, args, {})
                err = None
            except (SimRaise, AnalysisError) as e:
                ret, err = None, e
            out.append(dict(adaptive=adaptive, aligned=aligned, seen=seen, ret=ret, err=err, ts=ts, y0=y0, x1=x1, fwd=fwd))
    return out


def r09_7(ctx):
    """'sdeint_adjoint returns exactly the solution values sdeint returns': the Function's forward is one call of
    solver.integrate over the whole of ts -- the very call sdeint makes -- whatever the step-size mode and wherever the output
    times lie relative to the step grid.  (Integrating interval by interval restarts the grid at every output time.)"""
    rep, model = ctx.rep, ctx.model
    rep.rule("R09.7", "the adjoint Function's forward makes exactly one solver.integrate(y0, ts, extras) call over all output "
                      "times, for fixed and adaptive steps, output times on or off the step grid")
    for sc in forward_scenarios(model):
        fwd = sc["fwd"]
        rep.analysed(fwd)
        label = f"adaptive={sc['adaptive']},ts-on-grid={sc['aligned']}"
        if sc["err"] is not None:
            e = sc["err"]
            raise e if isinstance(e, AnalysisError) else AnalysisError(f"forward could not be evaluated ({label}): {e}", where=astq.loc(fwd))
        seen = sc["seen"]
        ok = len(seen) == 1 and len(seen[0]) >= 3 and nf.equal(seen[0][0], nf.linear("DETACH", (), sc["y0"])) \
            and isinstance(seen[0][1], Rat) and nf.equal(seen[0][1], sc["ts"])
        rep.check(ok, "R09.7", astq.loc(fwd), f"{fwd.key}::R09.7::{label}",
                  f"forward ({label}) calls solver.integrate {len(seen)} time(s)"
                  + (f", first with time argument `{seen[0][1]!r}`" if seen else "")
                  + ": sdeint makes one call over the whole of ts; anything else steps on a different grid (restarted at the output "
                    "times), so the adjoint's forward values are not sdeint's", "one integrate(y0, ts, extras) call")
    ctx.floor("R09.7", 4)


def r09_2(ctx):
    rep, model = ctx.rep, ctx.model
    rep.rule("R09.2", "autograd.Function arity: .apply arguments bind to forward's parameters by role; backward returns "
                      "one None per non-tensor parameter")
    fwd = model.func(ADJOINT, "_SdeintAdjointMethod.forward")
    bwd = model.func(ADJOINT, "_SdeintAdjointMethod.backward")
    rep.analysed(fwd)
    rep.analysed(bwd)
    params = fwd.params[1:]                     # without ctx
    if not fwd.node.args.vararg:
        raise AnalysisError("forward no longer takes *extras_and_adjoint_params", where=astq.loc(fwd))
    if "y0" not in params:
        raise AnalysisError("forward no longer has a `y0` parameter", where=astq.loc(fwd))
    n_nontensor = params.index("y0")
    # the two apply sites, compared by *value*: both entry points are evaluated abstractly with a distinct symbol /
    # constant per role, so a value found in the wrong position is a mis-binding whatever the variables are called
    sites = []
    for f in (model.func(ADJOINT, "sdeint_adjoint"), bwd):
        for c in astq.calls(f):
            if astq.call_name(c).endswith("_SdeintAdjointMethod.apply"):
                sites.append((f, c))
    if len(sites) != 2:
        raise AnalysisError(f"expected two .apply sites, found {len(sites)}", where=ADJOINT)

    def same(a, b):
        if isinstance(b, str) and b.startswith("obj:"):
            return getattr(a, "name", None) == b[4:]
        if isinstance(a, Rat) or isinstance(b, Rat):
            return isinstance(a, (Rat, Fraction, int)) and isinstance(b, (Rat, Fraction, int)) and nf.equal(a, b)
        if b == "any-cat":
            return isinstance(a, Cat)
        return type(a) is type(b) and a == b

    def show(a):
        return str(a)[:60] if isinstance(a, (Rat, Cat)) else getattr(a, "name", repr(a))

    def compare(f, c, got, want, n_star_want, tag):
        bad = []
        if len(got) < len(params):
            rep.fail("R09.2", astq.loc(f, c), f"{f.key}::R09.2::apply-args{tag}",
                     f"`.apply` in {f.qualname} passes {len(got)} values for {len(params)} forward parameters")
            return
        for p, a in zip(params, got):
            if p in want and not same(a, want[p]):
                bad.append((p, show(a), str(want[p])))
        ok_star = len(got) - len(params) == n_star_want
        rep.check(not bad and ok_star, "R09.2", astq.loc(f, c), f"{f.key}::R09.2::apply-args{tag}",
                  f"`.apply` in {f.qualname} binds (parameter, value it receives, value of its role) {bad}"
                  f"{'' if ok_star else f'; {len(got) - len(params)} trailing tensors instead of {n_star_want}'}: each forward "
                  f"parameter must receive the value of its own role", "arguments bind by role")

    # (a) sdeint_adjoint: roles from the keyword values of R09.1's evaluation
    if "adjoint_apply_args" not in ctx._cache:
        r09_1(ctx)
    aa = ctx._cache.get("adjoint_apply_args") or []
    f_a, c_a = sites[0]
    if len(aa) != 1:
        raise AnalysisError(f"sdeint_adjoint reaches Function.apply {len(aa)} times in the abstract evaluation", where=astq.loc(f_a, c_a))
    want_a = {"sde": "obj:fwd-sde", "ts": "obj:ts", "dt": nf.sym("dt", True), "bm": "obj:bm", "solver": "obj:solver",
              "method": "midpoint", "adjoint_method": "adjoint-default", "adjoint_adaptive": True,
              "adjoint_rtol": nf.sym("adjoint_rtol", True), "adjoint_atol": nf.sym("adjoint_atol", True),
              "dt_min": nf.sym("dt_min", True), "len_extras": Fraction(1), "y0": nf.sym("y0")}
    compare(f_a, c_a, aa[0], want_a, 2, "")        # one initial extra + one adjoint parameter
    # (b) backward: every nested solve is configured from the adjoint_* settings stored on ctx
    f_b, c_b = sites[1]
    for saved in (False, True):
        r = eval_backward(model, 3, saved)
        if r["err"] is not None or not r["hooks"].applies:
            e = r["err"]
            raise e if isinstance(e, AnalysisError) else AnalysisError(f"backward pass could not be evaluated: {e}", where=astq.loc(f_b, c_b))
        want_b = {"sde": "obj:adjoint_sde", "ts": "any-cat", "dt": nf.sym("dt", True), "bm": "obj:reverse_bm",
                  "solver": "obj:adj-solver", "method": "midpoint", "adjoint_method": "midpoint", "adjoint_adaptive": False,
                  "adjoint_rtol": nf.sym("adjoint_rtol", True), "adjoint_atol": nf.sym("adjoint_atol", True),
                  "dt_min": nf.sym("dt_min", True), "len_extras": Fraction(1 if saved else 0), "y0": "any-cat"}
        compare(f_b, c_b, r["hooks"].applies[0], want_b, (1 if saved else 0) + 1, f"::saved={saved}")
    # backward: leading Nones
    rets = [n for n in own_nodes(bwd.node) if isinstance(n, ast.Return)]
    ok = len(rets) == 1 and isinstance(rets[0].value, ast.Tuple)
    nones = 0
    if ok:
        for e in rets[0].value.elts:
            if isinstance(e, ast.Constant) and e.value is None:
                nones += 1
            else:
                break
        tail = rets[0].value.elts[nones:]
        ok = nones == n_nontensor and len(tail) == 1 and isinstance(tail[0], ast.Starred)
    rep.check(ok, "R09.2", astq.loc(bwd), f"{bwd.key}::R09.2::none-count",
              f"backward returns {nones} leading None(s); forward has {n_nontensor} non-tensor parameters before y0: the "
              f"gradients would be attributed to the wrong inputs", f"{n_nontensor} Nones then the gradients")
    ctx.floor("R09.2", 3)


class BackwardHooks(Hooks):
    def __init__(self, T, n_extras_saved, zero=()):
        self.T = T
        self.zero = {f"grad_ys[{k}]" for k in zero}       # output cotangents that are identically zero in this scenario
        self.applies = []
        self.adjoint_sde_args = []
        self.reverse_args = []
        self.solver_kwargs = []
        self.init_calls = []
        self.k = 0
        self.n_extras_saved = n_extras_saved

    def on_call(self, interp, callee, args, kwargs, node, fi):
        if isinstance(callee, ClassRef) and callee.cls.name == "AdjointSDE":
            self.adjoint_sde_args.append(list(args))
            return Obj("adjoint_sde", attrs={"sde_type": "stratonovich"})
        if isinstance(callee, ClassRef) and callee.cls.name == "ReverseBrownian":
            self.reverse_args.append(list(args))
            return Obj("reverse_bm")
        if isinstance(callee, Closure) and callee.fi is not None:
            nm = callee.fi.name
            if nm == "select":
                def solver_fn(it, a, k, n, f):
                    self.solver_kwargs.append(dict(k))

                    def init(it2, a2, k2, n2, f2):
                        self.init_calls.append(tuple(a2))
                        return ()
                    return Obj("adj-solver", attrs={"init_extra_solver_state": Intrinsic("init", init)})
                return Intrinsic("solver_fn", solver_fn)
            if nm == "flatten":
                return Cat("flat", list(args[0]))
            if nm == "flat_to_shape":
                src = args[0]
                if isinstance(src, Cat) and src.kind == "flat" and len(src.parts) == len(args[1]):
                    return list(src.parts)          # unpacking what flatten packed (no solve in between): the blocks themselves
                self.k += 1
                n_blocks = len(args[1])
                return [nf.sym(f"B{self.k}_{j}") for j in range(n_blocks)]
        return NotImplemented

    def external_call(self, interp, dotted, args, kwargs, node, fi):
        if dotted.endswith("_SdeintAdjointMethod.apply"):
            self.applies.append(list(args))
            idx = len(self.applies)
            extras = [nf.sym(f"XE{idx}_{j}") for j in range(self.n_extras_saved)]
            return ((nf.sym(f"IGN{idx}"), nf.sym(f"AUG{idx}")), *extras)
        if dotted == "torch.stack":
            return Cat("stack", list(args[0]), kwargs.get("dim", Fraction(0)))
        if dotted == "torch.zeros_like":
            return nf.fn("ZEROS_LIKE", args[0])
        if dotted in ("torch.any", "torch.count_nonzero") and len(args) == 1:
            return self._nonzero(args[0], node, fi)
        return NotImplemented

    def _nonzero(self, x, node, fi):
        """`x.any()` for an output cotangent: decided by the scenario (which cotangents are identically zero)."""
        name = str(x)
        if isinstance(x, Rat) and name.startswith("grad_ys["):
            return name not in self.zero
        raise AnalysisError(f"data-dependent test on `{name}` in the backward pass is outside the scenarios",
                            where=astq.loc(fi, node))

    def tensor_method(self, interp, recv, name, args, kwargs, node, fi):
        if name == "size":
            return "size-of-" + str(recv)
        if name in ("any", "count_nonzero") and not args:
            return self._nonzero(recv, node, fi)
        return NotImplemented


def _indexable(name, T):
    def getitem(it, obj, idx, node, fi):
        if isinstance(idx, int):
            k = idx if idx >= 0 else T + idx
            return nf.sym(f"{name}[{k}]", name == "ts")
        raise AnalysisError(f"unexpected index {idx!r} into {name}", where=astq.loc(fi, node))
    o = Obj(name, getitem_hook=getitem)
    o.attrs["size"] = Intrinsic("size", lambda it, a, k, n, f: Fraction(T))
    o.attrs["__len__"] = Intrinsic("len", lambda it, a, k, n, f: Fraction(T))
    o.attrs["shape"] = (Fraction(T),)
    return o


def eval_backward(model, T=4, saved_extras=False, zero=()):
    bwd = model.func(ADJOINT, "_SdeintAdjointMethod.backward")
    hooks = BackwardHooks(T, 1 if saved_extras else 0, zero)
    it = Interp(model, hooks)
    ys, ts, grad_ys = _indexable("ys", T), _indexable("ts", T), _indexable("grad_ys", T)
    extras = [nf.sym("SAVED_E")] if saved_extras else []
    P = nf.sym("P")
    ctx_obj = Obj("ctx", attrs={
        "saved_tensors": [ys, ts] + extras + [P], "saved_extras_for_backward": saved_extras, "len_extras": Fraction(1),
        "sde": Obj("fwd-sde"), "bm": Obj("bm"), "dt": nf.sym("dt", True), "adjoint_method": "midpoint",
        "adjoint_adaptive": False, "adjoint_rtol": nf.sym("adjoint_rtol", True), "adjoint_atol": nf.sym("adjoint_atol", True),
        "dt_min": nf.sym("dt_min", True), "adjoint_options": {}})
    gex = [nf.sym("GRAD_E")]
    err = None
    try:
        out = it.call_function(bwd, [ctx_obj, grad_ys] + gex, {})
    except (AnalysisError, SimRaise) as e:
        out, err = None, e
    return dict(out=out, hooks=hooks, bwd=bwd, P=P, T=T, gex=gex, extras=extras, err=err, zero=tuple(zero))


def _gy(k, zero):
    return Rat.const(0) if k in zero else nf.sym(f"grad_ys[{k}]")


def r09_4(ctx):
    rep, model = ctx.rep, ctx.model
    rep.rule("R09.4", "backward sweep (T = 4; every cotangent non-zero, and trailing cotangents identically zero): pieces "
                      "(-ts[i], -ts[i-1]) contiguous down to (ts[1], ts[0]) on ReverseBrownian(ctx.bm), starting at ts[-1] -- "
                      "or, only without saved extras, at the last output time with a non-zero cotangent; state reset to "
                      "ys[i-1]; cotangent grad_ys[i-1] added once; saved extras only ever paired with ts[-1]; R09.3 "
                      "saved-tensor layout")
    Ts = (4,) if ctx.tier == "quick" else (2, 3, 4, 6)
    scen = []
    for saved in (False, True):
        for T in Ts:
            scen.append((saved, T, ()))
            if T >= 3:
                scen.append((saved, T, (T - 1,)))
            if T >= 4:
                scen.append((saved, T, (T - 1, T - 2)))
    for saved, T, zero in scen:
        r = eval_backward(model, T, saved, zero)
        bwd, hooks, T = r["bwd"], r["hooks"], r["T"]
        rep.analysed(bwd)
        tag = ("extras-saved" if saved else "plain") + f"/T={T}" + (f"/zero-cotangents={list(zero)}" if zero else "")
        if r["err"] is not None:
            e = r["err"]
            raise e if isinstance(e, AnalysisError) else AnalysisError(f"backward pass ({tag}): {e}", where=astq.loc(bwd))
        aps = hooks.applies
        fwd = model.func(ADJOINT, "_SdeintAdjointMethod.forward")
        params = fwd.params[1:]
        i_ts, i_bm, i_sde, i_y0 = params.index("ts"), params.index("bm"), params.index("sde"), params.index("y0")
        # where does the sweep start?  ts[T-1], or (plain only) the last output time whose cotangent is non-zero
        s_full = T - 1
        s_min = max([k for k in range(T) if k not in zero and k >= 1] + [1])
        admissible = {s_full} if saved else set(range(s_min, T))
        n_pieces = len(aps)
        rep.check(n_pieces in admissible, "R09.4", astq.loc(bwd), f"{bwd.key}::R09.4::pieces::{tag}",
                  f"the backward pass solves {n_pieces} adjoint pieces for {T} output times"
                  + (f" when the cotangents of outputs {list(zero)} are zero" if zero else "")
                  + (": the extra solver state saved by forward belongs to ts[-1], so the sweep must start there and solve "
                     f"all {T - 1} pieces" if saved else f" (admissible: {sorted(admissible)}): an output interval is skipped or repeated"),
                  f"{sorted(admissible)} pieces")
        if n_pieces not in admissible:
            continue
        s0 = n_pieces
        for n, a in enumerate(aps):
            i = s0 - n
            tsarg = a[i_ts]
            ok = isinstance(tsarg, Cat) and len(tsarg.parts) == 2 and nf.equal(tsarg.parts[0], -nf.sym(f"ts[{i}]", True)) \
                and nf.equal(tsarg.parts[1], -nf.sym(f"ts[{i - 1}]", True))
            rep.check(ok, "R09.4", astq.loc(bwd), f"{bwd.key}::R09.4::interval::{tag}::{n}",
                      f"adjoint piece {n} integrates over `{tsarg}`; expected the reflected interval (-ts[{i}], -ts[{i - 1}])",
                      f"(-ts[{i}], -ts[{i - 1}])")
            ok = getattr(a[i_bm], "name", None) == "reverse_bm" and getattr(a[i_sde], "name", None) == "adjoint_sde"
            rep.check(ok, "R09.4", astq.loc(bwd), f"{bwd.key}::R09.4::objects::{tag}::{n}",
                      f"adjoint piece {n} is solved on bm={a[i_bm]!r}, sde={a[i_sde]!r}", "AdjointSDE on ReverseBrownian")
            aug = a[i_y0]
            if n == 0:
                want0, want1 = nf.sym(f"ys[{i}]"), _gy(i, zero)
            else:
                want0, want1 = nf.sym(f"ys[{i}]"), nf.sym(f"B{n}_1") + _gy(i, zero)
            got1 = aug.parts[1] if isinstance(aug, Cat) and len(aug.parts) > 1 else None
            if isinstance(got1, Rat) and zero:
                got1 = nf.substitute(got1, {("t", f"grad_ys[{k}]"): Rat.const(0) for k in zero})
            ok = isinstance(aug, Cat) and len(aug.parts) >= 3 and nf.equal(aug.parts[0], want0) and nf.equal(got1, want1)
            rep.check(ok, "R09.4", astq.loc(bwd), f"{bwd.key}::R09.4::state::{tag}::{n}",
                      f"adjoint piece {n} starts from state block `{aug.parts[0] if isinstance(aug, Cat) else aug}` and "
                      f"cotangent `{got1}`; expected "
                      f"`{want0}` and `{want1}` (state reset to the stored solution, output cotangent injected once)",
                      "state reset to ys[i]; cotangent = carried + grad_ys[i]")
        if saved:
            aug0 = aps[0][i_y0]
            ok = isinstance(aug0, Cat) and len(aug0.parts) >= 4 and nf.equal(aug0.parts[2], r["gex"][0])
            rep.check(ok, "R09.4", astq.loc(bwd), f"{bwd.key}::R09.4::extra-cotangents::{tag}",
                      f"with saved extras the first adjoint piece starts from `{[str(x)[:40] for x in aug0.parts] if isinstance(aug0, Cat) else aug0}`; "
                      f"the incoming cotangents of the extra solver state must follow (state, adjoint) in the augmented state",
                      "grad_extra_solver_state seeds the extra cotangents")
        ok = len(hooks.reverse_args) == 1 and getattr(hooks.reverse_args[0][0], "name", None) == "bm" and \
            len(hooks.adjoint_sde_args) == 1 and getattr(hooks.adjoint_sde_args[0][0], "name", None) == "fwd-sde"
        rep.check(ok, "R09.4", astq.loc(bwd), f"{bwd.key}::R09.4::wrappers::{tag}",
                  f"backward builds ReverseBrownian({hooks.reverse_args}) and AdjointSDE({hooks.adjoint_sde_args})",
                  "ReverseBrownian(ctx.bm), AdjointSDE(ctx.sde, params, shapes)")
        # adjoint solver uses the adjoint tolerances
        kw = hooks.solver_kwargs[0] if hooks.solver_kwargs else {}
        ok = str(kw.get("rtol")) == "adjoint_rtol" and str(kw.get("atol")) == "adjoint_atol" and \
            getattr(kw.get("bm"), "name", None) == "reverse_bm" and getattr(kw.get("sde"), "name", None) == "adjoint_sde"
        rep.check(ok, "R09.4", astq.loc(bwd), f"{bwd.key}::R09.4::adjoint-solver::{tag}",
                  f"the adjoint solver is constructed with {dict((k, str(v)) for k, v in kw.items())}", "adjoint tolerances, reverse bm")
        # R09.3 / final result: last blocks + grad_ys[0]
        out = r["out"]
        tail = [x for x in out if x is not None]
        want_y = nf.sym(f"B{n_pieces}_1") + nf.sym("grad_ys[0]")
        ok = len(tail) >= 2 and nf.equal(tail[0], want_y)
        rep.check(ok, "R09.4", astq.loc(bwd), f"{bwd.key}::R09.4::final-cotangent::{tag}",
                  f"the gradient returned for y0 is `{tail[0] if tail else None}`; expected the carried adjoint plus "
                  f"grad_ys[0] = `{want_y}`", "dL/dy0 = carried adjoint + grad_ys[0]")
        # initial extras when not saved: init_extra_solver_state(ts[start], aug_state)
        if not saved:
            ok = len(hooks.init_calls) == 1 and nf.equal(hooks.init_calls[0][0], nf.sym(f"ts[{s0}]", True))
            rep.check(ok, "R09.4", astq.loc(bwd), f"{bwd.key}::R09.4::adjoint-init::{tag}",
                      f"adjoint extras are initialised with {hooks.init_calls}", "init at (time the sweep starts from, aug_state)")
        else:
            rep.check(not hooks.init_calls, "R09.4", astq.loc(bwd), f"{bwd.key}::R09.4::adjoint-init::{tag}",
                      "the saved extras are discarded: init_extra_solver_state is called although extras were saved",
                      "saved extras used")
            a0 = aps[0]
            ok = len(a0) > i_y0 + 1 and isinstance(a0[i_y0 + 1], Rat) and nf.equal(a0[i_y0 + 1], nf.sym("SAVED_E"))
            rep.check(ok, "R09.3", astq.loc(bwd), f"{bwd.key}::R09.3::saved-extras-used::{tag}",
                      "the extras saved by forward are not the ones handed to the first adjoint piece (saved-tensor layout)",
                      "saved extras passed to the first piece")
        a0 = aps[0]
        ok = isinstance(a0[-1], Rat) and nf.equal(a0[-1], r["P"]) and len(a0) == i_y0 + 1 + (1 if saved else 0) + 1
        rep.check(ok, "R09.3", astq.loc(bwd), f"{bwd.key}::R09.3::params::{tag}",
                  "the adjoint parameters handed to the adjoint pieces are not the saved ones (saved-tensor layout)",
                  "saved params passed on")
    ctx.floor("R09.4", 40)


def r09_5(ctx):
    rep, model = ctx.rep, ctx.model
    rep.rule("R09.5", "adjoint_params filtered by requires_grad; default adjoint method accepted (see also R19.5)")
    fi = model.func(ADJOINT, "sdeint_adjoint")
    flt = [c for c in astq.calls(fi) if astq.call_name(c) == "filter" and c.args and isinstance(c.args[0], ast.Lambda)
           and "requires_grad" in ast.unparse(c.args[0])]
    rep.check(len(flt) == 1 and ast.unparse(flt[0].args[1]) == "adjoint_params", "R09.5", astq.loc(fi),
              f"{fi.key}::R09.5::params-filter",
              "adjoint_params are no longer filtered by requires_grad: tensors not asked for would receive gradients",
              "filter(requires_grad, adjoint_params)")
    c19.r19_5(ctx)
    c19.r19_8(ctx)
    ctx.floor("R09.5", 1)


def run(ctx):
    ctx.guard(r09_1)
    ctx.guard(r09_2)
    ctx.guard(r09_4)
    ctx.guard(r09_5)
    ctx.guard(r09_6)
    ctx.guard(r09_7)
    # "gradients converge to the true gradient": the adjoint vector fields integrated by the backward solve are the
    # prescribed ones in every (sde_type, noise_type) cell (rules of C11)
    from . import c11
    ctx.guard(c11.r11_1)
    ctx.guard(c11.r11_2)       # ... and are differentiated with a graph (a graph-less forward value gives a silent zero vjp)
    ctx.guard(c11.r11_4)
    from . import c13
    ctx.guard(c13.r13_1)      # no state kept on the adjoint SDE / adjoint solver between evaluations


# ------------------------------------------------------------------------------------------------ R09.8
from .c13 import TimeAxis as _TimeAxis  # noqa: E402


def r09_8(ctx):
    """Everything the entry points compute from the SDE before / around the solve is recorded by autograd whenever the
    caller has autograd on -- whether or not y0 requires grad.

    For reversible Heun the initial solver state (f(t0, y0), g(t0, y0), y0) is computed by sdeint_adjoint *outside* the
    autograd Function; the backward pass hands back cotangents for it and only the ordinary autograd graph of that one
    evaluation carries them into the parameters.  Computing it under no_grad, or under set_grad_enabled(<something that
    is false for a constant y0>), silently drops that contribution: y0 a constant is the usual training set-up."""
    rep, model = ctx.rep, ctx.model
    rep.rule("R09.8", "sdeint / sdeint_adjoint make their solver calls (init_extra_solver_state, integrate, Function.apply) "
                      "in the caller's autograd mode: no grad-mode context that is off (or undecidable) for some input")
    for which in (("torchsde/_core/sdeint.py", "sdeint"), (ADJOINT, "sdeint_adjoint")):
        fi_b = model.func(*which)
        rep.analysed(fi_b)
        for y0_grad in (True, False):
            seen = []

            class H(SdeintHooks):
                def _record(self, what):
                    off = [(t, v) for t, v in self.interp.grad_stack if v is False or v == "unknown"]
                    seen.append((what, off))

                def _solver_fn(self, it, a, k, n, f):
                    so = SdeintHooks._solver_fn(self, it, a, k, n, f)
                    for name in ("init_extra_solver_state", "integrate"):
                        inner = so.attrs[name]
                        so.attrs[name] = Intrinsic(name, (lambda inner, name: lambda it2, a2, k2, n2, f2: (
                            self._record(name), inner.fn(it2, a2, k2, n2, f2))[1])(inner, name))
                    return so

                def external_call(self, interp, dotted, args, kwargs, node, fi):
                    if dotted.endswith("_SdeintAdjointMethod.apply"):
                        self._record("_SdeintAdjointMethod.apply")
                    if dotted == "torch.is_grad_enabled":
                        return True
                    return SdeintHooks.external_call(self, interp, dotted, args, kwargs, node, fi)

                def tensor_attr(self, interp, recv, name, node, fi):
                    if name == "requires_grad":
                        return y0_grad
                    return SdeintHooks.tensor_attr(self, interp, recv, name, node, fi)
            hooks = H()
            it = Interp(model, hooks)
            hooks.interp = it
            ts = _TimeAxis()
            kw = dict(sde=Obj("user-sde", attrs={"__is_module__": True}), y0=nf.sym("y0"), ts=ts, bm=Obj("bm"),
                      method="reversible_heun", dt=nf.sym("dt", True), adaptive=False, rtol=nf.sym("rtol", True),
                      atol=nf.sym("atol", True), dt_min=nf.sym("dt_min", True), options=None, names=None, logqp=False,
                      extra=True, extra_solver_state=None)
            if which[1] == "sdeint_adjoint":
                kw.update(adjoint_method=None, adjoint_adaptive=False, adjoint_rtol=nf.sym("adjoint_rtol", True),
                          adjoint_atol=nf.sym("adjoint_atol", True), adjoint_options=None, adjoint_params=None)
            it.call_function(fi_b, [], kw)
            if not seen:
                raise AnalysisError(f"{which[1]} makes no solver call in the abstract run", where=astq.loc(fi_b))
            for what, off in seen:
                rep.check(not off, "R09.8", astq.loc(fi_b),
                          f"{fi_b.key}::R09.8::{what}::y0.requires_grad={y0_grad}",
                          f"{which[1]} calls {what} inside `{off[0][0] if off else ''}`, which switches autograd recording "
                          f"{'off' if off and off[0][1] is False else 'to something this scenario cannot decide'} when the caller "
                          f"has it on and y0.requires_grad is {y0_grad}: what is computed there carries no graph, so the "
                          f"cotangents the backward pass returns for it never reach the parameters (silently incomplete "
                          f"parameter gradients; forward values unchanged)", "made in the caller's autograd mode")
    ctx.floor("R09.8", 6)


_run_c09h = run


def run(ctx):
    _run_c09h(ctx)
    ctx.guard(r09_8)


# ------------------------------------------------------------------------------------------------ R09.9
def r09_9(ctx):
    """'for losses depending on any subset of output times' includes a single output time: sdeint and the forward pass accept
    it, so the backward pass must return dL/dy0 = grad_ys[0] (there is no interval to integrate the adjoint over), the
    incoming cotangents of the extras, and a zero per adjoint parameter."""
    rep, model = ctx.rep, ctx.model
    rep.rule("R09.9", "a single output time: the backward pass makes no adjoint solve and returns grad_ys[0] for y0")
    bwd = model.func(ADJOINT, "_SdeintAdjointMethod.backward")
    rep.analysed(bwd)
    for saved in (False, True):
        r = eval_backward(model, 1, saved)
        tag = "extras-saved" if saved else "plain"
        if r["err"] is not None:
            rep.fail("R09.9", astq.loc(bwd), f"{bwd.key}::R09.9::{tag}",
                     f"with one output time the backward pass does not return: {str(r['err'])[:200]} (the augmented state is "
                     f"still the flat tensor it was packed into, because no adjoint piece unpacked it)")
            continue
        tail = [x for x in (r["out"] or []) if x is not None]
        ok = not r["hooks"].applies and len(tail) >= 2 and isinstance(tail[0], Rat) and nf.equal(tail[0], nf.sym("grad_ys[0]"))
        rep.check(ok, "R09.9", astq.loc(bwd), f"{bwd.key}::R09.9::{tag}",
                  f"with one output time the backward pass makes {len(r['hooks'].applies)} adjoint solve(s) and returns "
                  f"`{tail[0] if tail else None}` for y0; expected no solve and grad_ys[0]", "dL/dy0 = grad_ys[0]")
    ctx.floor("R09.9", 2)


_run_c09i = run


def run(ctx):
    _run_c09i(ctx)
    ctx.guard(r09_9)
