"""C20 -- batch rows are independent samples with no cross-talk (DESIGN.md section C20)."""
import ast
import os

from .. import astq
from ..errors import AnalysisError
from ..model import own_nodes, RepoModel
from . import c04

REDUCTIONS = ("sum", "mean", "max", "min", "amax", "amin", "norm", "prod", "std", "var", "median", "logsumexp",
              "cumsum", "cumprod", "all", "any", "argmax", "argmin")
AXIS_MIXERS = ("flatten", "reshape", "view", "permute", "transpose", "repeat", "expand", "repeat_interleave", "roll",
               "flip", "t", "T", "broadcast_to", "expand_as", "tile", "squeeze", "unsqueeze")
SCOPE = ("torchsde._core.methods", "torchsde._core.base_sde", "torchsde._core.base_solver", "torchsde._core.interp",
         "torchsde._core.misc", "torchsde._brownian")

# (function qualname, statement digest-free description) -> reason.  One line each, confirmed by reading.
TABLED = {
    "ForwardSDE.dg_ga_jvp_column_sum_v2": "duplicates each row m times along dim 0 and undoes it with the matching "
                                          "reshape(batch, m, d, m): rows stay separate",
    "ForwardSDE.dg_ga_jvp_column_sum_v1": "builtin sum over a Python list of per-column JVPs (not a tensor reduction)",
    "flatten": "misc.flatten concatenates whole tensors for the adjoint state (batch 1); not on the sdeint value path",
    "flat_to_shape": "inverse of flatten for the adjoint state; not on the sdeint value path",
    "AdjointReversibleHeun.step": "adjoint solver: operates on the flattened augmented state by design",
    "AdjointReversibleHeun.__init__": "lambdas building the adjoint of prod: unsqueeze on trailing axes only",
    "jvp": "torch.as_strided(i, (), ()) dummies work around PyTorch bug #39784; values unused",
    "vjp": "torch.as_strided(i, (), ()) dummies work around PyTorch bug #39784; values unused",
    "is_nan": "torch.any over the error estimate: adaptive control only",
}

EXPLANATION = (
    "Axis lint over the fixed-step value path (solver steps, ForwardSDE / SDELogqp, the stepping loop, interpolation, "
    "misc helpers), ast only. R20.1 (= R04.5): every Brownian draw has the full sample shape, so each element has its "
    "own noise. R20.2: no tensor reduction without `dim` or over dim 0, no builtin sum over a tensor, and no "
    "axis-mixing operation (flatten/reshape/permute/repeat/expand/transpose involving axis 0, indexing of the leading "
    "axis) on the value path; every call of such an operation is either on trailing axes only (dim in {1, 2, -1, -2}) "
    "or one of nine tabled sites with a one-line reason. The rule fires on a positive fixture on every run. Not "
    "decided: user SDEs that themselves mix rows (excluded by the property)."
)


def _dims_of(call):
    """Axis arguments of a reduction / mixer call as a list of ints, or None if absent / not literal."""
    vals = []
    cands = list(call.args) + [k.value for k in call.keywords if k.arg in ("dim", "dims", "axis", "dim0", "dim1", "dim2",
                                                                           "start_dim", "end_dim")]
    for a in cands:
        for n in ([a] if not isinstance(a, (ast.Tuple, ast.List)) else a.elts):
            if isinstance(n, ast.Constant) and isinstance(n.value, int) and not isinstance(n.value, bool):
                vals.append(n.value)
            elif isinstance(n, ast.UnaryOp) and isinstance(n.op, ast.USub) and isinstance(n.operand, ast.Constant):
                vals.append(-n.operand.value)
    return vals


def validation_only(model):
    """Functions that are called from the argument-validation phase only (check_contract, assert_no_grad and their
    helpers) and are not reachable from the stepping loop, a solver step, an SDE wrapper method or a Brownian query: what
    they compute never enters a returned state, so they are outside "the value path"."""
    from ..callgraph import CallGraph
    try:
        cg = CallGraph(model, None)
        roots = [f for f in model.functions.values()
                 if f.name in ("integrate", "step", "init_extra_solver_state", "__call__", "forward", "backward")
                 or (f.cls is not None and f.cls.name in ("ForwardSDE", "SDELogqp", "AdjointSDE", "RenameMethodsSDE"))]
        kinds = ("direct", "byname", "slot", "callback", "implicit", "property", "gen-create", "trampoline", "delegation", "autograd")
        on_path = {f.key for f in cg.reachable(roots, kinds=kinds)}
        val_roots = [f for f in model.functions.values() if f.name in ("check_contract", "assert_no_grad", "handle_unused_kwargs")]
        val = {f.key for f in cg.reachable(val_roots, kinds=kinds)}
        return val - on_path
    except Exception:
        return set()


def axis_scan(model, scope=SCOPE):
    """[(fi, node, description, ok, reason)]"""
    out = []
    skip = validation_only(model)
    for fi in model.functions.values():
        if not any(fi.module.name.startswith(s) for s in scope):
            continue
        if fi.key in skip or fi.qualname.split(".<locals>")[0] in {k.split("::")[-1] for k in skip}:
            continue
        owner = fi.qualname.split(".<locals>")[0]
        tabled = TABLED.get(owner) or TABLED.get(fi.qualname)
        nodes = list(own_nodes(fi.node)) if not isinstance(fi.node, ast.Lambda) else list(ast.walk(fi.node.body))
        for n in nodes:
            if isinstance(n, ast.Call):
                f = n.func
                name = f.attr if isinstance(f, ast.Attribute) else (f.id if isinstance(f, ast.Name) else None)
                is_torch_fn = isinstance(f, ast.Attribute) and astq.dotted(f.value) == "torch"
                if name in REDUCTIONS and isinstance(f, ast.Attribute) and astq.root_name(f.value) in ("self",) \
                        and name == "prod":
                    continue      # the SDE's diffusion-vector product `self.sde.prod(g, v)`, not torch's reduction
                if name in REDUCTIONS and isinstance(f, ast.Attribute):
                    recv_is_list = False
                    dims = _dims_of(n)
                    if is_torch_fn and n.args:
                        dims = _dims_of(ast.Call(func=f, args=n.args[1:], keywords=n.keywords))
                    desc = f"reduction `{ast.unparse(n)[:60]}`"
                    if not dims:
                        out.append((fi, n, desc + " over all elements (no dim)", bool(tabled), tabled))
                    elif any(d == 0 for d in dims):
                        out.append((fi, n, desc + " over the batch axis (dim 0)", bool(tabled), tabled))
                    else:
                        out.append((fi, n, desc, True, f"trailing axes {dims} only"))
                elif isinstance(f, ast.Name) and f.id == "sum" and n.args:
                    a = n.args[0]
                    listy = isinstance(a, (ast.List, ast.ListComp, ast.GeneratorExp, ast.Tuple)) or (
                        isinstance(a, ast.Name) and any(isinstance(v, (ast.List, ast.ListComp)) for _, v in
                                                        astq.assignments_to(fi, a.id) if v is not None)) or (
                        isinstance(a, ast.Name) and _bound_to_zip_item(fi, a.id))
                    out.append((fi, n, f"builtin `{ast.unparse(n)[:50]}`", listy or bool(tabled),
                                "sum over a Python list" if listy else tabled))
                elif name in AXIS_MIXERS and isinstance(f, ast.Attribute):
                    dims = _dims_of(n)
                    if is_torch_fn and n.args:
                        dims = _dims_of(ast.Call(func=f, args=n.args[1:], keywords=n.keywords))
                    desc = f"axis operation `{ast.unparse(n)[:60]}`"
                    if name in ("squeeze", "unsqueeze", "transpose") and dims and all(d not in (0,) for d in dims):
                        out.append((fi, n, desc, True, f"trailing axes {dims} only"))
                    elif name in ("squeeze",) and not dims:
                        out.append((fi, n, desc + " (all singleton axes)", bool(tabled), tabled))
                    else:
                        out.append((fi, n, desc + " may move or merge the batch axis", bool(tabled), tabled))
                elif name in ("unflatten", "unbind", "chunk", "cat", "index_select", "gather", "take", "narrow") \
                        and fi.name != "step" and (isinstance(f, ast.Attribute)):
                    # re-batching operations; inside solver steps they are decided at index level (R20.3)
                    dims = _dims_of(n)
                    if is_torch_fn and n.args:
                        dims = _dims_of(ast.Call(func=f, args=n.args[1:], keywords=n.keywords))
                    desc = f"re-batching operation `{ast.unparse(n)[:60]}`"
                    if dims and all(d != 0 for d in dims[:1]):
                        out.append((fi, n, desc, True, f"axis {dims[0]} (not the batch axis)"))
                    elif name in ("cat",) and isinstance(fi.node, ast.AST) and \
                            any(k.arg == "dim" for k in n.keywords) is False and len(n.args) < 2:
                        out.append((fi, n, desc + " along the batch axis (default dim 0)", bool(tabled), tabled))
                    else:
                        out.append((fi, n, desc + " on the batch axis", bool(tabled), tabled))
                elif is_torch_fn and name in ("as_strided", "einsum", "tensordot", "matmul", "mm", "outer", "kron"):
                    out.append((fi, n, f"`{ast.unparse(n)[:60]}` may contract over the batch axis", bool(tabled), tabled))
            if isinstance(n, ast.Subscript) and isinstance(n.ctx, ast.Load):
                # indexing the leading axis of a tensor: x[0], x[:1], x[0:1] -- only flagged on state-like names
                base = n.value
                if isinstance(base, ast.Name) and base.id in ("y0", "y1", "y", "y_prime", "y0_prime", "f", "g", "g_prod",
                                                              "I_k", "I_k0", "dW", "z0", "z1", "f0", "f1", "g0", "g1", "W", "H", "A", "Wi", "Hi", "Ai",
                                                              "noise", "X1", "X2", "out_W", "out_H"):
                    idx = n.slice.elts[0] if isinstance(n.slice, ast.Tuple) else n.slice
                    if isinstance(idx, ast.Constant) and isinstance(idx.value, int):
                        out.append((fi, n, f"`{ast.unparse(n)}` selects one batch row", bool(tabled), tabled))
                    elif isinstance(idx, ast.Slice) and (idx.lower is not None or idx.upper is not None):
                        out.append((fi, n, f"`{ast.unparse(n)}` selects a sub-range of batch rows", bool(tabled), tabled))
    return out


def _bound_to_zip_item(fi, name):
    """`name` is a comprehension / for target iterating over zip(...): each value is a Python tuple, so builtin sum over it
    adds the tuple's members element-wise (no tensor axis is reduced)."""
    for n in ast.walk(fi.node):
        gens = n.generators if isinstance(n, (ast.ListComp, ast.GeneratorExp, ast.SetComp, ast.DictComp)) else []
        if isinstance(n, ast.For):
            gens = [n]
        for g in gens:
            tgt, it = g.target, g.iter
            if isinstance(tgt, ast.Name) and tgt.id == name and isinstance(it, ast.Call) and \
                    isinstance(it.func, ast.Name) and it.func.id == "zip":
                return True
    return False


def r20_2(ctx):
    rep, model = ctx.rep, ctx.model
    rep.rule("R20.2", "no batch-axis reduction, builtin sum over a tensor, or batch-axis mixing on the fixed-step value "
                      "path (trailing axes only; tabled sites carry a reason)")
    n = 0
    for fi, node, desc, ok, reason in axis_scan(model):
        n += 1
        rep.analysed(fi)
        rep.check(ok, "R20.2", astq.loc(fi, node), f"{fi.key}::R20.2::{astq.digest(node)}",
                  f"{fi.qualname}: {desc}: the result for one batch row would depend on other rows", reason or "")
    from ..report import VERIF_DIR
    fx = os.path.join(VERIF_DIR, "fixtures", "c20_bad")
    fm = RepoModel(fx)
    bad = [x for x in axis_scan(fm) if not x[3]]
    if len(bad) < 4:
        raise AnalysisError(f"positive fixture {fx} yields {len(bad)} findings (expected >= 4): rule R20.2 is broken")
    rep.extra["fixture_findings"] = len(bad)
    ctx.floor("R20.2", 15)


def run(ctx):
    ctx.guard(c04.r04_5)
    ctx.guard(r20_2)


# ------------------------------------------------------------------------------------------------ R20.3 rows at index level
def _row_sym(name, b, j):
    from .. import nf
    return nf.sym(f"{name}@{b}@{j}", True)


def _rows_of(x):
    """Batch-row indices occurring in an entry (symbols are named <tensor>@<row>@<column...>)."""
    from .. import nf
    rows = set()
    for a in nf.all_atoms(x):
        if a[0] == "s" and a[1].count("@") >= 2:
            rows.add(int(a[1].split("@")[1]))
    return rows


def index_step(model, sc, dom, B=3, d=2):
    """One solver step on index-level tensors: y0 of shape (B, d) with one symbol per entry, a Brownian increment with one
    symbol per entry, and an SDE that acts row-wise (row r of every output is an opaque function of row r of the inputs).
    Returns the ST of the new state."""
    from fractions import Fraction
    from .. import nf
    from ..interp import Intrinsic, Obj
    from ..nf import Rat
    from . import c17, solverkit
    ST = c17.ST
    nt_names = {v: k for k, v in dom.noise_types.items()}
    nt = nt_names[sc.noise_type]
    m = d if nt == "diagonal" else (1 if nt == "scalar" else 2)

    def rowwise(name, out_cols):
        """out[r, *c] = name[c](t, row r of every tensor argument)"""
        def f(t, *tensors):
            R = tensors[0].shape[0]
            data = {}
            import itertools
            for r in range(R):
                key = []
                for x in tensors:
                    sub = {ix[1:]: v for ix, v in x.data.items() if ix[0] == r}
                    key += [sub[k] for k in sorted(sub)]
                for c in itertools.product(*[range(n) for n in out_cols]):
                    data[(r,) + c] = nf.fn(f"{name}{list(c)}", t, *key)
            return ST((R,) + tuple(out_cols), data)
        return f
    g_cols = (d,) if nt == "diagonal" else (d, m)
    F_, G_ = rowwise("F", (d,)), rowwise("G", g_cols)

    def prod(g, v):
        if nt == "diagonal":
            return g * v
        return c17._bmm(g, c17._st_method(v, "unsqueeze", (-1,), {}, ""), "").getitem((slice(None), slice(None), 0))
    GDG_, DGGA_ = rowwise("GDG", (d,)), rowwise("DGGA", (d,))
    table = {
        "f": lambda it, a, k, n, f: F_(a[0], a[1]),
        "g": lambda it, a, k, n, f: G_(a[0], a[1]),
        "f_and_g": lambda it, a, k, n, f: (F_(a[0], a[1]), G_(a[0], a[1])),
        "prod": lambda it, a, k, n, f: prod(a[0], a[1]),
        "g_prod": lambda it, a, k, n, f: prod(G_(a[0], a[1]), a[2]),
        "f_and_g_prod": lambda it, a, k, n, f: (F_(a[0], a[1]), prod(G_(a[0], a[1]), a[2])),
        "g_prod_and_gdg_prod": lambda it, a, k, n, f: (prod(G_(a[0], a[1]), a[2]),
                                                       GDG_(a[0], a[1], a[3]) if isinstance(a[3], ST) else GDG_(a[0], a[1])),
        "dg_ga_jvp_column_sum": lambda it, a, k, n, f: DGGA_(a[0], a[1], a[2]),
    }
    params = {"f": ["t", "y"], "g": ["t", "y"], "f_and_g": ["t", "y"], "prod": ["g", "v"], "g_prod": ["t", "y", "v"],
              "f_and_g_prod": ["t", "y", "v"], "g_prod_and_gdg_prod": ["t", "y", "v1", "v2"],
              "dg_ga_jvp_column_sum": ["t", "y", "a"]}
    sde = Obj("row-wise-sde", attrs={k: Intrinsic(f"sde.{k}", v, params=params[k]) for k, v in table.items()})
    sde.attrs["noise_type"], sde.attrs["sde_type"] = sc.noise_type, sc.sde_type

    def sym_tensor(name, shape):
        import itertools
        return ST(shape, {ix: _row_sym(name, ix[0], "_".join(map(str, ix[1:]))) for ix in itertools.product(*[range(s) for s in shape])})

    def bm_call(it, obj, args, kwargs, node, fi):
        a = list(args)
        ru = a[2] if len(a) > 2 else kwargs.get("return_U", False)
        ra = a[3] if len(a) > 3 else kwargs.get("return_A", False)
        out = [sym_tensor("W", (B, m))]
        if ru:
            out.append(sym_tensor("U", (B, m)))
        if ra:
            out.append(sym_tensor("A", (B, m, m)))
        return out[0] if len(out) == 1 else tuple(out)
    bm = Obj("bm", call_hook=bm_call)
    it = c17._index_interp(model)
    so = solverkit.solver_obj(model, sc.cls, sde, bm, dict(sc.options))
    t0, h = nf.sym("t0", True), nf.sym("h", True)
    y0 = sym_tensor("y0", (B, d))
    init = model.lookup_method(sc.cls, "init_extra_solver_state")
    ex = tuple(it.call_function(init, [so, t0, y0], {}) or ())
    outs = {}
    for grad_mode in (True, False):
        it.hooks.grad_mode = grad_mode
        y1, _ = it.call_function(sc.step_fi, [so, t0, t0 + h, y0, ex], {})
        outs[grad_mode] = y1
    return outs, B, d


def r20_3(ctx):
    """Row independence decided on the step bodies themselves: every solver step (all noise types, option variants, with
    autograd on and off) is evaluated on index-level tensors with three batch rows and a row-wise SDE; entry [b, j] of the
    new state may mention row b of the inputs only.  Three rows make a mis-paired re-batching (stack two copies along the
    batch axis, split them the wrong way round) visible, which no lint of single calls can decide."""
    from . import c17, solvers, steps
    from ..interp import SimRaise
    rep, model = ctx.rep, ctx.model
    rep.rule("R20.3", "every solver step on index-level tensors (3 rows, row-wise SDE, autograd on and off): entry [b, j] of "
                      "the new state depends on row b of the state and of the Brownian increment only")
    dom = solvers.Domains(model)
    n = 0
    # sizes: several state channels, and a single one (shapes with a 1 in them are where fast paths and broadcasting live)
    sizes = ((4, 3), (3, 1), (2, 2)) if ctx.tier == "thorough" else ((3, 2), (3, 1))
    for sc, (B0, d0) in [(sc, sz) for sc in steps.scenarios(model, dom) for sz in sizes]:
        construct = (f"{sc.step_fi.key}::R20.3::{sc.cls.name}::{sc.noise_type}::"
                     f"{','.join(sorted(k for k, v in sc.options.items() if v))}" + ("" if (B0, d0) == sizes[0] else f"::B={B0},d={d0}"))
        try:
            outs, B, d = index_step(model, sc, dom, B0, d0)
        except SimRaise as e:
            raise AnalysisError(f"R20.3: {sc.label}: the step raises {e.exc_name} on index-level tensors: {e.message}",
                                where=astq.loc(sc.step_fi))
        rep.analysed(sc.step_fi)
        bad = []
        for mode, y1 in outs.items():
            if not (isinstance(y1, c17.ST) and y1.shape == (B, d)):
                bad.append(f"autograd {'on' if mode else 'off'}: the new state has shape {getattr(y1, 'shape', None)}, not {(B, d)}")
                continue
            for (b, j), v in y1.data.items():
                others = sorted(_rows_of(v) - {b})
                if others:
                    bad.append(f"autograd {'on' if mode else 'off'}: y1[{b}, {j}] depends on row(s) {others} of the inputs")
                    break
        n += 1
        rep.check(not bad, "R20.3", astq.loc(sc.step_fi), construct,
                  f"{sc.label}: {'; '.join(bad)}: batch rows are not independent (changing another row changes this one)",
                  "row b of the new state depends on row b only")
    if n < 60:
        raise AnalysisError(f"R20.3 evaluated only {n} step scenarios")
    ctx.floor("R20.3", 60)


_run_c20b = run


def run(ctx):
    _run_c20b(ctx)
    ctx.guard(r20_3)


# ------------------------------------------------------------------------------------------------ R20.4
def r20_4(ctx):
    """Row independence of the operators ForwardSDE derives (the g dg v Milstein term in its default, diagonal and additive
    forms, both Levy-area Jacobian sums, g_prod, f_and_g_prod): evaluated from their own bodies on index-level tensors with
    a row-wise user SDE.  Autograd is modelled by its dependency structure only: a Jacobian-vector or vector-Jacobian
    product is an opaque function, per output entry, of exactly those entries of outputs / cotangents / tangents whose
    rows are linked through the differentiated values -- which is all row independence needs.  Sizes include a single
    state channel and a single noise channel (fast paths and broadcasting live where a dimension is 1)."""
    from fractions import Fraction
    from .. import nf
    from ..nf import Rat
    from . import c17, solvers
    from .c02 import user_sde_obj
    from ..interp import Closure, Intrinsic, Obj, SimRaise
    rep, model = ctx.rep, ctx.model
    rep.rule("R20.4", "the operators ForwardSDE derives (Milstein term in every form, Levy-area Jacobian sums, products), from "
                      "their own bodies on index-level tensors with a row-wise SDE: output row b depends on input row b only")
    ST = c17.ST
    dom = solvers.Domains(model)
    fwd = model.cls(c17.BASE_SDE, "ForwardSDE")
    rep.analysed(fwd.methods["__init__"])

    def sym_tensor(name, shape):
        import itertools
        return ST(shape, {ix: _row_sym(name, ix[0], "_".join(map(str, ix[1:]))) for ix in itertools.product(*[range(s) for s in shape])})

    def rowwise(name, out_cols):
        import itertools

        def f(it, a, k, n, fi):
            t, y = a[0], a[1]
            data = {}
            for r in range(y.shape[0]):
                key = [y.data[ix] for ix in sorted(y.data) if ix[0] == r]
                for c in itertools.product(*[range(x) for x in out_cols]):
                    data[(r,) + c] = nf.fn(f"{name}{list(c)}", t, *key)
            return ST((y.shape[0],) + tuple(out_cols), data)
        return f

    class H(c17.IndexHooks):
        def on_call(self, interp, callee, args, kwargs, node, fi):
            cfi = getattr(callee, "fi", None)
            if isinstance(callee, Closure) and cfi is not None and cfi.name in ("vjp", "jvp") and cfi.module.relpath.endswith("misc.py"):
                outs = kwargs.get("outputs", args[0] if args else None)
                ins = kwargs.get("inputs", args[1] if len(args) > 1 else None)
                g_ = kwargs.get("grad_outputs" if cfi.name == "vjp" else "grad_inputs", args[2] if len(args) > 2 else None)
                single_out = isinstance(outs, ST)
                outs_l = [outs] if single_out else list(outs)
                ins_l = [ins] if isinstance(ins, ST) else list(ins)
                g_l = [g_] if isinstance(g_, ST) else list(g_)
                if not all(isinstance(x, ST) for x in outs_l + ins_l + g_l):
                    raise AnalysisError("R20.4: autograd call on values that are not index-level tensors", where=astq.loc(fi, node))
                if cfi.name == "vjp":
                    res = []
                    for x in ins_l:
                        data = {}
                        for ix, xv in x.data.items():
                            dep = [o.data[j] * c.data[j] for o, c in zip(outs_l, g_l) for j in o.data
                                   if nf.all_atoms(Rat.lift(xv)) & nf.all_atoms(Rat.lift(o.data[j]))]
                            data[ix] = nf.fn("VJP", xv, *dep) if dep else Rat.const(0)
                        res.append(ST(x.shape, data))
                    return tuple(res)
                res = []
                for o in outs_l:
                    data = {}
                    for j, ov in o.data.items():
                        dep = [tv for x, tn in zip(ins_l, g_l) for ix, tv in tn.data.items()
                               if nf.all_atoms(Rat.lift(x.data[ix])) & nf.all_atoms(Rat.lift(ov))]
                        data[j] = nf.fn("JVP", ov, *dep) if dep else Rat.const(0)
                    res.append(ST(o.shape, data))
                return tuple(res)
            return c17.IndexHooks.on_call(self, interp, callee, args, kwargs, node, fi)
    n = 0
    for nt_name in ("diagonal", "scalar", "additive", "general"):
        for (B, d, m) in ((3, 2, 2), (3, 1, 1), (2, 2, 1)):
            if nt_name == "diagonal":
                m = d
            if nt_name == "scalar":
                m = 1
            it = c17._index_interp(model)
            it.hooks = H()
            g_cols = (d,) if nt_name == "diagonal" else (d, m)
            user = user_sde_obj(dom.noise_types[nt_name])
            user.attrs["f"] = Intrinsic("user.f", rowwise("F", (d,)), params=["t", "y"])
            user.attrs["g"] = Intrinsic("user.g", rowwise("G", g_cols), params=["t", "y"])
            for k in ("f_and_g", "g_prod", "f_and_g_prod", "h"):
                user.attrs.pop(k, None)
            obj = it.instantiate(fwd, [user], {})
            t, y = nf.sym("t", True), sym_tensor("y", (B, d))
            v = sym_tensor("v", (B, m))
            a_ = sym_tensor("a", (B, m, m))
            ops = [("g_prod", [t, y, v]), ("f_and_g_prod", [t, y, v]), ("g_prod_and_gdg_prod", [t, y, v, sym_tensor("w", (B, m))]),
                   ("dg_ga_jvp_column_sum", [t, y, a_])]
            for op, args in ops:
                construct = f"{fwd.key}::R20.4::{op}::{nt_name}::B={B},d={d},m={m}"
                try:
                    slot = it.getattr(obj, op)
                    out = it.call(slot, args, {})
                except SimRaise as e:
                    raise AnalysisError(f"R20.4: ForwardSDE.{op} ({nt_name}, B={B}, d={d}, m={m}) raises {e.exc_name}: {e.message}",
                                        where=astq.loc(fwd.methods["__init__"]))
                outs = [o for o in (out if isinstance(out, (tuple, list)) else (out,)) if isinstance(o, ST)]
                bad = []
                for o in outs:
                    if o.shape[0] != B:
                        bad.append(f"an output has shape {o.shape}: the batch axis is lost")
                        continue
                    for ix, val in o.data.items():
                        others = sorted(_rows_of(val) - {ix[0]})
                        if others:
                            bad.append(f"entry {list(ix)} depends on row(s) {others} of the inputs")
                            break
                n += 1
                rep.check(not bad, "R20.4", astq.loc(getattr(slot, "fi", None) or fwd.methods["__init__"]), construct,
                          f"ForwardSDE.{op} for {nt_name} noise (batch {B}, state {d}, noise {m}): {'; '.join(bad[:2])}: batch rows "
                          f"are not independent", "row b of every output depends on row b only")
    ctx.floor("R20.4", 40)


_run_c20c = run


def run(ctx):
    _run_c20c(ctx)
    ctx.guard(r20_4)


EXPLANATION = EXPLANATION + " " + (
    "R20.4: ForwardSDE is instantiated on a row-wise user SDE and g_prod, f_and_g_prod, g_prod_and_gdg_prod (every noise type's form) and dg_ga_jvp_column_sum are evaluated from their own bodies on index-level tensors (one symbol per entry; sizes (3,2,2), (3,1,1), (2,2,1)); misc.vjp / misc.jvp are modelled by their dependency structure only; entry [b, ...] of every output may mention row b of the inputs only and the batch axis must survive.")
