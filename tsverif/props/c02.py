"""C02 -- each solver step matches the stochastic Taylor expansion (DESIGN.md section C02).

R02.1 Euler is the textbook formula; R02.2 derivative Milstein is the textbook formula (+ the GDG wiring in
ForwardSDE); R02.3 weight-1 (Stratonovich / Milstein) condition of every RK-type step; R02.4 SRK scheme form with a
symbolic tableau + Roessler's order conditions on the tableaus actually used."""
import ast
from fractions import Fraction

from .. import astq, nf
from ..errors import AnalysisError
from ..interp import Hooks, Interp, Intrinsic, Obj, SimRaise
from ..nf import Rat
from . import solverkit, solvers, steps
from .autograd_kit import AutogradModel

SRK_FILE = "torchsde/_core/methods/srk.py"
BASE_SDE = "torchsde/_core/base_sde.py"

EXPLANATION = (
    "Each solver step body reachable through methods.select is partially evaluated (ast only) into a canonical "
    "polynomial form over opaque atoms F[t,y], G[t,y], W[t0,t1], U, A, prod(.,.) (bilinear), GDG (linear) with "
    "exact rational coefficients, and compared with reference formulas by polynomial identity. R02.1: Euler == "
    "y0 + F h + G W. R02.2: derivative Milstein == y0 + F h + G W + GDG(v/2) with v = W^2 - h (Ito) / W^2 "
    "(Stratonovich); ForwardSDE wires GDG as vjp(g, y, g*v2). R02.3: sum_i v_i c_i = 1/2 for every Stratonovich "
    "RK-type step and (1/(2 sqrt h)) sqrt h = 1/2 with zero-order cancellation for derivative-free Milstein. "
    "R02.4: the two SRK step bodies evaluated with a *symbolic* tableau equal Roessler's SRI/SRA scheme templates, "
    "and the tableau modules they import satisfy the 25 SRI / 8 SRA order-1.5 conditions in exact rationals. "
    "R02.6: every (solver, noise type, option) step, specialised to a scalar SDE, is expanded as a weighted series in "
    "(h, dW, U) whose coefficients are polynomials in symbolic partial derivatives of f and g, and compared with the "
    "Ito / Stratonovich Taylor expansion generated from L0, L1 by symbolic differentiation: identical up to weight p, "
    "equal in expectation at weight p + 1/2 (p = the strong order the solver object advertises). "
    "Not decided: Taylor agreement for multi-dimensional non-commutative SDEs beyond the structural rules."
)


def _dom(ctx):
    if "dom" not in ctx._cache:
        ctx._cache["dom"] = solvers.Domains(ctx.model)
    return ctx._cache["dom"]


def _scen(ctx):
    if "scen" not in ctx._cache:
        ctx._cache["scen"] = steps.distinct_step_scenarios(ctx.model, _dom(ctx))
    return ctx._cache["scen"]


def _eval(ctx, sc):
    key = ("step", sc.label)
    if key not in ctx._cache:
        ctx._cache[key] = steps.eval_step(ctx.model, sc, _dom(ctx))
    return ctx._cache[key]


def _W(t0, t1):
    return nf.fn("W", t0, t1)


# ------------------------------------------------------------------------------------------------ R02.1
def r02_1(ctx):
    rep = ctx.rep
    rep.rule("R02.1", "Euler--Maruyama step == y0 + f(t0,y0) h + g(t0,y0) dW (polynomial identity)")
    dom = _dom(ctx)
    n = 0
    for sc in _scen(ctx):
        if sc.cls.name != "Euler":
            continue
        y1, _, _, (t0, h, t1, y0) = _eval(ctx, sc)
        rep.analysed(sc.step_fi)
        ref = y0 + solverkit.F(t0, y0) * h + solverkit.prod(solverkit.G(t0, y0), _W(t0, t1))
        n += 1
        rep.check(nf.equal(y1, ref), "R02.1", astq.loc(sc.step_fi), f"{sc.step_fi.key}::R02.1::{sc.noise_type}",
                  f"Euler step is `{y1}` but the Euler--Maruyama formula is `{ref}`",
                  "equals the textbook formula", facts={"canonical": repr(y1)})
    if n == 0:
        raise AnalysisError("no Euler step scenario found (methods.select no longer returns a class named Euler)")
    ctx.floor("R02.1", 1)


# ------------------------------------------------------------------------------------------------ R02.2
def r02_2(ctx):
    rep = ctx.rep
    rep.rule("R02.2", "derivative-based Milstein == y0 + f h + g dW + (g dg)(v/2), v = dW^2 - h (Ito), dW^2 "
                      "(Stratonovich); ForwardSDE's g_prod_and_gdg_prod_* wire GDG as vjp(g, y, g*v2)")
    n = 0
    for sc in _scen(ctx):
        if "Milstein" not in sc.cls.name or any(sc.options.values()):
            continue
        y1, _, _, (t0, h, t1, y0) = _eval(ctx, sc)
        rep.analysed(sc.step_fi)
        W = _W(t0, t1)
        v = W * W - h if sc.sde_type == "ito" else W * W
        gdg = nf.linear("GDG", (Rat.lift(t0).key(), Rat.lift(y0).key()), Rat.const(Fraction(1, 2)) * v)
        ref = y0 + solverkit.F(t0, y0) * h + solverkit.prod(solverkit.G(t0, y0), W) + gdg
        n += 1
        rep.check(nf.equal(y1, ref), "R02.2", astq.loc(sc.step_fi),
                  f"{sc.step_fi.key}::R02.2::{sc.cls.name}::{sc.noise_type}",
                  f"{sc.cls.name} step is `{y1}` but the {sc.sde_type} Milstein formula is `{ref}`",
                  "equals the textbook formula", facts={"canonical": repr(y1)})
    if n < 2:
        raise AnalysisError("fewer than two derivative-based Milstein scenarios (Ito and Stratonovich) found")
    gdg_wiring(ctx, "R02.2")
    ctx.floor("R02.2", 6)


def gdg_wiring(ctx, rule):
    """ForwardSDE.g_prod_and_gdg_prod_* return (g v1, sum_l d g[:, l]/dy . (g[:, l] v2_l)) for each noise type: the
    Milstein correction is a Jacobian-vector product (directional derivative of each diffusion column along itself).
    For diagonal noise the Jacobian of g is diagonal by the declared structure, so the transposed product (one vjp) is
    the same quantity and is accepted; for scalar / general noise it is not."""
    rep = ctx.rep
    model = ctx.model
    fwd = model.cls(BASE_SDE, "ForwardSDE")
    t, y, v1, v2 = nf.sym("t", True), nf.sym("y"), nf.sym("v1"), nf.sym("v2")
    # noise types under which some solver step actually calls the operator (Milstein: additive, diagonal, scalar)
    dom = _dom(ctx)
    names = {v: k for k, v in dom.noise_types.items()}
    used = sorted({names[sc.noise_type] for sc in steps.scenarios(model, dom)
                   if any(isinstance(n, ast.Attribute) and n.attr == "g_prod_and_gdg_prod" for n in ast.walk(sc.step_fi.node))})
    if len(used) < 3:
        raise AnalysisError(f"g_prod_and_gdg_prod is used by solver steps under {used} only; Milstein's noise types changed")
    for nt in used:
        M = 1 if nt == "scalar" else 2
        hooks = ColumnHooks(M)
        it = Interp(model, hooks)
        obj = it.instantiate(fwd, [user_sde_obj(nt)], {})
        try:
            slot = it.getattr(obj, "g_prod_and_gdg_prod")
            out = it.call(slot, [t, y, v1, v2], {})
        except SimRaise as e:
            rep.fail(rule, fwd.module.relpath, f"{fwd.key}::{rule}::gdg-wiring::{nt}",
                     f"g_prod_and_gdg_prod for {nt} noise raises {e.exc_name}")
            continue
        fi = slot.fi if hasattr(slot, "fi") else None
        if fi is not None:
            rep.analysed(fi)
        G = solverkit.G(t, y)
        first, second = out
        # the diffusion-vector product itself: element-wise for diagonal noise, batched mat-vec otherwise
        ref1 = G * v1 if nt == "diagonal" else nf.bilinear("mvp", G, v1)
        where = astq.loc(fi) if fi else fwd.module.relpath
        construct = f"{fwd.key}::{rule}::gdg-wiring::{nt}"
        if nt == "additive":
            ok = nf.equal(first, ref1) and nf.equal(Rat.lift(second), Rat.const(0))
            rep.check(ok, rule, where, construct, f"Milstein correction mis-wired -- additive: got ({first}, {second}), "
                      f"expected ({ref1}, 0)", "returns (g v1, 0)")
            continue
        if nt == "diagonal":
            refs = [nf.linear("VJP", (G.key(), y.key()), G * v2), nf.linear("JVP", (G.key(), y.key()), G * v2)]
        else:
            gv = G * nf.wrap_axis(v2, "row")
            col_sum = Rat.const(0)
            for col in range(M):
                gc = nf.linear(f"getitem[...,{col}]", (), G)
                col_sum = col_sum + nf.linear("JVP", (gc.key(), y.key()), nf.linear(f"getitem[...,{col}]", (), gv))
            refs = [col_sum]
        ok = nf.equal(first, ref1) and isinstance(second, Rat) and any(nf.equal(second, r) for r in refs)
        if not ok and isinstance(second, Rat):
            vocab = {a[1] for a in nf.all_atoms(second) if a[0] == "lin"}
            if not vocab or not vocab <= {"VJP", "JVP"} | {f"getitem[...,{c}]" for c in range(M)}:
                raise AnalysisError(f"g_prod_and_gdg_prod for {nt} noise evaluates to `{second}`: not built from the "
                                    f"recognised autograd helpers, cannot be compared with its definition", where=where)
        rep.check(ok, rule, where, construct,
                  f"Milstein correction mis-wired -- {nt}: got ({first}, {second}); the textbook term 1/2 sum_l (d g[:, l]/dy) "
                  f"g[:, l] v_l is a Jacobian-vector product per diffusion column, `{refs[0]}`"
                  + (" (a vector-Jacobian product J^T (g v) equals it only when the Jacobian of g is symmetric, e.g. state "
                     "dimension 1)" if nt != "diagonal" else ""),
                  "returns (g v1, sum_l jvp(g[:, l], y, g[:, l] v2_l))")


class FwdHooks(AutogradModel, solverkit.StepHooks):
    """Hooks for evaluating ForwardSDE's own methods: misc.vjp / misc.jvp are evaluated from their own bodies on top of
    the autograd model (autograd_kit); what they are called with is recorded."""

    def __init__(self):
        solverkit.StepHooks.__init__(self, 2)
        self.ag_init()
        self.autograd_calls = []
        self._in_helper = False

    def external_call(self, interp, dotted, args, kwargs, node, fi):
        r = self.ag_external_call(interp, dotted, args, kwargs, node, fi)
        if r is not NotImplemented:
            return r
        if dotted == "torch.is_grad_enabled":
            return True
        if dotted in ("torch.as_tensor",) and args:
            return args[0]
        if dotted == "torch.bmm":
            return nf.bilinear("bmm", args[0], args[1])
        if dotted == "torch.repeat_interleave":
            return nf.linear("repeat_interleave", (), args[0])
        return NotImplemented

    def tensor_attr(self, interp, recv, name, node, fi):
        r = self.ag_tensor_attr(interp, recv, name, node, fi)
        if r is not NotImplemented:
            return r
        if name == "requires_grad":
            return False
        return NotImplemented

    def on_call(self, interp, callee, args, kwargs, node, fi):
        from ..interp import Closure
        if isinstance(callee, Closure) and callee.fi is not None and callee.fi.module.relpath.endswith("misc.py"):
            nm = callee.fi.name
            if nm in ("vjp", "jvp") and not self._in_helper:
                # record the call site, then evaluate the helper's own body (its return convention is part of the code)
                self.autograd_calls.append((nm, kwargs, node))
                self._in_helper = True
                try:
                    return interp.call_function(callee.fi, list(args), dict(kwargs))
                finally:
                    self._in_helper = False
            if nm == "batch_mvp":
                return nf.bilinear("mvp", args[0], args[1])
        return NotImplemented


class ColumnHooks(FwdHooks):
    """FwdHooks + a concrete number of noise channels, so that per-column loops over g.size(-1) unroll."""

    def __init__(self, M=2):
        super().__init__()
        self.M = M

    def tensor_method(self, interp, recv, name, args, kwargs, node, fi):
        if name == "size":
            if args and int(args[0]) == -1:
                return Fraction(self.M)
            if not args:
                return (nf.sym("batch", True), nf.sym("d", True), Fraction(self.M))
        return FwdHooks.tensor_method(self, interp, recv, name, args, kwargs, node, fi)


def user_sde_obj(noise_type, sde_type="ito", available=("f", "g")):
    """An abstract *user* SDE exposing the given primitive subset (meaning table of solverkit)."""
    sde = solverkit.make_sde(available=set(available))
    sde.attrs["noise_type"] = noise_type
    sde.attrs["sde_type"] = sde_type
    return sde


def forward_sde_obj(model, noise_type, sde_type="ito", available=("f", "g"), fast=False):
    """ForwardSDE(user_sde) evaluated abstractly: returns (object, interpreter)."""
    hooks = FwdHooks()
    it = Interp(model, hooks)
    fwd = model.cls(BASE_SDE, "ForwardSDE")
    user = user_sde_obj(noise_type, sde_type, available)
    obj = it.instantiate(fwd, [user], {"fast_dg_ga_jvp_column_sum": fast} if fast else {})
    return obj, it


# ------------------------------------------------------------------------------------------------ R02.3
def _diffusion_weight(y1, second_arg_pred, direction):
    """sum over atoms prod(G[t_i, Y_i], V) with V accepted by second_arg_pred of coef_i * d(Y_i)/d(direction),
    and the plain sum of coef_i (zeroth order).  Evaluation points are collapsed first."""
    y1 = nf.reduce_sqrt(Rat.lift(y1))
    if not y1.is_poly():
        raise AnalysisError("step value has a non-monomial denominator")
    total, zeroth, terms = Rat.const(0), Rat.const(0), []
    for m, c in y1.num.terms.items():
        bils = [(a, e) for a, e in m if a[0] == "bil" and a[1] == "prod"]
        if len(bils) != 1 or bils[0][1] != 1:
            continue
        a = bils[0][0]
        gk, vk = nf.key_to_rat(a[2]), nf.key_to_rat(a[3])
        g_atoms = [x for x in gk.atoms()]
        if len(g_atoms) != 1 or g_atoms[0][0] != "fn" or g_atoms[0][1] != "G" or not second_arg_pred(vk):
            continue
        coef = Rat(nf.Poly({tuple((x, e) for x, e in m if x != a): c}))
        Y = nf.key_to_rat(g_atoms[0][3])
        Yc = steps.collapse(Y)
        d = nf.coefficient_of(Yc, direction)
        total = total + coef * d
        zeroth = zeroth + coef
        terms.append((repr(coef), repr(d)))
    return total, zeroth, terms


def _fd_times(y1, W):
    """Time arguments of the G evaluations that are multiplied by something other than the plain increment W (the
    finite-difference terms of derivative-free Milstein)."""
    y1 = nf.reduce_sqrt(Rat.lift(y1))
    out = []
    for m, c in y1.num.terms.items():
        for a, e in m:
            if a[0] == "bil" and a[1] == "prod":
                vk = nf.key_to_rat(a[3])
                if nf.equal(vk, W):
                    continue
                for g in nf.key_to_rat(a[2]).atoms():
                    if g[0] == "fn" and g[1] == "G":
                        out.append(nf.key_to_rat(g[2]))
    return out


def r02_3(ctx):
    rep = ctx.rep
    rep.rule("R02.3", "weight-1 condition: sum_i v_i c_i = 1/2 over the diffusion evaluations of every Stratonovich "
                      "RK-type step; derivative-free Milstein: zeroth order cancels and first order is 1/2")
    G0 = ("t", "G0")
    n_rk = n_gf = 0
    for sc in _scen(ctx):
        y1, _, _, (t0, h, t1, y0) = _eval(ctx, sc)
        W = _W(t0, t1)
        construct = f"{sc.step_fi.key}::R02.3::{sc.cls.name}::{sc.noise_type}"
        if "Milstein" in sc.cls.name and any(sc.options.values()):
            # derivative-free branch: terms prod(G[t0, Y], v) with v in {W^2, 1}
            direction = G0
            tot, zero, terms = _diffusion_weight(
                y1, lambda v: not nf.equal(v, W), direction)
            # first-order part must be 1/2 per unit of v: compare against the W^2 coefficient only
            totW2, zeroW2, _ = _diffusion_weight(y1, lambda v: nf.equal(v, W * W), direction)
            ok = nf.equal(totW2, Rat.const(Fraction(1, 2))) and nf.equal(zeroW2, Rat.const(0))
            if sc.sde_type == "ito":
                tot1, zero1, _ = _diffusion_weight(y1, lambda v: nf.equal(v, Rat.const(1)), direction)
                ok = ok and nf.equal(tot1, Rat.const(Fraction(-1, 2)) * h) and nf.equal(zero1, Rat.const(0))
            else:
                tot1, zero1, _ = _diffusion_weight(y1, lambda v: nf.equal(v, Rat.const(1)), direction)
                ok = ok and nf.equal(tot1, Rat.const(0)) and nf.equal(zero1, Rat.const(0))
            # the finite difference g(t', y') - g(t, y) is divided by sqrt(h): the two evaluation times must coincide,
            # otherwise it also picks up (dg/dt) (t' - t) / (2 sqrt h), a term of size h^(1/2) times v
            times = _fd_times(y1, W)
            same_time = len({Rat.lift(x).key() for x in times}) == 1
            rep.check(same_time, "R02.3", astq.loc(sc.step_fi), construct + "::fd-times",
                      f"derivative-free {sc.cls.name}: the diffusion evaluations entering the finite difference are taken at "
                      f"times {[str(x) for x in times]}; a time offset dt_off adds (dg/dt) dt_off v / (2 sqrt h) to the step -- "
                      f"for the Stratonovich variant (E v = h) a bias of order h^1.5 per step, i.e. global order 1/2 for "
                      f"time-dependent diffusions", "finite difference taken at one time")
            n_gf += 1
            rep.analysed(sc.step_fi)
            rep.check(ok, "R02.3", astq.loc(sc.step_fi), construct,
                      f"derivative-free {sc.cls.name}: finite-difference weight of (g(y') - g) v is {totW2} on dW^2 "
                      f"(zeroth order {zeroW2}) and {tot1} on the constant part; the Milstein term needs 1/2 on "
                      f"v = dW^2{' - h' if sc.sde_type == 'ito' else ''} with exact zeroth-order cancellation",
                      "first-order weight 1/2, zeroth order cancels", facts={"terms": terms})
            continue
        if sc.sde_type != "stratonovich" or "Milstein" in sc.cls.name:
            continue
        direction = ("bil", "prod", nf.mono_key(((G0, 1),)), nf.mono_key(((W.num.terms and list(W.atoms())[0], 1),)))
        tot, zero, terms = _diffusion_weight(y1, lambda v: nf.equal(v, W), direction)
        n_rk += 1
        rep.analysed(sc.step_fi)
        ok = nf.equal(tot, Rat.const(Fraction(1, 2))) and nf.equal(zero, Rat.const(1))
        rep.check(ok, "R02.3", astq.loc(sc.step_fi), construct,
                  f"{sc.cls.name}: sum_i v_i c_i = {tot} (needs 1/2 for the Stratonovich limit; 0 would be the Ito "
                  f"Euler--Maruyama scheme) and sum_i v_i = {zero} (needs 1); terms (v_i, c_i) = {terms}",
                  "sum v_i c_i = 1/2, sum v_i = 1", facts={"terms": terms})
    if n_rk < 5 or n_gf < 2:
        raise AnalysisError(f"R02.3 found {n_rk} Stratonovich RK-type and {n_gf} derivative-free Milstein scenarios; "
                            f"expected at least 5 and 2")
    ctx.floor("R02.3", 7)


# ------------------------------------------------------------------------------------------------ R02.5
def _second_order_weight(y1, second_arg_pred, direction):
    """sum over atoms prod(G[t_i, Y_i], V) (V accepted by the predicate) of coef_i * (d Y_i / d direction)^2: the weight
    with which the *second* derivative of the diffusion enters a difference quotient."""
    y1 = nf.reduce_sqrt(Rat.lift(y1))
    total = Rat.const(0)
    for m, c in y1.num.terms.items():
        bils = [(a, e) for a, e in m if a[0] == "bil" and a[1] == "prod"]
        if len(bils) != 1 or bils[0][1] != 1:
            continue
        a = bils[0][0]
        gk, vk = nf.key_to_rat(a[2]), nf.key_to_rat(a[3])
        g_atoms = [x for x in gk.atoms()]
        if len(g_atoms) != 1 or g_atoms[0][0] != "fn" or g_atoms[0][1] != "G" or not second_arg_pred(vk):
            continue
        coef = Rat(nf.Poly({tuple((x, e) for x, e in m if x != a): c}))
        d = nf.coefficient_of(steps.collapse(nf.key_to_rat(g_atoms[0][3])), direction)
        total = total + coef * d * d
    return total


def r02_5(ctx):
    """Derivative-free Milstein replaces g'g v / 2 by a difference quotient (g(y + delta) - g(y ...)) v / (2 |delta|/g)
    with delta = g sqrt(h).  Its Taylor expansion also contains g'' g^2 B v / 2, B = sum_i c_i a_i^2 over the
    evaluation points y + a_i g.  For a one-sided difference B = sqrt(h)/2, so the step carries the extra term
    g'' g^2 sqrt(h) v / 4: harmless when E v = 0 (Ito: v = dW^2 - h), but a bias of order h^1.5 per step when E v = h
    (Stratonovich: v = dW^2) -- the expectation then agrees only to O(h^1.5), not O(h^(p+1)) with the advertised p = 1,
    and the global strong order is 1/2.  A symmetric difference has B = 0."""
    rep = ctx.rep
    rep.rule("R02.5", "derivative-free Milstein: the second-order weight B of the difference quotient times E[v] vanishes "
                      "(B = 0 for a symmetric difference; E v = 0 for the Ito variant): no O(h^1.5) bias per step")
    G0 = ("t", "G0")
    n = 0
    for sc in _scen(ctx):
        if not ("Milstein" in sc.cls.name and any(sc.options.values())):
            continue
        y1, _, _, (t0, h, t1, y0) = _eval(ctx, sc)
        W = _W(t0, t1)
        rep.analysed(sc.step_fi)
        b_w2 = _second_order_weight(y1, lambda v: nf.equal(v, W * W), G0)
        b_1 = _second_order_weight(y1, lambda v: nf.equal(v, Rat.const(1)), G0)
        bias = nf.reduce_sqrt(b_w2 * h + b_1)             # E[dW^2] = h, E[1] = 1
        n += 1
        rep.check(bias.is_zero(), "R02.5", astq.loc(sc.step_fi), f"{sc.step_fi.key}::R02.5::{sc.cls.name}::{sc.noise_type}",
                  f"derivative-free {sc.cls.name} ({sc.noise_type} noise): the difference quotient is one-sided (second-order "
                  f"weight {nf.reduce_sqrt(b_w2)} on dW^2, {nf.reduce_sqrt(b_1)} on the constant part) and its multiplier does not have "
                  f"zero mean: every step carries the bias g'' g^2 * ({bias}) / 2 of order h^1.5, so the expectation agrees with "
                  f"the Taylor expansion only to O(h^1.5) and the scheme converges with strong order 1/2, not the advertised 1",
                  "no h^1.5 bias")
    if n < 2:
        raise AnalysisError(f"R02.5 found {n} derivative-free Milstein scenario(s); expected at least 2")
    ctx.floor("R02.5", 2)


# ------------------------------------------------------------------------------------------------ R02.6
def r02_6(ctx):
    """Stochastic Taylor comparison for a generic scalar SDE (tsverif/taylor.py): for every (solver, noise type, option)
    scenario the canonical step, specialised to state dimension 1 and one Brownian channel (prod(g, v) = g v,
    (g dg)(v) = g g_y v, Levy area 0), is expanded in (h, dW, U) about (t0, y0) with the partial derivatives of f and g
    as free symbols and compared with the Ito / Stratonovich Taylor expansion built from the operators L^0, L^1.  With
    p the strong order the solver object advertises for that noise type: all terms of weight <= p agree identically
    and the expectation of the terms of weight p + 1/2 agrees -- the two local-error hypotheses of Milstein's
    fundamental theorem, hence (for scalar SDEs with smooth Lipschitz coefficients) strong order p."""
    from .. import taylor
    rep, model = ctx.rep, ctx.model
    rep.rule("R02.6", "generic scalar SDE: step == Ito/Stratonovich Taylor expansion identically up to weight p and in "
                      "expectation at weight p + 1/2, p = advertised strong order (derivatives of f, g symbolic)")
    dom = _dom(ctx)
    n = 0
    classes = set()
    for sc in steps.scenarios(model, dom):
        key = ("step-all", sc.label, sc.sde_type)
        if key not in ctx._cache:
            ctx._cache[key] = steps.eval_step(model, sc, dom)
        y1, _, _, (t0, h, t1, y0) = ctx._cache[key]
        order = solvers.solver_attr(model, sc.obj, "strong_order")
        if not isinstance(order, (Fraction, int, float)) or isinstance(order, bool):
            raise AnalysisError(f"strong_order of {sc.label} evaluates to {order!r}", where=astq.loc(sc.step_fi))
        p = nf.frac(order)
        additive = sc.noise_type == dom.noise_types.get("additive")
        ito = sc.sde_type == dom.sde_types.get("ito")
        ex = taylor.Expander(additive=additive, t0=t0, h=h, y0=y0, aliases={("t", "z0")})
        series = ex.expand(y1, p + Fraction(1, 2))
        failures = taylor.local_error_conditions(series, ito, additive, p)
        rep.analysed(sc.step_fi)
        classes.add(sc.cls.name)
        n += 1
        msg = "; ".join(
            (f"terms of weight {w} differ from the {'Ito' if ito else 'Stratonovich'}-Taylor expansion by `{taylor.show(r)}` "
             f"(local mean-square error of order h^{w}, needs h^{p + Fraction(1, 2)})") if kind == "mean-square" else
            (f"the expectation of the terms of weight {w} differs by `{taylor.show(r)}` (local mean error of order h^{w}, "
             f"needs h^{p + 1})") for kind, w, r in failures)
        rep.check(not failures, "R02.6", astq.loc(sc.step_fi),
                  f"{sc.step_fi.key}::R02.6::{sc.cls.name}::{sc.noise_type}::{','.join(sorted(k for k, v in sc.options.items() if v))}",
                  f"{sc.label} ({sc.sde_type}, advertised strong order {p}) on a generic scalar SDE: {msg}",
                  "local error conditions hold", facts={"p": str(p), "field_expansions": ex.n_fn,
                                                        "series_terms": len(series.terms)})
    if len(classes) < 9 or n < 30:
        raise AnalysisError(f"R02.6 covered {n} scenarios of {sorted(classes)}; expected all nine forward solver classes")
    ctx.floor("R02.6", 30)


# ------------------------------------------------------------------------------------------------ R02.4
TABLEAU_FIELDS_SRI = ("A0", "A1", "B0", "B1", "C0", "C1", "alpha", "beta1", "beta2", "beta3", "beta4")
TABLEAU_FIELDS_SRA = ("A0", "B0", "C0", "C1", "alpha", "beta1", "beta2")


def tableau_aliases(model):
    """alias -> ModuleInfo for every tableau module imported by srk.py."""
    m = model.module(SRK_FILE)
    out = {}
    for alias, t in m.imports.items():
        if t[0] == "module" and ".tableaus." in t[1]:
            out[alias] = model.modules[t[1]]
    if not out:
        raise AnalysisError("srk.py imports no tableau module", where=SRK_FILE)
    return out


def aliases_used(fi, aliases):
    used = []
    for n in ast.walk(fi.node):
        if isinstance(n, ast.Attribute) and isinstance(n.value, ast.Name) and n.value.id in aliases \
                and n.value.id not in used:
            used.append(n.value.id)
    return used


class SymTableau(Obj):
    def __init__(self, alias, stages):
        super().__init__(f"tableau:{alias}")
        self.alias = alias
        self.attrs["STAGES"] = Fraction(stages)
        for name in TABLEAU_FIELDS_SRI:
            if name in ("A0", "A1", "B0", "B1"):
                self.attrs[name] = tuple(tuple(nf.sym(f"{name}_{i}_{j}", True) for j in range(i))
                                         for i in range(stages))
            else:
                self.attrs[name] = tuple(nf.sym(f"{name}_{i}", True) for i in range(stages))


class SRKHooks(solverkit.StepHooks):
    def __init__(self, tableaus, g_ndim=2):
        super().__init__(g_ndim)
        self.tableaus = tableaus

    def global_name(self, interp, name, fi):
        if name in self.tableaus:
            return self.tableaus[name]
        return NotImplemented


def _sri_reference(tb, S, t0, h, y0, I, U):
    """Roessler's SRI scheme (diagonal / scalar noise) with iterated integrals I_(1,1), I_(1,1,1), I_(1,0) = U."""
    sq = nf.sqrt_of(h)
    I11 = (I * I - h) * Fraction(1, 2)
    I111 = (I * I * I - 3 * h * I) * Fraction(1, 6)
    A0, A1, B0, B1 = tb.attrs["A0"], tb.attrs["A1"], tb.attrs["B0"], tb.attrs["B1"]
    C0, C1 = tb.attrs["C0"], tb.attrs["C1"]
    H0, H1 = [], []
    y1 = y0
    for i in range(S):
        h0, h1 = y0, y0
        for j in range(i):
            f = solverkit.F(t0 + C0[j] * h, H0[j])
            g = solverkit.G(t0 + C1[j] * h, H1[j])
            h0 = h0 + A0[i][j] * f * h + B0[i][j] * g * U / h
            h1 = h1 + A1[i][j] * f * h + B1[i][j] * g * sq
        H0.append(h0)
        H1.append(h1)
        w = (tb.attrs["beta1"][i] * I + tb.attrs["beta2"][i] * I11 / sq + tb.attrs["beta3"][i] * U / h
             + tb.attrs["beta4"][i] * I111 / h)
        y1 = y1 + tb.attrs["alpha"][i] * solverkit.F(t0 + C0[i] * h, h0) * h \
            + solverkit.prod(solverkit.G(t0 + C1[i] * h, h1), w)
    return y1


def _sra_reference(tb, S, t0, h, y0, I, U):
    """Roessler's SRA scheme (additive noise): g depends on time only (evaluated at y0)."""
    A0, B0, C0, C1 = tb.attrs["A0"], tb.attrs["B0"], tb.attrs["C0"], tb.attrs["C1"]
    H0 = []
    y1 = y0
    for i in range(S):
        h0 = y0
        for j in range(i):
            h0 = h0 + A0[i][j] * solverkit.F(t0 + C0[j] * h, H0[j]) * h \
                + solverkit.prod(solverkit.G(t0 + C1[j] * h, y0), B0[i][j] * U / h)
        H0.append(h0)
        w = tb.attrs["beta1"][i] * I + tb.attrs["beta2"][i] * U / h
        y1 = y1 + tb.attrs["alpha"][i] * solverkit.F(t0 + C0[i] * h, h0) * h \
            + solverkit.prod(solverkit.G(t0 + C1[i] * h, y0), w)
    return y1


def _fold_tableau(model, mod):
    it = Interp(model)
    out = {}
    for name in mod.assigns:
        v = it.module_value(mod, name)
        out[name] = v
    if "STAGES" not in out:
        raise AnalysisError("tableau without STAGES", where=mod.relpath)
    return out


def _pad(M, n):
    return [list(r) + [Fraction(0)] * (n - len(r)) for r in M]


def _mv(M, v):
    return [sum((a * b for a, b in zip(r, v)), Fraction(0)) for r in M]


def _dot(a, b):
    return sum((x * y for x, y in zip(a, b)), Fraction(0))


def _sq(v):
    return [x * x for x in v]


def sri_conditions(t):
    n = int(t["STAGES"])
    e = [Fraction(1)] * n
    A0, A1, B0, B1 = (_pad(t[k], n) for k in ("A0", "A1", "B0", "B1"))
    al, b1, b2, b3, b4 = (list(t[k]) for k in ("alpha", "beta1", "beta2", "beta3", "beta4"))
    B0e, A0e, B1e, A1e = _mv(B0, e), _mv(A0, e), _mv(B1, e), _mv(A1, e)
    H = Fraction(1, 2)
    conds = [
        ("sum alpha = 1", _dot(al, e) - 1), ("sum beta1 = 1", _dot(b1, e) - 1), ("sum beta2 = 0", _dot(b2, e)),
        ("sum beta3 = 0", _dot(b3, e)), ("sum beta4 = 0", _dot(b4, e)),
        ("alpha.B0e = 1", _dot(al, B0e) - 1), ("alpha.A0e = 1/2", _dot(al, A0e) - H),
        ("alpha.(B0e)^2 = 3/2", _dot(al, _sq(B0e)) - Fraction(3, 2)),
        ("beta1.A1e = 1", _dot(b1, A1e) - 1), ("beta2.A1e = 0", _dot(b2, A1e)),
        ("beta3.A1e = -1", _dot(b3, A1e) + 1), ("beta4.A1e = 0", _dot(b4, A1e)),
        ("beta1.B1e = 0", _dot(b1, B1e)), ("beta2.B1e = 1", _dot(b2, B1e) - 1),
        ("beta3.B1e = 0", _dot(b3, B1e)), ("beta4.B1e = 0", _dot(b4, B1e)),
        ("beta1.(B1e)^2 = 1", _dot(b1, _sq(B1e)) - 1), ("beta2.(B1e)^2 = 0", _dot(b2, _sq(B1e))),
        ("beta3.(B1e)^2 = -1", _dot(b3, _sq(B1e)) + 1), ("beta4.(B1e)^2 = 2", _dot(b4, _sq(B1e)) - 2),
        ("beta1.B1(B1e) = 0", _dot(b1, _mv(B1, B1e))), ("beta2.B1(B1e) = 0", _dot(b2, _mv(B1, B1e))),
        ("beta3.B1(B1e) = 0", _dot(b3, _mv(B1, B1e))), ("beta4.B1(B1e) = 1", _dot(b4, _mv(B1, B1e)) - 1),
        ("1/2 beta1.A1(B0e) + 1/3 beta3.A1(B0e) = 0",
         H * _dot(b1, _mv(A1, B0e)) + Fraction(1, 3) * _dot(b3, _mv(A1, B0e))),
    ]
    for i in range(n):
        conds.append((f"C0[{i}] = row sum of A0", t["C0"][i] - A0e[i]))
        conds.append((f"C1[{i}] = row sum of A1", t["C1"][i] - A1e[i]))
    return conds


def sra_conditions(t):
    n = int(t["STAGES"])
    e = [Fraction(1)] * n
    A0, B0 = _pad(t["A0"], n), _pad(t["B0"], n)
    al, b1, b2, c1 = list(t["alpha"]), list(t["beta1"]), list(t["beta2"]), list(t["C1"])
    B0e, A0e = _mv(B0, e), _mv(A0, e)
    conds = [
        ("sum alpha = 1", _dot(al, e) - 1), ("sum beta1 = 1", _dot(b1, e) - 1), ("sum beta2 = 0", _dot(b2, e)),
        ("alpha.B0e = 1", _dot(al, B0e) - 1), ("alpha.A0e = 1/2", _dot(al, A0e) - Fraction(1, 2)),
        ("alpha.(B0e)^2 = 3/2", _dot(al, _sq(B0e)) - Fraction(3, 2)),
        ("beta1.c1 = 1", _dot(b1, c1) - 1), ("beta2.c1 = -1", _dot(b2, c1) + 1),
    ]
    for i in range(n):
        conds.append((f"C0[{i}] = row sum of A0", t["C0"][i] - A0e[i]))
    return conds


def r02_4(ctx):
    rep, model = ctx.rep, ctx.model
    rep.rule("R02.4", "SRK: step bodies with a symbolic tableau == Roessler's SRI / SRA scheme; the imported "
                      "tableaus satisfy the order-1.5 conditions exactly")
    aliases = tableau_aliases(model)
    dom = _dom(ctx)
    seen_steps = {}
    for sc in _scen(ctx):
        if sc.cls.name != "SRK":
            continue
        used = aliases_used(sc.step_fi, aliases)
        if len(used) != 1:
            raise AnalysisError(f"{sc.step_fi.qualname} uses tableau aliases {used}; expected exactly one",
                                where=astq.loc(sc.step_fi))
        alias = used[0]
        folded = _fold_tableau(model, aliases[alias])
        S = int(folded["STAGES"])
        additive = sc.noise_type == dom.noise_types.get("additive")
        # (a) scheme form with symbolic tableau
        tb = SymTableau(alias, S)
        t0, h, t1, y0 = solverkit.symbols()
        it = Interp(model, SRKHooks({alias: tb}, 3 if sc.noise_type == dom.noise_types.get("scalar") else 2))
        log = solverkit.BMLog()
        so = solverkit.solver_obj(model, sc.cls, solverkit.make_sde(), solverkit.make_bm(log), {})
        y1, _ = it.call_function(sc.step_fi, [so, t0, t1, y0, ()], {})
        I, U = nf.fn("W", t0, t1), nf.fn("U", t0, t1)
        ref = (_sra_reference if additive else _sri_reference)(tb, S, t0, h, y0, I, U)
        rep.analysed(sc.step_fi)
        rep.check(nf.equal(y1, ref), "R02.4", astq.loc(sc.step_fi),
                  f"{sc.step_fi.key}::R02.4::scheme-form::{sc.noise_type}",
                  f"{sc.step_fi.qualname} with a symbolic {S}-stage tableau is not Roessler's "
                  f"{'SRA' if additive else 'SRI'} scheme (which array multiplies which of f h, g U/h, g sqrt(h); "
                  f"C0/C1 offsets; g-weight beta1 I + beta2 I11/sqrt(h) + beta3 U/h + beta4 I111/h; "
                  f"I11 = (I^2-h)/2, I111 = (I^3-3hI)/6); difference has "
                  f"{len(nf.reduce_sqrt(Rat.lift(y1) - ref).num.terms)} terms",
                  "equals the scheme template for every tableau")
        seen_steps[sc.step_fi.key] = (alias, additive)
        # (b) order conditions on the folded tableau
        if (alias, additive) in [v for k, v in seen_steps.items() if k != sc.step_fi.key]:
            continue
        needed = TABLEAU_FIELDS_SRA if additive else TABLEAU_FIELDS_SRI
        missing = [k for k in needed if k not in folded]
        if missing:
            raise AnalysisError(f"tableau {aliases[alias].relpath} lacks {missing}")
        conds = sra_conditions(folded) if additive else sri_conditions(folded)
        for name, resid in conds:
            rep.check(resid == 0, "R02.4", aliases[alias].relpath,
                      f"{aliases[alias].relpath}::R02.4::{'SRA' if additive else 'SRI'}::{name}",
                      f"order condition `{name}` fails for {aliases[alias].relpath} (residual {resid}): the scheme "
                      f"used by {sc.step_fi.qualname} is not of strong order 1.5",
                      "holds exactly", facts={"residual": str(resid)})
    if len(seen_steps) < 2:
        raise AnalysisError("expected two SRK step bodies (diagonal/scalar and additive)")
    ctx.floor("R02.4", 2 + 25 + 8)


def run_thorough(ctx):
    """Unused tableau modules: a NOTE, never a violation (nothing imports them)."""
    model = ctx.model
    used = {m.relpath for m in tableau_aliases(model).values()}
    for mod in model.modules.values():
        if ".tableaus." in mod.name and mod.relpath not in used and "STAGES" in mod.assigns:
            t = _fold_tableau(model, mod)
            try:
                conds = sri_conditions(t) if "beta4" in t else sra_conditions(t)
            except Exception:
                continue
            bad = [n for n, r in conds if r != 0]
            if bad:
                ctx.rep.note(f"unused tableau {mod.relpath} violates {bad} (imported by nothing; no behaviour "
                             f"depends on it)")


def run(ctx):
    ctx.guard(r02_1)
    ctx.guard(r02_2)
    ctx.guard(r02_3)
    ctx.guard(r02_5)
    ctx.guard(r02_4)
    ctx.guard(r02_6)
    # "p being the solver's advertised strong order": the Taylor comparison above is for scalar SDEs, where every noise
    # is commutative; for general noise the term of weight 1 contains Levy areas a step that only sees dW cannot produce,
    # so an advertised order above the one established for that (scheme, noise type) fails this clause (rule of C01)
    from . import c01
    ctx.guard(c01.r01_4)


_run_before_r13_4 = run


def run(ctx):
    _run_before_r13_4(ctx)
    # the expansion is matched by *every* step of a solve, not only by the first step a solver object takes: a step is a
    # function of its arguments, nothing carried over from earlier steps on the solver, the SDE wrapper or a module (rule of C13)
    from . import c13
    ctx.guard(c13.r13_4)


_run_before_c13_r13_1 = run


def run(ctx):
    _run_before_c13_r13_1(ctx)
    # nothing is kept on the solver or the SDE wrapper between evaluations (a memoised diffusion has no graph to a re-rooted state:
    # the derivative-based Milstein term becomes zero and the step is Euler's; rule of C13)
    from . import c13
    ctx.guard(c13.r13_1)


_run_before_r16_10 = run


def run(ctx):
    _run_before_r16_10(ctx)
    # the derivative-based Milstein term is differentiated by autograd: where autograd records nothing (inference mode) the
    # step must fail rather than silently be Euler's (rule of C16)
    from . import c16
    ctx.guard(c16.r16_10)
