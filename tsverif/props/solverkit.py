"""Shared symbolic environment for the solver-step rules (C01, C02, C10, C15, C16): abstract ForwardSDE / Brownian
objects whose methods return opaque canonical-form atoms.

Meaning table of the SDE slots (checked against ForwardSDE's own default compositions by C16/R16.1):
  f(t,y) = F[t,y]            g(t,y) = G[t,y]            f_and_g(t,y) = (F[t,y], G[t,y])
  prod(g,v) = prod(g,v)      (bilinear)                 g_prod(t,y,v) = prod(G[t,y], v)
  f_and_g_prod(t,y,v) = (F[t,y], prod(G[t,y],v))
  g_prod_and_gdg_prod(t,y,v1,v2) = (prod(G[t,y],v1), GDG[t,y](v2))     (linear in v2)
  dg_ga_jvp_column_sum(t,y,a) = DGGA[t,y](a)                           (linear in a)
Brownian motion: bm(ta,tb) = W[ta,tb]; return_U adds U[ta,tb]; return_A adds A[ta,tb].
"""
import ast
from fractions import Fraction

from .. import nf
from ..errors import AnalysisError
from ..interp import Cat, Hooks, Interp, Intrinsic, Obj, SimRaise
from ..nf import Rat

METHODS_DIR = "torchsde/_core/methods/"


def F(t, y, name="F"):
    return nf.fn(name, t, y)


def G(t, y, name="G"):
    return nf.fn(name, t, y)


def prod(g, v):
    if g is None or v is None:
        raise AnalysisError("prod(None, ...)")
    return nf.bilinear("prod", Rat.lift(g), Rat.lift(v))


def make_sde(fname="F", gname="G", time_map=None, sign=1, available=None, extra=None):
    """Abstract SDE with the meaning table above.  `time_map`/`sign` build the time-reflected negated SDE used by
    the reversibility rules: F'(t,z) = sign*F(time_map(t), z)."""
    tm = time_map or (lambda t: t)

    def f(it, a, k, n, fi):
        t, y = _args(a, k, ("t", "y"))
        return sign * F(tm(t), y, fname)

    def g(it, a, k, n, fi):
        t, y = _args(a, k, ("t", "y"))
        return sign * G(tm(t), y, gname)

    def f_and_g(it, a, k, n, fi):
        t, y = _args(a, k, ("t", "y"))
        return (sign * F(tm(t), y, fname), sign * G(tm(t), y, gname))

    def prod_(it, a, k, n, fi):
        gg, v = _args(a, k, ("g", "v"))
        return prod(gg, v)

    def g_prod(it, a, k, n, fi):
        t, y, v = _args(a, k, ("t", "y", "v"))
        return prod(sign * G(tm(t), y, gname), v)

    def f_and_g_prod(it, a, k, n, fi):
        t, y, v = _args(a, k, ("t", "y", "v"))
        return (sign * F(tm(t), y, fname), prod(sign * G(tm(t), y, gname), v))

    def g_prod_and_gdg_prod(it, a, k, n, fi):
        t, y, v1, v2 = _args(a, k, ("t", "y", "v1", "v2"))
        return (prod(sign * G(tm(t), y, gname), v1),
                nf.linear("GDG", (Rat.lift(tm(t)).key(), Rat.lift(y).key()), Rat.lift(v2)))

    def dg_ga(it, a, k, n, fi):
        t, y, aa = _args(a, k, ("t", "y", "a"))
        return nf.linear("DGGA", (Rat.lift(tm(t)).key(), Rat.lift(y).key()), Rat.lift(aa))

    table = {"f": f, "g": g, "f_and_g": f_and_g, "prod": prod_, "g_prod": g_prod, "f_and_g_prod": f_and_g_prod,
             "g_prod_and_gdg_prod": g_prod_and_gdg_prod, "dg_ga_jvp_column_sum": dg_ga}
    attrs = {name: Intrinsic(f"sde.{name}", _rowwise(fn)) for name, fn in table.items()
             if available is None or name in available}
    attrs.update(extra or {})
    return Obj("sde", attrs=attrs)


def _rowwise(fn):
    """An SDE method applied to states stacked along the batch axis (torch.cat([y_a, y_b], dim=0)) acts on each block:
    the result is the same stack of the per-block results."""
    def wrapped(it, a, k, n, fi):
        vals = list(a) + list(k.values())
        stacks = [v for v in vals if isinstance(v, Cat) and v.kind == "rows"]
        if not stacks:
            return fn(it, a, k, n, fi)
        width = len(stacks[0].parts)
        if any(len(s.parts) != width for s in stacks):
            raise AnalysisError("SDE method called with row-stacked arguments of different block counts")
        outs = []
        for i in range(width):
            ai = [v.parts[i] if isinstance(v, Cat) and v.kind == "rows" else v for v in a]
            ki = {kk: (v.parts[i] if isinstance(v, Cat) and v.kind == "rows" else v) for kk, v in k.items()}
            outs.append(fn(it, ai, ki, n, fi))
        if isinstance(outs[0], tuple):
            return tuple(Cat("rows", [o[j] for o in outs], 0) for j in range(len(outs[0])))
        return Cat("rows", outs, 0)
    return wrapped


def _args(a, k, names):
    vals = list(a)
    for n in names[len(vals):]:
        if n not in k:
            raise AnalysisError(f"missing argument {n} in call of an SDE slot")
        vals.append(k[n])
    if len(vals) != len(names):
        raise AnalysisError(f"SDE slot called with {len(vals)} arguments, expected {len(names)}")
    return vals


class BMLog:
    def __init__(self):
        self.calls = []


def make_bm(log=None, wname="W", uname="U", aname="A"):
    def call(it, obj, args, kwargs, node, fi):
        a = list(args)
        ta = a[0] if a else kwargs.get("ta")
        tb = a[1] if len(a) > 1 else kwargs.get("tb")
        ru = a[2] if len(a) > 2 else kwargs.get("return_U", False)
        ra = a[3] if len(a) > 3 else kwargs.get("return_A", False)
        if log is not None:
            log.calls.append((ta, tb, ru, ra, node))
        out = [nf.fn(wname, ta, tb)]
        if ru:
            out.append(nf.fn(uname, ta, tb))
        if ra:
            out.append(nf.fn(aname, ta, tb))
        return out[0] if len(out) == 1 else tuple(out)
    # the abstract Brownian motion answers every kind of query, so it presents itself as one that carries Levy areas
    return Obj("bm", call_hook=call, attrs={"levy_area_approximation": "foster"})


class StepHooks(Hooks):
    """Shape-only tensor operations are the identity; `g.dim()` is decided by the scenario."""

    def __init__(self, g_ndim=2, grad_mode=True):
        self.g_ndim = g_ndim
        self.grad_mode = grad_mode

    def external_call(self, interp, dotted, args, kwargs, node, fi):
        if dotted == "torch.is_grad_enabled":
            return self.grad_mode
        if dotted == "torch.cat" and args and isinstance(args[0], (list, tuple)) and all(isinstance(p, Rat) for p in args[0]):
            dim = kwargs.get("dim", args[1] if len(args) > 1 else Fraction(0))
            if dim == 0:
                return Cat("rows", list(args[0]), 0)     # blocks of rows stacked along the batch axis
        return NotImplemented

    def tensor_method(self, interp, recv, name, args, kwargs, node, fi):
        if isinstance(recv, Cat) and recv.kind == "rows":
            # splitting a stack back into the blocks it was made of; any other re-batching cannot be decided on whole-tensor
            # formulas (R20.3 decides it entry by entry)
            dim = kwargs.get("dim", args[1] if len(args) > 1 else Fraction(0))
            if name == "chunk" and args and int(args[0]) == len(recv.parts) and dim == 0:
                return tuple(recv.parts)
            if name in ("unbind", "unflatten", "reshape", "view", "split", "chunk", "flatten"):
                raise AnalysisError(f"`.{name}` on tensors stacked along the batch axis: which rows end up together is not "
                                    f"decidable on whole-tensor formulas (rule R20.3 of C20 decides it entry by entry)")
        if name == "dim":
            return Fraction(self.g_ndim)
        return NotImplemented



def literal_slots(model, cls):
    """Slots the constructors of `cls` (and its bases) initialise to a literal -- a cache that starts as None, a counter that
    starts at 0.  The abstract solver objects are not built by running the constructors, so those are read off them."""
    out = {}
    for c in model.mro(cls):
        init = c.methods.get("__init__")
        if init is None:
            continue
        for st in init.node.body:
            if isinstance(st, ast.Assign) and len(st.targets) == 1 and isinstance(st.targets[0], ast.Attribute) \
                    and isinstance(st.targets[0].value, ast.Name) and st.targets[0].value.id == "self" \
                    and st.targets[0].attr not in out:
                try:
                    v = ast.literal_eval(st.value)
                except (ValueError, SyntaxError):
                    continue
                if isinstance(v, bool) or v is None or isinstance(v, str):
                    out[st.targets[0].attr] = v
                elif isinstance(v, (int, float)):
                    out[st.targets[0].attr] = nf.frac(v)
                elif isinstance(v, (list, dict, tuple, set)) and not v:
                    out[st.targets[0].attr] = type(v)()
    return out


def solver_obj(model, cls, sde, bm, options=None, extra_attrs=None):
    # every slot BaseSDESolver.__init__ sets; the nominal step size `self.dt` is a symbol of its own, distinct from the
    # length t1 - t0 of the step being taken (a clipped last step or an adaptive trial is shorter than self.dt)
    attrs = {"sde": sde, "bm": bm, "options": options if options is not None else {},
             "dt": nf.sym("self.dt", True), "adaptive": False, "rtol": nf.sym("self.rtol", True),
             "atol": nf.sym("self.atol", True), "dt_min": nf.sym("self.dt_min", True)}
    for k, v in literal_slots(model, cls).items():
        attrs.setdefault(k, v)
    attrs.update(extra_attrs or {})
    obj = Obj(f"solver:{cls.name}", cls=cls, attrs=attrs)
    _constructor_tails(model, cls, obj, sde, bm, attrs["options"])
    return obj


def _constructor_tails(model, cls, obj, sde, bm, options):
    """What a solver class's own constructor does *after* it has called the base constructor (a flag computed from the
    declared noise type and the Brownian motion, say) is evaluated on the abstract object, statement by statement; a
    statement the evaluator cannot follow is left out (the slot is then missing, and a step that reads it says so)."""
    from ..interp import Hooks
    for c in reversed(model.mro(cls)):
        init = c.methods.get("__init__")
        if init is None or c.name == "BaseSDESolver":
            continue
        body = init.node.body
        cut = next((i for i, st in enumerate(body) if isinstance(st, ast.Expr) and isinstance(st.value, ast.Call)
                    and isinstance(st.value.func, ast.Attribute) and st.value.func.attr == "__init__"
                    and "super" in ast.unparse(st.value.func.value)), None)
        if cut is None:
            continue
        tail = [st for st in body[cut + 1:] if isinstance(st, (ast.Assign, ast.AnnAssign, ast.AugAssign))]
        if not tail:
            continue
        it = Interp(model, Hooks())
        env = {"self": obj, "sde": sde, "bm": bm, "options": options, "kwargs": {"bm": bm, "options": options}}
        for name in init.params[1:]:
            env.setdefault(name, options.get(name) if isinstance(options, dict) else None)
        for st in tail:
            try:
                it.exec_stmt(st, env, init)
            except (AnalysisError, SimRaise):
                continue


def symbols():
    t0 = nf.sym("t0", scalar=True)
    h = nf.sym("h", scalar=True)
    y0 = nf.sym("y0")
    return t0, h, t0 + h, y0
