"""C17 -- special noise types agree with their general-noise embedding (DESIGN.md section C17 and 10.7).

Structural part decided here (not the floating-point equality of two runs):
  R17.1  for every solver class that accepts general noise and a special type, the step body evaluated with the *real*
         ForwardSDE wrapper of a user SDE declared special equals the step evaluated under the general declaration
         after the embedding rewrite (diagonal: mat-vec with diag_embed(g) -> element-wise product; scalar / additive:
         identity; Levy-area contribution -> 0), as a polynomial identity in the opaque F, G;
  R17.2  ForwardSDE.prod on index-level symbolic tensors: the product selected for diagonal noise contracts like the
         batched mat-vec with the embedded diagonal matrix; the product selected for scalar / additive / general noise
         is the batched mat-vec itself;
  R17.3  noise-type dependent solver attributes (strong_order, weak_order) are read only by __repr__;
  R17.4  sdeint derives the same default Brownian shape from a special declaration and from its embedding;
  R17.5  BaseSDESolver.integrate around the steps (step requests, carried state, outputs between grid points) evaluated
         with self.sde declared special is the same function of the opaque steps as under the general declaration.
"""
import ast
from fractions import Fraction

from .. import astq, nf
from ..errors import AnalysisError
from ..interp import Interp, SimRaise
from ..model import own_nodes
from ..nf import Rat
from . import solverkit, solvers, steps
from .c02 import FwdHooks, forward_sde_obj

BASE_SDE = "torchsde/_core/base_sde.py"
SDEINT = "torchsde/_core/sdeint.py"
SPECIAL = ("diagonal", "scalar", "additive")

EXPLANATION = (
    "Static only (ast). The embedding of the property is fixed on paper: diagonal noise g (batch, d) is the general "
    "diffusion diag_embed(g) (batch, d, d); scalar noise (batch, d, 1) and additive noise (batch, d, m) are already "
    "general diffusions. R17.1: for each solver class whose class attributes accept general noise and a special type "
    "(computed by evaluating methods.select and the constructors), ForwardSDE(user) is constructed abstractly under "
    "both declarations -- so the repository's own per-noise-type dispatch tables decide which product, which Levy-area "
    "Jacobian and which defaults are used -- and one step from symbolic (t0, y0) is canonicalised; the special form "
    "must equal the general form after rewriting mvp(G, v) -> G * v (diagonal only) and setting the Levy area A to "
    "zero (the property compares log-ODE 'with zero Levy-area contribution where commutative'). R17.2: the two "
    "product implementations are evaluated on small index-level symbolic tensors (batch 2, d 2, m 3 with one symbol "
    "per entry): prod_diagonal(g, v) must equal prod_default(diag_embed(g), v) entry by entry, and prod_default must "
    "be sum_j g[b,i,j] v[b,j]. R17.3: strong_order / weak_order depend on the declared noise type; no function on the "
    "solve path may read them. R17.4: the validation phase of sdeint, evaluated on shape-only tensors with bm=None, "
    "constructs the default BrownianInterval with the same size for a special declaration and for its embedding. "
    "R17.5: every piece of BaseSDESolver.integrate (prologue, stepping loop, output after the loop, epilogue; fixed and "
    "adaptive) is run abstractly with self.sde.noise_type set to each declared type and opaque step / noise / SDE calls; "
    "per case of the loop's own tests the set of outcomes (steps requested, carried state, outputs written, value "
    "returned) must equal the general declaration's, so a driver that branches on the declaration with identical arms "
    "passes and one that interpolates, clips or accepts differently for one declaration is reported. "
    "Not decided: bit-level agreement of the element-wise product with the batched mat-vec in floating point; user "
    "SDEs whose general embedding is not the stated one."
)


def _dom(ctx):
    if not hasattr(ctx, "_dom17"):
        ctx._dom17 = solvers.Domains(ctx.model)
    return ctx._dom17


# ------------------------------------------------------------------------------------------------ R17.1
def step_form(model, dom, sc, nt_value, two_steps=False):
    """(y1, extras) of one step of scenario `sc`, with self.sde the real ForwardSDE of a user SDE declared `nt_value`."""
    t0, h, t1, y0 = solverkit.symbols()
    from .c02 import user_sde_obj
    it = Interp(model, EmbedHooks())
    obj = it.instantiate(model.cls(BASE_SDE, "ForwardSDE"), [user_sde_obj(nt_value, sc.sde_type)], {})
    bm = solverkit.make_bm(solverkit.BMLog())
    so = solverkit.solver_obj(model, sc.cls, obj, bm, dict(sc.options))
    init = model.lookup_method(sc.cls, "init_extra_solver_state")
    try:
        ex = tuple(it.call_function(init, [so, t0, y0], {}))
    except SimRaise:
        ex = ()
    y1, extra1 = it.call_function(sc.step_fi, [so, t0, t1, y0, ex], {})
    extra1 = tuple(extra1) if isinstance(extra1, (tuple, list)) else (extra1,)
    if not two_steps:
        return y1, extra1
    # a second step on the same solver and ForwardSDE objects, from the first step's end: anything the wrapper kept from
    # the first step (a memoised evaluation, a flag) is now in play
    t2 = t1 + nf.sym("h2", True)
    y2, extra2 = it.call_function(sc.step_fi, [so, t1, t2, y1, extra1], {})
    extra2 = tuple(extra2) if isinstance(extra2, (tuple, list)) else (extra2,)
    return y2, extra2


def embed(x, nt, t0, t1):
    """Rewrite a general-declaration form into what the special declaration must produce."""
    def f(a, args):
        if a[0] == "bil" and a[1] == "mvp" and nt == "diagonal":
            return args[0] * args[1]
        if a[0] == "fn" and a[1] == "A":
            return Rat.const(0)
        return None
    return nf.rewrite(x, f)


def r17_1(ctx):
    rep, model = ctx.rep, ctx.model
    dom = _dom(ctx)
    rep.rule("R17.1", "every solver accepting general noise and a special type: step under the special declaration == "
                      "step under the general declaration after the embedding rewrite (real ForwardSDE dispatch tables)")
    general = dom.noise_types.get("general")
    if general is None:
        raise AnalysisError("NOISE_TYPES.general vanished")
    by_cls = {}
    for sc in steps.scenarios(model, dom):
        by_cls.setdefault((sc.cls.key, sc.step_fi.key, tuple(sorted(sc.options.items()))), {})[sc.noise_type] = sc
    n = 0
    t0, h, t1, y0 = solverkit.symbols()
    for key, per_nt in sorted(by_cls.items(), key=lambda kv: repr(kv[0])):
        if general not in per_nt:
            continue
        gsc = per_nt[general]
        rep.analysed(gsc.step_fi)
        try:
            gy, gex = step_form(model, dom, gsc, general)
        except SimRaise as e:
            raise AnalysisError(f"{gsc.label}: step under the general declaration raises {e.exc_name}: {e.message}",
                                where=astq.loc(gsc.step_fi))
        for name in SPECIAL:
            nt = dom.noise_types.get(name)
            if nt is None or nt not in per_nt:
                continue
            sc = per_nt[nt]
            construct = f"{sc.step_fi.key}::R17.1::{sc.cls.name}::{name}"
            try:
                sy, sex = step_form(model, dom, sc, nt)
            except SimRaise as e:
                rep.fail("R17.1", astq.loc(sc.step_fi), construct,
                         f"{sc.label}: the step raises {e.exc_name} under the {name} declaration but not under the general one")
                n += 1
                continue
            want_y = embed(gy, name, t0, t1)
            want_ex = tuple(embed(x, name, t0, t1) if isinstance(x, Rat) else x for x in gex)
            ok = nf.equal(sy, want_y) and len(sex) == len(want_ex) and all(nf.equal(a, b) for a, b in zip(sex, want_ex))
            n += 1
            diff = ""
            if not ok:
                try:
                    diff = str(Rat.lift(sy) - Rat.lift(want_y))[:300]
                except Exception:
                    diff = "(extras differ)"
            rep.check(ok, "R17.1", astq.loc(sc.step_fi), construct,
                      f"{sc.cls.name}: one step of an SDE declared {name} differs from the step of its general-noise "
                      f"embedding under the same Brownian increment; difference in y1: `{diff}`",
                      "special form == embedded general form")
            # two consecutive steps on the same objects
            try:
                gy2, gex2 = step_form(model, dom, gsc, general, two_steps=True)
                sy2, sex2 = step_form(model, dom, sc, nt, two_steps=True)
            except SimRaise as e:
                raise AnalysisError(f"{sc.label}: second step raises {e.exc_name}: {e.message}", where=astq.loc(sc.step_fi))
            t2 = t1 + nf.sym("h2", True)

            def embed2(x):
                return embed(embed(x, name, t0, t1), name, t1, t2)
            ok2 = nf.equal(sy2, embed2(gy2)) and len(sex2) == len(gex2) and \
                all(nf.equal(a, embed2(b) if isinstance(b, Rat) else b) for a, b in zip(sex2, gex2))
            n += 1
            rep.check(ok2, "R17.1", astq.loc(sc.step_fi), construct + "::second-step",
                      f"{sc.cls.name}: the second of two consecutive steps of an SDE declared {name} differs from that of its "
                      f"general-noise embedding (same solver and SDE wrapper objects, same Brownian increments): something kept "
                      f"from the first step -- a memoised evaluation recalled for a merely close time, a flag -- enters the "
                      f"special declaration only", "two steps: special form == embedded general form")
    ctx.floor("R17.1", 24)


# ------------------------------------------------------------------------------------------------ R17.2 index-level products
class ST:
    """Small symbolic tensor: shape tuple of ints and a dict index-tuple -> Rat."""

    def __init__(self, shape, data):
        self.shape, self.data = tuple(shape), data

    @staticmethod
    def symbolic(name, shape):
        import itertools
        return ST(shape, {ix: nf.sym(f"{name}{list(ix)}", True) for ix in itertools.product(*[range(s) for s in shape])})

    def _bin(self, o, op):
        if isinstance(o, ST):
            if o.shape != self.shape:
                # numpy-style broadcasting: shapes aligned on the right, an axis of size 1 (or a missing one) is repeated
                import itertools
                n = max(len(self.shape), len(o.shape))
                sa = (1,) * (n - len(self.shape)) + self.shape
                sb = (1,) * (n - len(o.shape)) + o.shape
                if any(x != y and 1 not in (x, y) for x, y in zip(sa, sb)):
                    raise AnalysisError(f"index-level tensor: shapes {self.shape} and {o.shape} do not broadcast")
                out_shape = tuple(max(x, y) for x, y in zip(sa, sb))
                data = {}
                for ix in itertools.product(*[range(z) for z in out_shape]):
                    ia = tuple(0 if sa[k] == 1 else ix[k] for k in range(n))[n - len(self.shape):]
                    ib = tuple(0 if sb[k] == 1 else ix[k] for k in range(n))[n - len(o.shape):]
                    data[ix] = op(self.data[ia], o.data[ib])
                return ST(out_shape, data)
            return ST(self.shape, {ix: op(v, o.data[ix]) for ix, v in self.data.items()})
        return ST(self.shape, {ix: op(v, Rat.lift(o)) for ix, v in self.data.items()})

    def __mul__(self, o):
        return self._bin(o, lambda a, b: a * b)

    __rmul__ = __mul__

    def __add__(self, o):
        return self._bin(o, lambda a, b: a + b)

    __radd__ = __add__

    def matmul(self, o):
        if not (isinstance(o, ST) and len(self.shape) == 2 and len(o.shape) == 2 and self.shape[1] == o.shape[0]):
            raise AnalysisError(f"index-level product: `@` between shapes {self.shape} and {getattr(o, 'shape', None)} is not modelled")
        out = {}
        for i in range(self.shape[0]):
            for k in range(o.shape[1]):
                acc = Rat.const(0)
                for j in range(self.shape[1]):
                    acc = acc + self.data[(i, j)] * o.data[(j, k)]
                out[(i, k)] = acc
        return ST((self.shape[0], o.shape[1]), out)

    def getitem(self, idx):
        from fractions import Fraction as _F
        if isinstance(idx, _F):
            idx = int(idx)
        if isinstance(idx, int):
            i = idx if idx >= 0 else self.shape[0] + idx
            return ST(self.shape[1:], {ix[1:]: v for ix, v in self.data.items() if ix[0] == i})
        if isinstance(idx, slice):
            idx = (idx,)
        if isinstance(idx, tuple):
            # expand a single Ellipsis; remaining axes are full slices
            items = list(idx)
            if Ellipsis in items:
                k = items.index(Ellipsis)
                items = items[:k] + [slice(None)] * (len(self.shape) - (len(items) - 1)) + items[k + 1:]
            items += [slice(None)] * (len(self.shape) - len(items))
            keep, ranges = [], []
            for ax, it in enumerate(items):
                if isinstance(it, _F):
                    it = int(it)
                if isinstance(it, int):
                    ranges.append([it if it >= 0 else self.shape[ax] + it])
                    keep.append(False)
                elif isinstance(it, slice):
                    lo, hi, st = (None if v is None else int(v) for v in (it.start, it.stop, it.step))
                    ranges.append(list(range(self.shape[ax]))[slice(lo, hi, st)])
                    keep.append(True)
                else:
                    raise AnalysisError(f"index-level tensor: subscript {idx!r} is not modelled")
            shape = tuple(len(r) for r, k in zip(ranges, keep) if k)
            data = {}
            import itertools
            for pos in itertools.product(*[range(len(r)) for r in ranges]):
                src = tuple(r[p] for r, p in zip(ranges, pos))
                dst = tuple(p for p, k in zip(pos, keep) if k)
                data[dst] = self.data[src]
            return ST(shape, data)
        raise AnalysisError(f"index-level product: subscript {idx!r} is not modelled")

    def __sub__(self, o):
        return self._bin(o, lambda a, b: a - b)

    def __len__(self):
        return self.shape[0]

    def rows(self):
        return [self.getitem(i) for i in range(self.shape[0])]

    def sim_binop(self, op, l, r):
        if isinstance(op, ast.MatMult) and isinstance(l, ST):
            return l.matmul(r)
        if isinstance(op, ast.Mult):
            return l * r if isinstance(l, ST) else r * l
        if isinstance(op, ast.Add):
            return l + r if isinstance(l, ST) else r + l
        if isinstance(op, ast.Sub) and isinstance(l, ST):
            return l - r
        if isinstance(op, ast.Sub) and isinstance(r, ST):
            return (r * Rat.const(-1)) + l
        if isinstance(op, ast.Div) and isinstance(l, ST) and not isinstance(r, ST):
            return l._bin(r, lambda a, b: a / b)
        if isinstance(op, ast.Div) and isinstance(l, ST) and isinstance(r, ST):
            return l._bin(r, lambda a, b: a / b)
        if isinstance(op, ast.Pow) and isinstance(l, ST) and not isinstance(r, ST):
            k = Rat.lift(r).const_value()
            if k is not None and k.denominator == 1 and k >= 0:
                return ST(l.shape, {ix: v ** int(k) for ix, v in l.data.items()})
        return NotImplemented

    def sim_unary(self, op):
        if isinstance(op, ast.USub):
            return self * Rat.const(-1)
        return NotImplemented

    def equal(self, o):
        return isinstance(o, ST) and o.shape == self.shape and all(nf.equal(v, o.data[ix]) for ix, v in self.data.items())


def _dim(d, n):
    d = int(d)
    return d if d >= 0 else n + d


def _st_method(x, name, args, kwargs, where):
    n = len(x.shape)
    if name in ("detach", "requires_grad_", "clone", "contiguous", "float", "double"):
        return x                              # value-preserving
    if name == "unsqueeze":
        d = int(args[0] if args else kwargs["dim"])
        d = d if d >= 0 else n + 1 + d
        return ST(x.shape[:d] + (1,) + x.shape[d:], {ix[:d] + (0,) + ix[d:]: v for ix, v in x.data.items()})
    if name == "unflatten":
        d = _dim(args[0] if args else kwargs["dim"], n)
        sizes = [int(z.const_value()) if isinstance(z, Rat) else int(z) for z in (args[1] if len(args) > 1 else kwargs["sizes"])]
        total = x.shape[d]
        if sizes.count(-1) == 1:
            known = 1
            for z in sizes:
                if z != -1:
                    known *= z
            sizes[sizes.index(-1)] = total // known
        prod_ = 1
        for z in sizes:
            prod_ *= z
        if prod_ != total:
            raise AnalysisError(f"index-level tensor: unflatten sizes {sizes} do not multiply to {total}", where=where)
        data = {}
        for ix, v in x.data.items():
            k, sub = ix[d], []
            for z in reversed(sizes):
                sub.append(k % z)
                k //= z
            data[ix[:d] + tuple(reversed(sub)) + ix[d + 1:]] = v
        return ST(x.shape[:d] + tuple(sizes) + x.shape[d + 1:], data)
    if name in ("roll", "flip"):
        if name == "roll":
            sh = int(args[0] if args else kwargs["shifts"])
            d = _dim(args[1] if len(args) > 1 else kwargs.get("dims", 0), n)
            return ST(x.shape, {ix[:d] + ((ix[d] + sh) % x.shape[d],) + ix[d + 1:]: v for ix, v in x.data.items()})
        dims = args[0] if args else kwargs["dims"]
        dims = [_dim(z, n) for z in (dims if isinstance(dims, (tuple, list)) else [dims])]
        return ST(x.shape, {tuple((x.shape[k] - 1 - i) if k in dims else i for k, i in enumerate(ix)): v for ix, v in x.data.items()})
    if name == "unbind":
        d = _dim(args[0] if args else kwargs.get("dim", 0), n)
        return tuple(ST(x.shape[:d] + x.shape[d + 1:], {ix[:d] + ix[d + 1:]: v for ix, v in x.data.items() if ix[d] == i})
                     for i in range(x.shape[d]))
    if name == "chunk":
        k = int(args[0] if args else kwargs["chunks"])
        d = _dim(args[1] if len(args) > 1 else kwargs.get("dim", 0), n)
        if x.shape[d] % k:
            raise AnalysisError("index-level tensor: chunk of an axis that does not divide evenly", where=where)
        sz = x.shape[d] // k
        return tuple(x.getitem(tuple([slice(None)] * d + [slice(i * sz, (i + 1) * sz)])) for i in range(k))
    if name in ("reshape", "view"):
        sizes = list(args[0]) if len(args) == 1 and isinstance(args[0], (tuple, list)) else list(args)
        sizes = [int(z.const_value()) if isinstance(z, Rat) else int(z) for z in sizes]
        import itertools
        total = 1
        for z in x.shape:
            total *= z
        if sizes.count(-1) == 1:
            known = 1
            for z in sizes:
                if z != -1:
                    known *= z
            sizes[sizes.index(-1)] = total // known
        flat = [x.data[ix] for ix in itertools.product(*[range(z) for z in x.shape])]
        out = {}
        for pos, ix in enumerate(itertools.product(*[range(z) for z in sizes])):
            out[ix] = flat[pos]
        if len(out) != len(flat):
            raise AnalysisError(f"index-level tensor: reshape {x.shape} -> {sizes} changes the number of entries", where=where)
        return ST(tuple(sizes), out)
    if name == "squeeze" and not args and "dim" not in kwargs:
        out = x
        for d in reversed(range(n)):
            if x.shape[d] == 1:
                out = _st_method(out, "squeeze", (d,), {}, where)
        return out
    if name == "split":
        sizes = args[0] if args else kwargs["split_size"]
        d = _dim(args[1] if len(args) > 1 else kwargs.get("dim", 0), n)
        sizes = [int(z.const_value()) if isinstance(z, Rat) else int(z) for z in sizes]
        if sum(sizes) != x.shape[d]:
            raise AnalysisError(f"index-level tensor: split sizes {sizes} do not add up to {x.shape[d]}", where=where)
        out, lo = [], 0
        for sz in sizes:
            idx = tuple([slice(None)] * d + [slice(lo, lo + sz)])
            out.append(x.getitem(idx))
            lo += sz
        return tuple(out)
    if name == "squeeze":
        d = _dim(args[0] if args else kwargs["dim"], n)
        if x.shape[d] != 1:
            return x
        return ST(x.shape[:d] + x.shape[d + 1:], {ix[:d] + ix[d + 1:]: v for ix, v in x.data.items()})
    if name in ("t", "T") and n == 2 and not args:
        args = (0, 1)
        name = "transpose"
    if name in ("transpose",):
        i, j = _dim(args[0], n), _dim(args[1], n)

        def sw(t):
            t = list(t)
            t[i], t[j] = t[j], t[i]
            return tuple(t)
        return ST(sw(x.shape), {sw(ix): v for ix, v in x.data.items()})
    if name in ("contiguous", "clone"):
        return x
    if name == "sum":
        d = _dim(args[0] if args else kwargs.get("dim"), n)
        out = {}
        for ix, v in x.data.items():
            k = ix[:d] + ix[d + 1:]
            out[k] = out.get(k, Rat.const(0)) + v
        return ST(x.shape[:d] + x.shape[d + 1:], out)
    raise AnalysisError(f"index-level product: tensor method `.{name}` has no modelled index semantics", where=where)


def _bmm(a, b, where):
    if not (isinstance(a, ST) and isinstance(b, ST) and len(a.shape) == 3 and len(b.shape) == 3
            and a.shape[0] == b.shape[0] and a.shape[2] == b.shape[1]):
        raise AnalysisError("index-level product: torch.bmm on operands that are not (B,n,k) x (B,k,p)", where=where)
    out = {}
    for bi in range(a.shape[0]):
        for i in range(a.shape[1]):
            for p in range(b.shape[2]):
                s = Rat.const(0)
                for k in range(a.shape[2]):
                    s = s + a.data[(bi, i, k)] * b.data[(bi, k, p)]
                out[(bi, i, p)] = s
    return ST((a.shape[0], a.shape[1], b.shape[2]), out)


class _STBound:
    def __init__(self, x, name):
        self.x, self.name = x, name


class IndexHooks(FwdHooks):
    def external_call(self, interp, dotted, args, kwargs, node, fi):
        if dotted == "torch.is_grad_enabled":
            return getattr(self, "grad_mode", True)
        if dotted in ("torch.bmm", "torch.matmul"):
            return _bmm(args[0], args[1], astq.loc(fi, node))
        if dotted == "torch.einsum":
            raise AnalysisError("index-level product: torch.einsum is not modelled", where=astq.loc(fi, node))
        if dotted == "torch.cat" and args and all(isinstance(p, ST) for p in args[0]):
            parts = list(args[0])
            n = len(parts[0].shape)
            d = _dim(kwargs.get("dim", args[1] if len(args) > 1 else 0), n)
            data, lo = {}, 0
            for p in parts:
                if p.shape[:d] + p.shape[d + 1:] != parts[0].shape[:d] + parts[0].shape[d + 1:]:
                    raise AnalysisError("index-level tensor: torch.cat of incompatible shapes", where=astq.loc(fi, node))
                for ix, v in p.data.items():
                    data[ix[:d] + (ix[d] + lo,) + ix[d + 1:]] = v
                lo += p.shape[d]
            return ST(parts[0].shape[:d] + (lo,) + parts[0].shape[d + 1:], data)
        if dotted == "torch.stack" and args and isinstance(args[0], (list, tuple)) and not list(args[0]):
            from ..interp import SimRaise
            raise SimRaise("RuntimeError", "stack expects a non-empty TensorList", node, fi)
        if dotted == "torch.stack" and args and all(isinstance(p, ST) for p in args[0]):
            parts = list(args[0])
            d = int(kwargs.get("dim", args[1] if len(args) > 1 else 0))
            if d != 0 or any(p.shape != parts[0].shape for p in parts):
                raise AnalysisError("index-level tensor: torch.stack other than equal shapes on dim 0", where=astq.loc(fi, node))
            data = {}
            for k, p in enumerate(parts):
                for ix, v in p.data.items():
                    data[(k,) + ix] = v
            return ST((len(parts),) + parts[0].shape, data)
        return super().external_call(interp, dotted, args, kwargs, node, fi)

    def on_call(self, interp, callee, args, kwargs, node, fi):
        return NotImplemented            # batch_mvp is evaluated from its own body here

    def subscript(self, interp, recv, index, node, fi):
        if isinstance(recv, ST):
            return recv.getitem(index)
        return NotImplemented


class EmbedHooks(FwdHooks):
    """FwdHooks + the general-noise Levy-area Jacobian as an opaque map linear in the Levy area."""

    def on_call(self, interp, callee, args, kwargs, node, fi):
        from ..interp import BoundMethod
        cfi = getattr(callee, "fi", None)
        if cfi is not None and cfi.name.startswith("dg_ga_jvp_column_sum_v") and cfi.module.relpath == BASE_SDE:
            a = list(args)
            if isinstance(callee, BoundMethod) or len(a) == 3:
                t, y, aa = a[-3:]
                return nf.linear("DGGA", (Rat.lift(t).key(), Rat.lift(y).key()), Rat.lift(aa))
        return super().on_call(interp, callee, args, kwargs, node, fi)

    # a comparison "up to a tolerance" of two times that are not identical can come out true (times closer than the
    # tolerance -- for isclose's default 1e-5 |t| that is every step once |t| / dt > 1e5): the adversarial outcome is
    # taken, so a value recalled for a merely *close* time is seen for what it is -- a value at another time
    def external_call(self, interp, dotted, args, kwargs, node, fi):
        if dotted in ("torch.isclose", "torch.allclose", "math.isclose") and len(args) >= 2:
            return True
        if dotted in ("torch.as_tensor", "torch.tensor") and args:
            return args[0]
        return super().external_call(interp, dotted, args, kwargs, node, fi)

    def tensor_method(self, interp, recv, name, args, kwargs, node, fi):
        if name in ("to", "detach", "clone", "contiguous"):
            return recv
        if name == "size" and args:
            return nf.sym(f"size{int(args[0])}", True)
        r = super().tensor_method(interp, recv, name, args, kwargs, node, fi)
        return r


def _index_interp(model):
    it = Interp(model, IndexHooks())
    orig_getattr, orig_call = it.getattr, it.call

    def getattr_(base, name, node=None, f2=None, default=NotImplemented):
        if isinstance(base, ST):
            if name == "shape":
                return tuple(Fraction(s) for s in base.shape)
            if name == "requires_grad":
                return False                  # a plain tensor: code that re-roots it at a fresh leaf takes that branch
            return _STBound(base, name)
        return orig_getattr(base, name, node, f2, default)

    def call_(callee, args, kwargs, node=None, f2=None):
        if isinstance(callee, _STBound):
            if callee.name in ("size", "dim"):
                if callee.name == "dim":
                    return Fraction(len(callee.x.shape))
                sh = tuple(Fraction(s) for s in callee.x.shape)
                return sh if not args else sh[_dim(args[0], len(sh))]
            return _st_method(callee.x, callee.name, args, kwargs, astq.loc(f2, node) if f2 else "")
        return orig_call(callee, args, kwargs, node, f2)
    it.getattr, it.call = getattr_, call_
    orig_iterate = it.iterate

    def iterate_(x, node=None, f2=None):
        if isinstance(x, ST):
            return x.rows()
        return orig_iterate(x, node, f2)
    it.iterate = iterate_
    return it


def prod_on_index_tensors(model, nt_value, g, v):
    from .c02 import user_sde_obj
    it = _index_interp(model)
    fwd = model.cls(BASE_SDE, "ForwardSDE")
    obj = it.instantiate(fwd, [user_sde_obj(nt_value)], {})
    slot = it.getattr(obj, "prod")
    fi = getattr(slot, "fi", None)
    return it.call(slot, [g, v], {}), fi


def r17_2(ctx):
    rep, model = ctx.rep, ctx.model
    dom = _dom(ctx)
    rep.rule("R17.2", "ForwardSDE.prod per noise type on index-level symbolic tensors: diagonal == mat-vec with the embedded "
                      "diagonal matrix; scalar / additive / general == sum_j g[b,i,j] v[b,j]")
    fwd = model.cls(BASE_SDE, "ForwardSDE")
    B, D, M = 2, 2, 3
    n = 0
    for name, m in (("diagonal", D), ("scalar", 1), ("additive", M), ("additive", D), ("general", M), ("general", D)):
        nt = dom.noise_types.get(name)
        if nt is None:
            raise AnalysisError(f"NOISE_TYPES.{name} vanished")
        if name == "diagonal":
            g, v = ST.symbolic("g", (B, D)), ST.symbolic("v", (B, D))
            want = ST((B, D), {(b, i): g.data[(b, i)] * v.data[(b, i)] for b in range(B) for i in range(D)})
        else:
            g, v = ST.symbolic("g", (B, D, m)), ST.symbolic("v", (B, m))
            want = ST((B, D), {(b, i): sum((g.data[(b, i, j)] * v.data[(b, j)] for j in range(m)), Rat.const(0))
                               for b in range(B) for i in range(D)})
        construct = f"{fwd.key}::R17.2::prod::{name}::m={m}"
        try:
            got, fi = prod_on_index_tensors(model, nt, g, v)
        except SimRaise as e:
            rep.fail("R17.2", astq.loc(fwd.methods["__init__"]), construct, f"prod for {name} noise raises {e.exc_name}: {e.message}")
            n += 1
            continue
        if fi is not None:
            rep.analysed(fi)
        n += 1
        ok = isinstance(got, ST) and got.equal(want)
        shown = ""
        if isinstance(got, ST) and not ok:
            ix = next((k for k in want.data if k not in got.data or not nf.equal(got.data[k], want.data[k])), None)
            shown = f"shape {got.shape}; entry {ix}: got `{got.data.get(ix)}`, embedding gives `{want.data.get(ix)}`"
        elif not ok:
            shown = f"got `{got!r}`"
        rep.check(ok, "R17.2", astq.loc(fi) if fi else astq.loc(fwd.methods["__init__"]), construct,
                  f"the diffusion-vector product selected for {name} noise is not the product of the general embedding "
                  f"(sum_j G[b,i,j] v[b,j] with G = diag_embed(g) for diagonal noise): {shown}",
                  "equals the embedded batched mat-vec entry by entry")
    ctx.floor("R17.2", 6)


# ------------------------------------------------------------------------------------------------ R17.3
NOISE_DEPENDENT_ATTRS = ("strong_order", "weak_order")


def _display_only(fi, node):
    """The read sits inside an f-string, a raise statement, or the arguments of warnings.warn / logging / print."""
    parents = astq.parents_of(fi.node) if hasattr(astq, "parents_of") else None
    if parents is None:
        parents = {}
        for p in ast.walk(fi.node):
            for c in ast.iter_child_nodes(p):
                parents[c] = p
    cur = node
    while cur in parents:
        cur = parents[cur]
        if isinstance(cur, (ast.JoinedStr, ast.Raise)):
            return True
        if isinstance(cur, ast.Call):
            d = astq.dotted(cur.func) or ""
            if d in ("print", "warnings.warn") or d.startswith("logging.") or d.startswith("logger."):
                return True
        if isinstance(cur, ast.stmt):
            return False
    return False


def r17_3(ctx):
    rep, model = ctx.rep, ctx.model
    rep.rule("R17.3", "attributes that depend on the declared noise type (strong_order, weak_order) are read only for display "
                      "(f-strings, messages, __repr__), never by a function reachable from sdeint / sdeint_adjoint")
    cg = ctx.callgraph()
    roots = [model.func(SDEINT, "sdeint")]
    adj = model.module("torchsde/_core/adjoint.py")
    for name in ("sdeint_adjoint",):
        if name in adj.functions:
            roots.append(adj.functions[name])
    for cls in adj.classes.values():
        for m in ("forward", "backward"):
            if m in cls.methods:
                roots.append(cls.methods[m])
    reach = {f.key for f in cg.reachable(roots, kinds=("direct", "byname", "slot", "callback", "implicit", "property",
                                                       "gen-create", "trampoline", "delegation", "autograd"))}
    n_defs, n_reads = 0, 0
    for fi in model.functions.values():
        if not fi.module.relpath.startswith("torchsde/"):
            continue
        for node in own_nodes(fi.node):
            if isinstance(node, ast.Attribute) and node.attr in NOISE_DEPENDENT_ATTRS:
                if isinstance(node.ctx, ast.Store):
                    n_defs += 1
                    continue
                n_reads += 1
                ok = fi.name in ("__repr__", "__str__") or _display_only(fi, node) or fi.key not in reach
                rep.check(ok, "R17.3", astq.loc(fi, node), f"{fi.key}::R17.3::{node.attr}",
                          f"`{astq.dotted(node) or node.attr}` is read in {fi.qualname}, which is reachable from sdeint: its value "
                          f"differs between a special declaration and its general embedding, so anything computed from it on "
                          f"the solve path does too", "read only for display")
    for mod in model.modules.values():
        for cls in mod.classes.values():
            n_defs += sum(1 for k in cls.attrs if k in NOISE_DEPENDENT_ATTRS)
    if n_defs < 10:
        raise AnalysisError(f"only {n_defs} definitions of strong_order / weak_order found; the solver attribute table changed")
    rep.note(f"R17.3: {n_defs} definitions and {n_reads} reads of strong_order / weak_order inspected")
    ctx.floor("R17.3", 1)


# ------------------------------------------------------------------------------------------------ R17.4
def r17_4(ctx):
    from . import c19
    rep, model = ctx.rep, ctx.model
    rep.rule("R17.4", "sdeint's validation phase builds the same default Brownian shape for a special declaration and for "
                      "its general embedding")
    cc = model.func(SDEINT, "check_contract")
    rep.analysed(cc)
    Bn, D, M = 4, 3, 2
    cases = [
        ("diagonal", dict(noise="diagonal", g_shape=(Bn, D)), dict(noise="general", g_shape=(Bn, D, D))),
        ("scalar", dict(noise="scalar", g_shape=(Bn, D, 1)), dict(noise="general", g_shape=(Bn, D, 1))),
        ("additive", dict(noise="additive", g_shape=(Bn, D, M)), dict(noise="general", g_shape=(Bn, D, M))),
    ]
    for name, sp, ge in cases:
        sizes = []
        for decl in (sp, ge):
            sde = c19.make_user_sde(decl["noise"], g_shape=decl["g_shape"])
            r = c19.eval_check_contract(model, sde=sde, bm=None, method="euler")
            if r[0] != "ok":
                sizes.append(("raise",) + tuple(r[1:]))
                continue
            hooks = r[2]
            if len(hooks.default_bm) != 1:
                raise AnalysisError("sdeint with bm=None does not construct exactly one BrownianInterval", where=astq.loc(cc))
            sizes.append(tuple(hooks.default_bm[0].get("size") or ()))
        construct = f"{cc.key}::R17.4::{name}"
        if sizes[1] and sizes[1][0] == "raise":
            raise AnalysisError(f"general embedding of {name} noise is rejected: {sizes[1]}", where=astq.loc(cc))
        rep.check(sizes[0] == sizes[1], "R17.4", astq.loc(cc), construct,
                  f"default Brownian motion for an SDE declared {name} has size {sizes[0]}, for its general embedding "
                  f"{sizes[1]}: the two declarations are not driven by the same path",
                  "same size")
    ctx.floor("R17.4", 3)


# ------------------------------------------------------------------------------------------------ R17.5
def _driver_summary(model, dom, nt_value):
    """Everything `integrate` does around the steps, with `self.sde` declared `nt_value`: per piece of the loop and per
    path through it, the steps requested, the carried state and the outputs written (opaque step / noise / SDE calls)."""
    from . import integrate_kit as ik
    from ..interp import Intrinsic, Obj

    sde_attrs = {"noise_type": nt_value, "sde_type": dom.sde_types.get("ito")}
    for m in ik.SDE_METHODS:
        sde_attrs[m] = ik.opaque_call("SDE." + m)
    attrs = {"sde": Obj("sde", attrs=sde_attrs)}
    fi, prologue, for_node, while_node, tail, epilogue = ik.loop_structure(model)
    out = {}
    for adaptive in (False, True):
        for piece, stmts in (("prologue", prologue), ("stepping loop", while_node.body), ("after the stepping loop", tail),
                             ("epilogue", epilogue)):
            if not stmts:
                continue
            for p in ik.enumerate_paths(model, adaptive, list(stmts), self_attrs=dict(attrs)):
                env = p.env
                ys = env.get("ys")
                summary = {
                    "steps": [repr(x[:4]) for x in p.steps],
                    "raises": [f"{e.exc_name}" for e in p.errors],
                    "outputs": repr(ik.output_writes(ys)) if ys is not None else None,
                    "calls": {k: len(v) for k, v in p.extras.items()},
                    "returned": repr(env.get("@return")),
                }
                for name in ik.CARRIED:
                    summary[name] = repr(env.get(name))
                # decisions on the declared noise type itself are not part of the case split being compared: a branch on
                # it whose two arms do the same thing is the same driver
                label = " & ".join(f"{'' if d else 'not '}({t})" for t, d in p.decisions if "noise_type" not in t) \
                    or "<straight line>"
                out.setdefault((adaptive, piece, label), set()).add(tuple(sorted(
                    (k, repr(v)) for k, v in summary.items())))
    return fi, out


def r17_5(ctx):
    rep, model = ctx.rep, ctx.model
    dom = _dom(ctx)
    rep.rule("R17.5", "the solver-independent driver (BaseSDESolver.integrate around the steps: step requests, carried "
                      "state, interpolated outputs) is the same function of the steps under a special declaration and "
                      "under the general one")
    ref_fi, ref = _driver_summary(model, dom, dom.noise_types["general"])
    rep.analysed(ref_fi)
    n = 0
    for name in SPECIAL:
        _, got = _driver_summary(model, dom, dom.noise_types[name])
        for key in sorted(set(ref) | set(got), key=repr):
            adaptive, piece, label = key
            a, b = got.get(key), ref.get(key)
            n += 1
            construct = f"{ref_fi.key}::R17.5::{name}::{'adaptive' if adaptive else 'fixed'}::{piece}::{label}"
            if a is None or b is None:
                rep.fail("R17.5", astq.loc(ref_fi), construct,
                         f"{piece} of integrate ({'adaptive' if adaptive else 'fixed'} steps): the case `{label}` is "
                         f"distinguished only under the {'general' if a is None else name} declaration")
                continue
            shown = ""
            if a != b:
                only = sorted(a - b) or sorted(b - a)
                other = dict(sorted(b)[0]) if b else {}
                mine = dict(only[0])
                k = next((k for k in mine if mine[k] != other.get(k)), None)
                shown = f"{k} = `{mine.get(k)}` against `{other.get(k)}`"
            rep.check(a == b, "R17.5", astq.loc(ref_fi), construct,
                      f"{piece} of integrate ({'adaptive' if adaptive else 'fixed'} steps, case `{label}`): what happens "
                      f"around the steps differs between the {name} declaration and the general embedding ({shown}): "
                      f"the driver reads the declared noise type", "same step requests, carried state and outputs")
    ctx.floor("R17.5", 9)


def run(ctx):
    ctx.guard(r17_1)
    ctx.guard(r17_2)
    ctx.guard(r17_3)
    ctx.guard(r17_4)
    ctx.guard(r17_5)


_run_before_r19_5 = run


def run(ctx):
    _run_before_r19_5(ctx)
    # both declarations are solved by the same solver: the method the validation phase selects is the caller's (or the documented
    # default), whatever the declared noise type and the Brownian motion supplied (rule of C19)
    from . import c19
    ctx.guard(c19.r19_5)
