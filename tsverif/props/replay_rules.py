"""Rules decided by small-model replay of the real Brownian tree (see replay.py): R05.8, R03.9, R04.10, R06.10."""
from fractions import Fraction

from .. import astq, nf
from ..errors import AnalysisError
from ..interp import SimRaise
from ..nf import Rat
from . import replay as rp

F = Fraction
BI = rp.BI

# query histories on [0, 1] (exact rationals)
FIXED_SWEEP = [(F(k, 8), F(k + 1, 8)) for k in range(8)]
HIST_FWD_BWD = FIXED_SWEEP + list(reversed(FIXED_SWEEP))
HIST_ADAPTIVE = [(F(0), F(1, 2)), (F(0), F(1, 4)), (F(1, 4), F(1, 2)), (F(0), F(1, 4)), (F(0), F(1, 8)), (F(1, 8), F(1, 4)),
                 (F(1, 4), F(5, 8)), (F(1, 4), F(7, 16)), (F(7, 16), F(5, 8)), (F(5, 8), F(1))]
HIST_ODD = [(F(3, 10), F(7, 10)), (F(1, 3), F(2, 3)), (F(0), F(1, 3)), (F(2, 3), F(1)), (F(1, 10), F(9, 10))]
# the dyadic-descent pattern of the round-6 C05 seed: a whole dyadic left half, then a short step off its end
HIST_HALF_THEN_STEP = [(F(0), F(1, 2)), (F(1, 2), F(3, 5)), (F(1, 4), F(1, 2)), (F(1, 2), F(11, 20))]
PROBES = [(F(1, 4), F(1, 2)), (F(1, 4), F(5, 8)), (F(0), F(1)), (F(3, 10), F(7, 10)), (F(1, 8), F(1, 4)), (F(1, 3), F(2, 3)),
          (F(1, 2), F(3, 5)), (F(1, 2), F(1, 2))]


def light():
    import os
    return os.environ.get("TSVERIF_REPLAY") == "light"


def skipped(ctx, rule, call):
    """Variant self-tests of edits outside torchsde/_brownian: the replay reads that package only."""
    import os
    if os.environ.get("TSVERIF_REPLAY") != "skip":
        return False
    ctx.rep.ok(rule, astq.loc(call), f"{call.key}::{rule}::not-replayed", "edit outside the Brownian package: base verdict applies")
    ctx.floor(rule, 1)
    return True


def configs(tier, levy=("space-time",)):
    out = []
    if light():
        return [rp.Config(cache_size=F(1), levy=levy[0]), rp.Config(tol=F(1, 1000), halfway=True, levy=levy[0])]
    if tier == "quick":
        for lv in levy:
            out += [rp.Config(levy=lv), rp.Config(cache_size=F(0), levy=lv), rp.Config(dt=F(1, 8), cache_size=F(1), levy=lv),
                    rp.Config(tol=F(1, 1000), halfway=True, levy=lv)]
        return out
    for lv in levy:
        for c in (F(0), F(1), F(2), F(3), F(4), F(45), None):
            out.append(rp.Config(cache_size=c, levy=lv))
        out.append(rp.Config(dt=F(1, 8), levy=lv))
        out.append(rp.Config(dt=F(1, 8), cache_size=F(0), levy=lv))
        out.append(rp.Config(dt=F(1, 8), cache_size=F(1), levy=lv))
        out.append(rp.Config(tol=F(1, 1000), halfway=True, levy=lv))
        out.append(rp.Config(tol=F(1, 1000), halfway=True, cache_size=F(0), levy=lv))
        out.append(rp.Config(tol=F(1, 1000), levy=lv))
        out.append(rp.Config(dt=F(1, 64), cache_size=F(2), levy=lv))
        out.append(rp.Config(t0=F(-1, 2), t1=F(3, 2), levy=lv))
    out.append(rp.Config(levy="none"))
    out.append(rp.Config(levy="none", cache_size=F(0)))
    return out


def on_grid(cfg, qs):
    """With a tolerance the property speaks of resolved times: the queries are moved onto the tolerance grid."""
    if not cfg.tol:
        return list(qs)
    import math
    nd = math.ceil(-math.log10(cfg.tol))
    return [tuple(F(round(x, nd)) for x in q) for q in qs]


def _call_fi(model):
    return model.func(BI, "BrownianInterval.__call__")


_POOL_MODEL = None


def _pool_entry(args):
    fn_name, tier, cfg = args
    try:
        return ("ok", globals()[fn_name](_POOL_MODEL, tier, cfg))
    except AnalysisError as e:
        return ("analysis-error", str(e))


def per_config(model, tier, fn_name, cfgs):
    """[(cfg, [(ok, construct suffix, message if it fails, what holds)])], the configurations evaluated in parallel (every
    configuration is an independent replay; the forked workers share the loaded repository model)."""
    global _POOL_MODEL
    import multiprocessing
    import os
    _POOL_MODEL = model
    jobs = [(fn_name, tier, c) for c in cfgs]
    # serial unless asked otherwise: on the build machine's VM, allocation-heavy workers running side by side spend more
    # time in page faults than they gain
    n = min(len(jobs), int(os.environ.get("TSVERIF_REPLAY_JOBS", "1")))
    if n <= 1:
        res = [_pool_entry(j) for j in jobs]
    else:
        with multiprocessing.get_context("fork").Pool(n) as pool:
            res = pool.map(_pool_entry, jobs, chunksize=1)
    out = []
    for c, (kind, r) in zip(cfgs, res):
        if kind != "ok":
            raise AnalysisError(f"replay of BrownianInterval({c.label()}): {r}")
        out.append((c, r))
    return out


def _report(ctx, rule, call, results):
    for cfg, items in results:
        for ok, suffix, msg, holds in items:
            ctx.rep.check(ok, rule, astq.loc(call), f"{call.key}::{rule}::{cfg.label()}{suffix}", msg, holds)


def _run(model, cfg, queries, return_U, return_A=False):
    try:
        return rp.replay(model, cfg, queries, return_U=return_U, return_A=return_A)
    except SimRaise as e:
        return e, None, None


# ------------------------------------------------------------------------------------------------ R05.8
HISTORIES = [("fresh object", []), ("forward-then-backward sweep", HIST_FWD_BWD), ("adaptive-looking history", HIST_ADAPTIVE),
             ("odd query points", HIST_ODD), ("dyadic half, then a short step", HIST_HALF_THEN_STEP)]


def _cfg_r05_8(model, tier, cfg):
    """Per history, on a fresh object: the history, the probes, the history again backwards, the probes again; every
    interval that is asked more than once must get one and the same answer every time."""
    use_U = cfg.levy != "none"
    res = []
    probes = PROBES if tier != "quick" else PROBES[:4] + PROBES[6:]
    for hname, h in (HISTORIES[1:] if tier != "quick" else HISTORIES[2:] if not light() else HISTORIES[2:3] + HISTORIES[4:]):
        queries = on_grid(cfg, list(h) + list(probes) + list(reversed(h)) + list(probes))
        out, me, s = _run(model, cfg, queries, use_U)
        if isinstance(out, SimRaise):
            res.append((False, f"::{hname}", f"BrownianInterval({cfg.label()}): a query of the replayed history raises "
                                             f"{out.exc_name}: {out.message}", ""))
            continue
        first, bad = {}, []
        for k, (q, o) in enumerate(zip(queries, out)):
            if q not in first:
                first[q] = (k, o)
            elif not rp.same(first[q][1], o):
                bad.append((q, first[q][0], k, first[q][1], o))
        shown = ""
        if bad:
            q, k0, k1, x, y = bad[0]
            x0 = x[0] if isinstance(x, tuple) else x
            y0 = y[0] if isinstance(y, tuple) else y
            shown = (f"[{q[0]}, {q[1]}] was `{str(x0)[:150]}` as query no. {k0 + 1} and is `{str(y0)[:150]}` as query no. "
                     f"{k1 + 1} ({len(bad)} repeated queries differ)")
        res.append((not bad, f"::{hname}",
                    f"BrownianInterval({cfg.label()}), fresh object, {hname}, then probes, then the history backwards, then "
                    f"the probes again: {shown}: the same interval does not return the same value again",
                    "every repeated query returns its first answer"))
    return res


def r05_8(ctx):
    """Asking for the same interval again returns the same random variable, whatever was asked in between: the probes are
    asked on a fresh object, after a forward-then-backward sweep, after an adaptive-looking history with rejected trials,
    after odd query points and after the dyadic half-then-step pattern; cache sizes 0 / 1 / ... / unbounded, with and
    without a dt hint, plain and dyadic tree."""
    rep, model = ctx.rep, ctx.model
    rep.rule("R05.8", "replay of the real tree on exact rationals with symbolic noise: every interval asked more than once in "
                      "(history, probes, history backwards, probes) returns its first answer, for four histories and every "
                      "cache size, dt hint and tree mode")
    call = _call_fi(model)
    rep.analysed(call)
    if skipped(ctx, "R05.8", call):
        return
    cfgs = configs(ctx.tier) + ([rp.Config(levy="none")] if ctx.tier == "quick" else [])
    _report(ctx, "R05.8", call, per_config(model, ctx.tier, "_cfg_r05_8", cfgs))
    ctx.floor("R05.8", 4 if light() else 12)


# ------------------------------------------------------------------------------------------------ R03.9
TRIPLES = [(F(0), F(1, 4), F(1)), (F(1, 4), F(1, 2), F(5, 8)), (F(1, 8), F(3, 10), F(7, 10)), (F(1, 3), F(1, 2), F(2, 3)),
           (F(0), F(1, 2), F(3, 5)), (F(1, 10), F(1, 3), F(9, 10))]


def _cfg_r03_9(model, tier, cfg):
    use_U = cfg.levy != "none"
    res = []
    for hname, h in (("fresh object", []), ("a forward-then-backward sweep", HIST_FWD_BWD),
                     ("an adaptive-looking history", HIST_ADAPTIVE + HIST_HALF_THEN_STEP))[0 if tier != "quick" else 1:]:
        queries = list(h)
        at = len(queries)
        triples = [tuple(on_grid(cfg, [tr])[0]) for tr in TRIPLES]
        for i, (s_, u, t) in enumerate(triples):
            order = [(s_, t), (s_, u), (u, t)]
            order = order[i % 3:] + order[:i % 3]          # the whole interval first, in the middle, or last
            queries += order
        queries = on_grid(cfg, queries)
        out, me, ses = _run(model, cfg, queries, use_U)
        if isinstance(out, SimRaise):
            res.append((False, f"::after {hname}", f"BrownianInterval({cfg.label()}): a query raises {out.exc_name}: "
                                                   f"{out.message}", ""))
            continue
        ans = {}
        for q, o in zip(queries[at:], out[at:]):
            ans[q] = o
        for s_, u, t in triples:
            def WU(q):
                o = ans[q]
                return (o[0], o[1]) if isinstance(o, tuple) else (o, None)
            (W, U), (W1, U1), (W2, U2) = WU((s_, t)), WU((s_, u)), WU((u, t))
            ok = nf.equal(Rat.lift(W), Rat.lift(W1) + Rat.lift(W2))
            what = "W(s,t) != W(s,u) + W(u,t)"
            if ok and use_U:
                ok = nf.equal(Rat.lift(U), Rat.lift(U1) + Rat.lift(U2) + (t - u) * Rat.lift(W1))
                what = "U(s,t) != U(s,u) + U(u,t) + (t-u) W(s,u)"
            res.append((ok, f"::after {hname}::({s_},{u},{t})",
                        f"BrownianInterval({cfg.label()}), after {hname}, s={s_}, u={u}, t={t}: {what}", "Chen's relation"))
        # a zero-length query returns zeros and changes nothing
        z, _, _ = _run(model, cfg, queries[:at] + [(triples[1][1], triples[1][1])], use_U)
        zero = not isinstance(z, SimRaise) and all(nf.equal(Rat.lift(x), Rat.const(0))
                                                  for x in (z[-1] if isinstance(z[-1], tuple) else (z[-1],)))
        res.append((zero, f"::after {hname}::zero-length", f"BrownianInterval({cfg.label()}), after {hname}: a zero-length query "
                    f"does not return zeros", "zeros"))
    return res


def r03_9(ctx):
    """W(s,t) = W(s,u) + W(u,t) and U(s,t) = U(s,u) + U(u,t) + (t-u) W(s,u) as identities of random variables, for triples
    asked in every order after each history, and a zero-length query returns zero."""
    rep, model = ctx.rep, ctx.model
    rep.rule("R03.9", "replay: increments are additive and U obeys Chen's relation over triples s < u < t asked after arbitrary "
                      "histories, in any order, for every cache size, dt hint and tree mode")
    call = _call_fi(model)
    rep.analysed(call)
    if skipped(ctx, "R03.9", call):
        return
    cfgs = configs(ctx.tier) + ([rp.Config(levy="none")] if ctx.tier == "quick" else [])
    _report(ctx, "R03.9", call, per_config(model, ctx.tier, "_cfg_r03_9", cfgs))
    ctx.floor("R03.9", 10 if light() else 40)


# ------------------------------------------------------------------------------------------------ R04.10
def _Gp(x, y):
    x, y = max(x, F(0)), max(y, F(0))
    m, M = min(x, y), max(x, y)
    return m * m * M / 2 - m ** 3 / 6


def bm_cov_WW(i, j):
    (s, t), (u, v) = i, j
    return max(F(0), min(t, v) - max(s, u))


def bm_cov_UW(i, j):
    """Cov(U(s,t), W(u,v)) with U(s,t) = int_s^t (W_r - W_s) dr:  int_s^t |[s,r] n [u,v]| dr."""
    (s, t), (u, v) = i, j
    a, b = max(s, u), v
    # |[s,r] n [u,v]| = max(0, min(r, v) - max(s, u)) for r in [s, t]
    def prim(r):            # int_a^r max(0, min(x, b) - a) dx for r >= a
        if r <= a:
            return F(0)
        if b <= a:
            return F(0)
        if r <= b:
            return (r - a) ** 2 / 2
        return (b - a) ** 2 / 2 + (r - b) * (b - a)
    return prim(t) - prim(s)


def bm_cov_UU(i, j):
    """Cov(U(s,t), U(u,v)) = int_s^t int_u^v max(0, min(r,q) - max(s,u)) dq dr."""
    (s, t), (u, v) = i, j
    a = max(s, u)
    return _Gp(t - a, v - a) - _Gp(s - a, v - a) - _Gp(t - a, u - a) + _Gp(s - a, u - a)


LAW_PROBES = [(F(0), F(1)), (F(0), F(1, 4)), (F(1, 4), F(1, 2)), (F(1, 4), F(5, 8)), (F(3, 10), F(7, 10)), (F(1, 3), F(2, 3)),
              (F(5, 8), F(1)), (F(1, 2), F(3, 5))]


def r04_10(ctx):
    """The law itself, from the definition of Brownian motion: after a history of queries the answers (W_i, U_i) for a set
    of overlapping, nested and disjoint intervals are linear forms in independent unit normals whose covariance matrix is
    Cov(W_i, W_j) = |I_i n I_j|,  Cov(U_i, W_j) = int_{I_i} |[s_i, r] n I_j| dr,
    Cov(U_i, U_j) = int int max(0, min(r, q) - max(s_i, s_j)) dq dr     (U(s,t) = int_s^t (W_r - W_s) dr = (t-s)(W/2 + H)),
    all exact rationals.  This contains Var W = t - s, independence over disjoint intervals, H ~ N(0, (t-s)/12)
    independent of W, and every cross-covariance of overlapping intervals."""
    rep, model = ctx.rep, ctx.model
    rep.rule("R04.10", "replay: the joint covariance of (W, U) over overlapping, nested and disjoint intervals, after arbitrary "
                       "histories, is exactly that of Brownian motion and its time integral (reference from the definition)")
    call = _call_fi(model)
    rep.analysed(call)
    if skipped(ctx, "R04.10", call):
        return
    cfgs = [c for c in configs(ctx.tier) if c.levy != "none"]
    if ctx.tier == "quick":
        cfgs = [c for c in cfgs if c.dt is None]
    law_probes = LAW_PROBES if ctx.tier != "quick" else LAW_PROBES[:1] + LAW_PROBES[2:6]
    n = 0
    for cfg in cfgs:
        for hname, h in (("fresh object", []), ("an adaptive-looking history", HIST_ADAPTIVE + HIST_ODD))[0 if ctx.tier != "quick" else 1:]:
            probes = on_grid(cfg, law_probes)
            queries = on_grid(cfg, h) + probes
            out, me, ses = _run(model, cfg, queries, True)
            construct0 = f"{call.key}::R04.10::{cfg.label()}::after {hname}"
            if isinstance(out, SimRaise):
                rep.fail("R04.10", astq.loc(call), construct0, f"a query raises {out.exc_name}: {out.message}")
                n += 1
                continue
            ans = out[len(h):]
            WU = [(Rat.lift(o[0]), Rat.lift(o[1])) for o in ans]
            lin = all(rp.is_linear(w) and rp.is_linear(u) for w, u in WU)
            n += 1
            rep.check(lin, "R04.10", astq.loc(call), f"{construct0}::gaussian",
                      "an answer is not a linear form in the unit normals drawn by the tree: the sample is not Gaussian",
                      "linear in independent unit normals")
            if not lin:
                continue
            bad = []
            for i, pi in enumerate(probes):
                for j, pj in enumerate(probes):
                    if j < i:
                        continue
                    checks = [("Cov(W_i, W_j)", rp.cov(WU[i][0], WU[j][0]), bm_cov_WW(pi, pj)),
                              ("Cov(U_i, W_j)", rp.cov(WU[i][1], WU[j][0]), bm_cov_UW(pi, pj)),
                              ("Cov(U_j, W_i)", rp.cov(WU[j][1], WU[i][0]), bm_cov_UW(pj, pi)),
                              ("Cov(U_i, U_j)", rp.cov(WU[i][1], WU[j][1]), bm_cov_UU(pi, pj))]
                    for name, got, want in checks:
                        if not nf.equal(got, Rat.const(want)):
                            bad.append((name, pi, pj, got, want))
            n += 1
            shown = ""
            if bad:
                name, pi, pj, got, want = bad[0]
                shown = (f"{name} for I_i = [{pi[0]}, {pi[1]}], I_j = [{pj[0]}, {pj[1]}] is `{got}`; Brownian motion has {want} "
                         f"({len(bad)} of {4 * len(probes) * (len(probes) + 1) // 2} entries differ)")
            rep.check(not bad, "R04.10", astq.loc(call), f"{construct0}::covariance",
                      f"BrownianInterval({cfg.label()}), after {hname}: {shown}", "exact Brownian covariance")
    ctx.floor("R04.10", 2 if light() else 6)


# ------------------------------------------------------------------------------------------------ R06.10
def r06_10(ctx):
    """Seeded reproducibility and order independence by replay: (a) two objects with the same entropy and options, asked the
    same sequence, agree -- in two fresh processes and when the second is built in the process the first has been used in;
    (b) in dyadic mode the value of every probe is the same after different histories (different orders, different other
    queries) on different objects; (c) another entropy gives another path."""
    rep, model = ctx.rep, ctx.model
    rep.rule("R06.10", "replay: equal (entropy, options, query sequence) give equal answers, also for a second object in a used "
                       "process; in dyadic mode answers do not depend on the history; a different entropy changes them")
    call = _call_fi(model)
    rep.analysed(call)
    if skipped(ctx, "R06.10", call):
        return
    n = 0
    for cfg in configs(ctx.tier):
        use_U = cfg.levy != "none"
        seq = on_grid(cfg, (HIST_ADAPTIVE + HIST_ODD if ctx.tier != "quick" else HIST_ADAPTIVE[:6]) + PROBES)
        probes = on_grid(cfg, PROBES)
        a, _, ses = _run(model, cfg, seq, use_U)
        b, _, _ = _run(model, cfg, seq, use_U)
        construct0 = f"{call.key}::R06.10::{cfg.label()}"
        if isinstance(a, SimRaise) or isinstance(b, SimRaise):
            e = a if isinstance(a, SimRaise) else b
            rep.fail("R06.10", astq.loc(call), construct0, f"a query raises {e.exc_name}: {e.message}")
            n += 1
            continue
        n += 1
        rep.check(rp.same(a, b), "R06.10", astq.loc(call), f"{construct0}::two fresh processes",
                  f"BrownianInterval({cfg.label()}): two objects with the same entropy and options, asked the same sequence of "
                  f"queries, differ", "identical answers")
        # a second object in the process the first one lived in (after an object with another pool size was used there)
        other = rp.Config(**{**cfg.__dict__, "pool": "POOL_OTHER"})
        rp.replay(model, other, seq[:6], return_U=use_U, session=ses)
        c, _, _ = rp.replay(model, cfg, seq, return_U=use_U, session=ses)
        n += 1
        rep.check(rp.same(a, c), "R06.10", astq.loc(call), f"{construct0}::second object in a used process",
                  f"BrownianInterval({cfg.label()}): an object built after other Brownian objects were used in the same process "
                  f"does not return what it returns in a fresh process", "identical answers")
        # another entropy: another path
        d, _, _ = _run(model, rp.Config(**{**cfg.__dict__, "entropy": "ENTROPY_OTHER"}), seq, use_U)
        n += 1
        rep.check(not isinstance(d, SimRaise) and not any(rp.same(x, y) for x, y in zip(a[:3], d[:3])), "R06.10",
                  astq.loc(call), f"{construct0}::another entropy",
                  f"BrownianInterval({cfg.label()}): a different entropy returns the same values", "different values")
        if cfg.halfway:
            base = a[-len(PROBES):]
            for hname, h in (("no other query", []), ("the probes in reverse order", None),
                             ("a forward-then-backward sweep first", HIST_FWD_BWD),
                             ("odd points first", HIST_ODD + HIST_HALF_THEN_STEP))[0 if ctx.tier != "quick" else 1:]:
                if h is None:
                    o, _, _ = _run(model, cfg, list(reversed(probes)), use_U)
                    got = list(reversed(o)) if not isinstance(o, SimRaise) else o
                else:
                    o, _, _ = _run(model, cfg, on_grid(cfg, h) + probes, use_U)
                    got = o[-len(PROBES):] if not isinstance(o, SimRaise) else o
                n += 1
                ok = not isinstance(got, SimRaise) and rp.same(base, got)
                rep.check(ok, "R06.10", astq.loc(call), f"{construct0}::dyadic order independence::{hname}",
                          f"BrownianInterval({cfg.label()}): the probes' values after {hname} differ from their values after the "
                          f"reference history: in dyadic mode a value may depend on the entropy and options only",
                          "identical answers")
    ctx.floor("R06.10", 6 if light() else 14)
