"""Rules decided by small-model replay of the real Brownian tree (see replay.py): R05.8, R03.9, R04.10, R06.10."""
from fractions import Fraction

from .. import astq, nf
from ..errors import AnalysisError
from ..interp import SimRaise
from ..nf import Rat
from . import replay as rp

F = Fraction
BI = rp.BI

# query histories on [0, 1] (exact rationals)
FIXED_SWEEP = [(F(k, 8), F(k + 1, 8)) for k in range(8)]
HIST_FWD_BWD = FIXED_SWEEP + list(reversed(FIXED_SWEEP))
HIST_ADAPTIVE = [(F(0), F(1, 2)), (F(0), F(1, 4)), (F(1, 4), F(1, 2)), (F(0), F(1, 4)), (F(0), F(1, 8)), (F(1, 8), F(1, 4)),
                 (F(1, 4), F(5, 8)), (F(1, 4), F(7, 16)), (F(7, 16), F(5, 8)), (F(5, 8), F(1))]
HIST_ODD = [(F(3, 10), F(7, 10)), (F(1, 3), F(2, 3)), (F(0), F(1, 3)), (F(2, 3), F(1)), (F(1, 10), F(9, 10))]
# the dyadic-descent pattern of the round-6 C05 seed: a whole dyadic left half, then a short step off its end
HIST_HALF_THEN_STEP = [(F(0), F(1, 2)), (F(1, 2), F(3, 5)), (F(1, 4), F(1, 2)), (F(1, 2), F(11, 20))]
PROBES = [(F(1, 4), F(1, 2)), (F(1, 4), F(5, 8)), (F(0), F(1)), (F(3, 10), F(7, 10)), (F(1, 8), F(1, 4)), (F(1, 3), F(2, 3)),
          (F(1, 2), F(3, 5)), (F(1, 2), F(1, 2))]


def light():
    import os
    return os.environ.get("TSVERIF_REPLAY") == "light"


def skipped(ctx, rule, call):
    """Variant self-tests of edits outside torchsde/_brownian: the replay reads that package only."""
    import os
    if os.environ.get("TSVERIF_REPLAY") != "skip":
        return False
    ctx.rep.ok(rule, astq.loc(call), f"{call.key}::{rule}::not-replayed", "edit outside the Brownian package: base verdict applies")
    ctx.floor(rule, 1)
    return True


def configs(tier, levy=("space-time",)):
    out = []
    if light():
        return [rp.Config(cache_size=F(1), levy=levy[0]), rp.Config(tol=F(1, 1000), halfway=True, levy=levy[0])]
    if tier == "quick":
        for lv in levy:
            out += [rp.Config(levy=lv), rp.Config(cache_size=F(0), levy=lv), rp.Config(dt=F(1, 8), cache_size=F(1), levy=lv),
                    rp.Config(tol=F(1, 1000), halfway=True, levy=lv)]
        return out
    for lv in levy:
        for c in (F(0), F(1), F(2), F(3), F(4), F(45), None):
            out.append(rp.Config(cache_size=c, levy=lv))
        out.append(rp.Config(dt=F(1, 8), levy=lv))
        out.append(rp.Config(dt=F(1, 8), cache_size=F(0), levy=lv))
        out.append(rp.Config(dt=F(1, 8), cache_size=F(1), levy=lv))
        out.append(rp.Config(tol=F(1, 1000), halfway=True, levy=lv))
        out.append(rp.Config(tol=F(1, 1000), halfway=True, cache_size=F(0), levy=lv))
        out.append(rp.Config(tol=F(1, 1000), levy=lv))
        out.append(rp.Config(dt=F(1, 64), cache_size=F(2), levy=lv))
        out.append(rp.Config(t0=F(-1, 2), t1=F(3, 2), levy=lv))
    out.append(rp.Config(levy="none"))
    out.append(rp.Config(levy="none", cache_size=F(0)))
    return out


def on_grid(cfg, qs):
    """With a tolerance the property speaks of resolved times: the queries are moved onto the tolerance grid."""
    if not cfg.tol:
        return list(qs)
    import math
    nd = math.ceil(-math.log10(cfg.tol))
    return [tuple(F(round(x, nd)) for x in q) for q in qs]


def _call_fi(model):
    return model.func(BI, "BrownianInterval.__call__")


_POOL_MODEL = None


def _pool_entry(args):
    fn_name, tier, cfg = args
    try:
        return ("ok", globals()[fn_name](_POOL_MODEL, tier, cfg))
    except AnalysisError as e:
        return ("analysis-error", str(e))


def per_config(model, tier, fn_name, cfgs):
    """[(cfg, [(ok, construct suffix, message if it fails, what holds)])], the configurations evaluated in parallel (every
    configuration is an independent replay; the forked workers share the loaded repository model)."""
    global _POOL_MODEL
    import multiprocessing
    import os
    _POOL_MODEL = model
    jobs = [(fn_name, tier, c) for c in cfgs]
    # serial unless asked otherwise: on the build machine's VM, allocation-heavy workers running side by side spend more
    # time in page faults than they gain
    n = min(len(jobs), int(os.environ.get("TSVERIF_REPLAY_JOBS", "1")))
    if n <= 1:
        res = [_pool_entry(j) for j in jobs]
    else:
        with multiprocessing.get_context("fork").Pool(n) as pool:
            res = pool.map(_pool_entry, jobs, chunksize=1)
    out = []
    for c, (kind, r) in zip(cfgs, res):
        if kind != "ok":
            raise AnalysisError(f"replay of BrownianInterval({c.label()}): {r}")
        out.append((c, r))
    return out


def _report(ctx, rule, call, results):
    for cfg, items in results:
        for ok, suffix, msg, holds in items:
            ctx.rep.check(ok, rule, astq.loc(call), f"{call.key}::{rule}::{cfg.label()}{suffix}", msg, holds)


def _run(model, cfg, queries, return_U, return_A=False):
    try:
        return rp.replay(model, cfg, queries, return_U=return_U, return_A=return_A)
    except SimRaise as e:
        return e, None, None


# ------------------------------------------------------------------------------------------------ R05.8
HISTORIES = [("fresh object", []), ("forward-then-backward sweep", HIST_FWD_BWD), ("adaptive-looking history", HIST_ADAPTIVE),
             ("odd query points", HIST_ODD), ("dyadic half, then a short step", HIST_HALF_THEN_STEP)]


def _cfg_r05_8(model, tier, cfg):
    """Per history, on a fresh object: the history, the probes, the history again backwards, the probes again; every
    interval that is asked more than once must get one and the same answer every time."""
    use_U = cfg.levy != "none"
    res = []
    probes = PROBES if tier != "quick" else PROBES[:4] + PROBES[6:]
    for hname, h in (HISTORIES[1:] if tier != "quick" else HISTORIES[2:] if not light() else HISTORIES[2:3] + HISTORIES[4:]):
        queries = on_grid(cfg, list(h) + list(probes) + list(reversed(h)) + list(probes))
        out, me, s = _run(model, cfg, queries, use_U)
        if isinstance(out, SimRaise):
            res.append((False, f"::{hname}", f"BrownianInterval({cfg.label()}): a query of the replayed history raises "
                                             f"{out.exc_name}: {out.message}", ""))
            continue
        first, bad = {}, []
        for k, (q, o) in enumerate(zip(queries, out)):
            if q not in first:
                first[q] = (k, o)
            elif not rp.same(first[q][1], o):
                bad.append((q, first[q][0], k, first[q][1], o))
        shown = ""
        if bad:
            q, k0, k1, x, y = bad[0]
            x0 = x[0] if isinstance(x, tuple) else x
            y0 = y[0] if isinstance(y, tuple) else y
            shown = (f"[{q[0]}, {q[1]}] was `{str(x0)[:150]}` as query no. {k0 + 1} and is `{str(y0)[:150]}` as query no. "
                     f"{k1 + 1} ({len(bad)} repeated queries differ)")
        res.append((not bad, f"::{hname}",
                    f"BrownianInterval({cfg.label()}), fresh object, {hname}, then probes, then the history backwards, then "
                    f"the probes again: {shown}: the same interval does not return the same value again",
                    "every repeated query returns its first answer"))
    return res


def r05_8(ctx):
    """Asking for the same interval again returns the same random variable, whatever was asked in between: the probes are
    asked on a fresh object, after a forward-then-backward sweep, after an adaptive-looking history with rejected trials,
    after odd query points and after the dyadic half-then-step pattern; cache sizes 0 / 1 / ... / unbounded, with and
    without a dt hint, plain and dyadic tree."""
    rep, model = ctx.rep, ctx.model
    rep.rule("R05.8", "replay of the real tree on exact rationals with symbolic noise: every interval asked more than once in "
                      "(history, probes, history backwards, probes) returns its first answer, for four histories and every "
                      "cache size, dt hint and tree mode")
    call = _call_fi(model)
    rep.analysed(call)
    if skipped(ctx, "R05.8", call):
        return
    cfgs = configs(ctx.tier) + ([rp.Config(levy="none")] if ctx.tier == "quick" else [])
    _report(ctx, "R05.8", call, per_config(model, ctx.tier, "_cfg_r05_8", cfgs))
    ctx.floor("R05.8", 4 if light() else 12)


# ------------------------------------------------------------------------------------------------ R03.9
TRIPLES = [(F(0), F(1, 4), F(1)), (F(1, 4), F(1, 2), F(5, 8)), (F(1, 8), F(3, 10), F(7, 10)), (F(1, 3), F(1, 2), F(2, 3)),
           (F(0), F(1, 2), F(3, 5)), (F(1, 10), F(1, 3), F(9, 10))]


def _cfg_r03_9(model, tier, cfg):
    use_U = cfg.levy != "none"
    res = []
    for hname, h in (("fresh object", []), ("a forward-then-backward sweep", HIST_FWD_BWD),
                     ("an adaptive-looking history", HIST_ADAPTIVE + HIST_HALF_THEN_STEP))[0 if tier != "quick" else 1:]:
        queries = list(h)
        at = len(queries)
        triples = [tuple(on_grid(cfg, [tr])[0]) for tr in TRIPLES]
        for i, (s_, u, t) in enumerate(triples):
            order = [(s_, t), (s_, u), (u, t)]
            order = order[i % 3:] + order[:i % 3]          # the whole interval first, in the middle, or last
            queries += order
        queries = on_grid(cfg, queries)
        out, me, ses = _run(model, cfg, queries, use_U)
        if isinstance(out, SimRaise):
            res.append((False, f"::after {hname}", f"BrownianInterval({cfg.label()}): a query raises {out.exc_name}: "
                                                   f"{out.message}", ""))
            continue
        ans = {}
        for q, o in zip(queries[at:], out[at:]):
            ans[q] = o
        for s_, u, t in triples:
            def WU(q):
                o = ans[q]
                return (o[0], o[1]) if isinstance(o, tuple) else (o, None)
            (W, U), (W1, U1), (W2, U2) = WU((s_, t)), WU((s_, u)), WU((u, t))
            ok = nf.equal(Rat.lift(W), Rat.lift(W1) + Rat.lift(W2))
            what = "W(s,t) != W(s,u) + W(u,t)"
            if ok and use_U:
                ok = nf.equal(Rat.lift(U), Rat.lift(U1) + Rat.lift(U2) + (t - u) * Rat.lift(W1))
                what = "U(s,t) != U(s,u) + U(u,t) + (t-u) W(s,u)"
            res.append((ok, f"::after {hname}::({s_},{u},{t})",
                        f"BrownianInterval({cfg.label()}), after {hname}, s={s_}, u={u}, t={t}: {what}", "Chen's relation"))
        # a zero-length query returns zeros and changes nothing
        z, _, _ = _run(model, cfg, queries[:at] + [(triples[1][1], triples[1][1])], use_U)
        zero = not isinstance(z, SimRaise) and all(nf.equal(Rat.lift(x), Rat.const(0))
                                                  for x in (z[-1] if isinstance(z[-1], tuple) else (z[-1],)))
        res.append((zero, f"::after {hname}::zero-length", f"BrownianInterval({cfg.label()}), after {hname}: a zero-length query "
                    f"does not return zeros", "zeros"))
    return res


def r03_9(ctx):
    """W(s,t) = W(s,u) + W(u,t) and U(s,t) = U(s,u) + U(u,t) + (t-u) W(s,u) as identities of random variables, for triples
    asked in every order after each history, and a zero-length query returns zero."""
    rep, model = ctx.rep, ctx.model
    rep.rule("R03.9", "replay: increments are additive and U obeys Chen's relation over triples s < u < t asked after arbitrary "
                      "histories, in any order, for every cache size, dt hint and tree mode")
    call = _call_fi(model)
    rep.analysed(call)
    if skipped(ctx, "R03.9", call):
        return
    cfgs = configs(ctx.tier) + ([rp.Config(levy="none")] if ctx.tier == "quick" else [])
    _report(ctx, "R03.9", call, per_config(model, ctx.tier, "_cfg_r03_9", cfgs))
    ctx.floor("R03.9", 10 if light() else 40)


# ------------------------------------------------------------------------------------------------ R04.10
def _Gp(x, y):
    x, y = max(x, F(0)), max(y, F(0))
    m, M = min(x, y), max(x, y)
    return m * m * M / 2 - m ** 3 / 6


def bm_cov_WW(i, j):
    (s, t), (u, v) = i, j
    return max(F(0), min(t, v) - max(s, u))


def bm_cov_UW(i, j):
    """Cov(U(s,t), W(u,v)) with U(s,t) = int_s^t (W_r - W_s) dr:  int_s^t |[s,r] n [u,v]| dr."""
    (s, t), (u, v) = i, j
    a, b = max(s, u), v
    # |[s,r] n [u,v]| = max(0, min(r, v) - max(s, u)) for r in [s, t]
    def prim(r):            # int_a^r max(0, min(x, b) - a) dx for r >= a
        if r <= a:
            return F(0)
        if b <= a:
            return F(0)
        if r <= b:
            return (r - a) ** 2 / 2
        return (b - a) ** 2 / 2 + (r - b) * (b - a)
    return prim(t) - prim(s)


def bm_cov_UU(i, j):
    """Cov(U(s,t), U(u,v)) = int_s^t int_u^v max(0, min(r,q) - max(s,u)) dq dr."""
    (s, t), (u, v) = i, j
    a = max(s, u)
    return _Gp(t - a, v - a) - _Gp(s - a, v - a) - _Gp(t - a, u - a) + _Gp(s - a, u - a)


LAW_PROBES = [(F(0), F(1)), (F(0), F(1, 4)), (F(1, 4), F(1, 2)), (F(1, 4), F(5, 8)), (F(3, 10), F(7, 10)), (F(1, 3), F(2, 3)),
              (F(5, 8), F(1)), (F(1, 2), F(3, 5))]


def r04_10(ctx):
    """The law itself, from the definition of Brownian motion: after a history of queries the answers (W_i, U_i) for a set
    of overlapping, nested and disjoint intervals are linear forms in independent unit normals whose covariance matrix is
    Cov(W_i, W_j) = |I_i n I_j|,  Cov(U_i, W_j) = int_{I_i} |[s_i, r] n I_j| dr,
    Cov(U_i, U_j) = int int max(0, min(r, q) - max(s_i, s_j)) dq dr     (U(s,t) = int_s^t (W_r - W_s) dr = (t-s)(W/2 + H)),
    all exact rationals.  This contains Var W = t - s, independence over disjoint intervals, H ~ N(0, (t-s)/12)
    independent of W, and every cross-covariance of overlapping intervals."""
    rep, model = ctx.rep, ctx.model
    rep.rule("R04.10", "replay: the joint covariance of (W, U) over overlapping, nested and disjoint intervals, after arbitrary "
                       "histories, is exactly that of Brownian motion and its time integral (reference from the definition)")
    call = _call_fi(model)
    rep.analysed(call)
    if skipped(ctx, "R04.10", call):
        return
    cfgs = [c for c in configs(ctx.tier) if c.levy != "none"]
    if ctx.tier == "quick":
        cfgs = [c for c in cfgs if c.dt is None]
    law_probes = LAW_PROBES if ctx.tier != "quick" else LAW_PROBES[:1] + LAW_PROBES[2:6]
    n = 0
    for cfg in cfgs:
        for hname, h in (("fresh object", []), ("an adaptive-looking history", HIST_ADAPTIVE + HIST_ODD))[0 if ctx.tier != "quick" else 1:]:
            probes = on_grid(cfg, law_probes)
            queries = on_grid(cfg, h) + probes
            out, me, ses = _run(model, cfg, queries, True)
            construct0 = f"{call.key}::R04.10::{cfg.label()}::after {hname}"
            if isinstance(out, SimRaise):
                rep.fail("R04.10", astq.loc(call), construct0, f"a query raises {out.exc_name}: {out.message}")
                n += 1
                continue
            ans = out[len(h):]
            WU = [(Rat.lift(o[0]), Rat.lift(o[1])) for o in ans]
            lin = all(rp.is_linear(w) and rp.is_linear(u) for w, u in WU)
            n += 1
            rep.check(lin, "R04.10", astq.loc(call), f"{construct0}::gaussian",
                      "an answer is not a linear form in the unit normals drawn by the tree: the sample is not Gaussian",
                      "linear in independent unit normals")
            if not lin:
                continue
            bad = []
            for i, pi in enumerate(probes):
                for j, pj in enumerate(probes):
                    if j < i:
                        continue
                    checks = [("Cov(W_i, W_j)", rp.cov(WU[i][0], WU[j][0]), bm_cov_WW(pi, pj)),
                              ("Cov(U_i, W_j)", rp.cov(WU[i][1], WU[j][0]), bm_cov_UW(pi, pj)),
                              ("Cov(U_j, W_i)", rp.cov(WU[j][1], WU[i][0]), bm_cov_UW(pj, pi)),
                              ("Cov(U_i, U_j)", rp.cov(WU[i][1], WU[j][1]), bm_cov_UU(pi, pj))]
                    for name, got, want in checks:
                        if not nf.equal(got, Rat.const(want)):
                            bad.append((name, pi, pj, got, want))
            n += 1
            shown = ""
            if bad:
                name, pi, pj, got, want = bad[0]
                shown = (f"{name} for I_i = [{pi[0]}, {pi[1]}], I_j = [{pj[0]}, {pj[1]}] is `{got}`; Brownian motion has {want} "
                         f"({len(bad)} of {4 * len(probes) * (len(probes) + 1) // 2} entries differ)")
            rep.check(not bad, "R04.10", astq.loc(call), f"{construct0}::covariance",
                      f"BrownianInterval({cfg.label()}), after {hname}: {shown}", "exact Brownian covariance")
    ctx.floor("R04.10", 2 if light() else 6)


# ------------------------------------------------------------------------------------------------ R06.10
def r06_10(ctx):
    """Seeded reproducibility and order independence by replay: (a) two objects with the same entropy and options, asked the
    same sequence, agree -- in two fresh processes and when the second is built in the process the first has been used in;
    (b) in dyadic mode the value of every probe is the same after different histories (different orders, different other
    queries) on different objects; (c) another entropy gives another path."""
    rep, model = ctx.rep, ctx.model
    rep.rule("R06.10", "replay: equal (entropy, options, query sequence) give equal answers, also for a second object in a used "
                       "process; in dyadic mode answers do not depend on the history; a different entropy changes them")
    call = _call_fi(model)
    rep.analysed(call)
    if skipped(ctx, "R06.10", call):
        return
    n = 0
    for cfg in configs(ctx.tier):
        use_U = cfg.levy != "none"
        seq = on_grid(cfg, (HIST_ADAPTIVE + HIST_ODD if ctx.tier != "quick" else HIST_ADAPTIVE[:6]) + PROBES)
        probes = on_grid(cfg, PROBES)
        a, _, ses = _run(model, cfg, seq, use_U)
        b, _, _ = _run(model, cfg, seq, use_U)
        construct0 = f"{call.key}::R06.10::{cfg.label()}"
        if isinstance(a, SimRaise) or isinstance(b, SimRaise):
            e = a if isinstance(a, SimRaise) else b
            rep.fail("R06.10", astq.loc(call), construct0, f"a query raises {e.exc_name}: {e.message}")
            n += 1
            continue
        n += 1
        rep.check(rp.same(a, b), "R06.10", astq.loc(call), f"{construct0}::two fresh processes",
                  f"BrownianInterval({cfg.label()}): two objects with the same entropy and options, asked the same sequence of "
                  f"queries, differ", "identical answers")
        # a second object in the process the first one lived in (after an object with another pool size was used there)
        other = rp.Config(**{**cfg.__dict__, "pool": "POOL_OTHER"})
        rp.replay(model, other, seq[:6], return_U=use_U, session=ses)
        c, _, _ = rp.replay(model, cfg, seq, return_U=use_U, session=ses)
        n += 1
        rep.check(rp.same(a, c), "R06.10", astq.loc(call), f"{construct0}::second object in a used process",
                  f"BrownianInterval({cfg.label()}): an object built after other Brownian objects were used in the same process "
                  f"does not return what it returns in a fresh process", "identical answers")
        # another entropy: another path
        d, _, _ = _run(model, rp.Config(**{**cfg.__dict__, "entropy": "ENTROPY_OTHER"}), seq, use_U)
        n += 1
        rep.check(not isinstance(d, SimRaise) and not any(rp.same(x, y) for x, y in zip(a[:3], d[:3])), "R06.10",
                  astq.loc(call), f"{construct0}::another entropy",
                  f"BrownianInterval({cfg.label()}): a different entropy returns the same values", "different values")
        if cfg.halfway:
            base = a[-len(PROBES):]
            for hname, h in (("no other query", []), ("the probes in reverse order", None),
                             ("a forward-then-backward sweep first", HIST_FWD_BWD),
                             ("odd points first", HIST_ODD + HIST_HALF_THEN_STEP))[0 if ctx.tier != "quick" else 1:]:
                if h is None:
                    o, _, _ = _run(model, cfg, list(reversed(probes)), use_U)
                    got = list(reversed(o)) if not isinstance(o, SimRaise) else o
                else:
                    o, _, _ = _run(model, cfg, on_grid(cfg, h) + probes, use_U)
                    got = o[-len(PROBES):] if not isinstance(o, SimRaise) else o
                n += 1
                ok = not isinstance(got, SimRaise) and rp.same(base, got)
                rep.check(ok, "R06.10", astq.loc(call), f"{construct0}::dyadic order independence::{hname}",
                          f"BrownianInterval({cfg.label()}): the probes' values after {hname} differ from their values after the "
                          f"reference history: in dyadic mode a value may depend on the entropy and options only",
                          "identical answers")
    ctx.floor("R06.10", 6 if light() else 14)


# ------------------------------------------------------------------------------------------------ R04.11 (bridges)
def _ref_cov(kind_i, I, kind_j, J):
    if kind_i == "W" and kind_j == "W":
        return bm_cov_WW(I, J)
    if kind_i == "U" and kind_j == "W":
        return bm_cov_UW(I, J)
    if kind_i == "W" and kind_j == "U":
        return bm_cov_UW(J, I)
    return bm_cov_UU(I, J)


def r04_11(ctx):
    """'If the caller supplies the end-to-end W (or W and H) the path is the corresponding bridge and returns exactly that
    value over the whole interval.'  By replay with symbolic W_user (and H_user): the whole-interval query returns them
    verbatim; every other answer X = a W_user + b H_user + (linear form in unit normals), where (a, b) are the
    coefficients of the conditional mean E[X | W(t0,t1), U(t0,t1)] and the covariance of the noise parts is the
    conditional covariance -- both obtained by Gaussian conditioning of the Brownian reference covariances
    (Sigma = Cov([W, U]) of the whole interval; mean Cov(X, [W,U]) Sigma^-1, covariance Cov(X,Y) - Cov(X,[W,U]) Sigma^-1
    Cov([W,U], Y)).  With W alone supplied, H is drawn by the object and only W is conditioned on."""
    rep, model = ctx.rep, ctx.model
    rep.rule("R04.11", "replay with a user-supplied end-to-end W (and H): the whole interval returns it verbatim; elsewhere the "
                       "answers are the Brownian bridge: conditional mean and conditional covariance by Gaussian "
                       "conditioning of the reference covariances")
    call = _call_fi(model)
    rep.analysed(call)
    if skipped(ctx, "R04.11", call):
        return
    Wn, Hn = nf.sym("W_user"), nf.sym("H_user")
    WA, HA = ("t", "W_user"), ("t", "H_user")
    T0, T1 = F(0), F(1)
    whole = (T0, T1)
    probes = [whole, (F(0), F(1, 4)), (F(1, 4), F(1, 2)), (F(3, 10), F(7, 10)), (F(5, 8), F(1))]
    scenarios = [("W and H supplied", rp.Config(W=Wn, H=Hn), True), ("W supplied", rp.Config(W=Wn), False),
                 ("W and H supplied, cache_size=0", rp.Config(W=Wn, H=Hn, cache_size=F(0)), True)]
    if light():
        scenarios = scenarios[:2]
    for label, cfg, both in scenarios:
        out, me, ses = _run(model, cfg, HIST_ADAPTIVE[:6] + probes, True)
        construct0 = f"{call.key}::R04.11::{label}"
        if isinstance(out, SimRaise):
            rep.fail("R04.11", astq.loc(call), construct0, f"a query raises {out.exc_name}: {out.message}")
            continue
        ans = out[-len(probes):]
        w0, u0 = Rat.lift(ans[0][0]), Rat.lift(ans[0][1])
        ok_whole = nf.equal(w0, Wn) and (not both or nf.equal(u0, (T1 - T0) * (Wn * F(1, 2) + Hn)))
        rep.check(ok_whole, "R04.11", astq.loc(call), f"{construct0}::whole-interval",
                  f"{label}: the query over the whole interval returns (`{w0}`, `{u0}`), not the supplied W"
                  f"{' and U = (t1 - t0)(W/2 + H)' if both else ''}", "returned verbatim")
        # Gaussian conditioning of the reference
        sWW, sWU, sUU = bm_cov_WW(whole, whole), bm_cov_UW(whole, whole), bm_cov_UU(whole, whole)
        det = sWW * sUU - sWU * sWU
        bad = []
        items = [(k, I, Rat.lift(a[0] if k == "W" else a[1])) for I, a in zip(probes[1:], ans[1:]) for k in ("W", "U")]

        def cond(kind, I):
            cW, cU = _ref_cov(kind, I, "W", whole), _ref_cov(kind, I, "U", whole)
            if both:
                # coefficients on (W, U): [cW cU] Sigma^-1
                aW = (cW * sUU - cU * sWU) / det
                aU = (-cW * sWU + cU * sWW) / det
                return aW, aU
            return cW / sWW, F(0)
        for kind, I, x in items:
            aW, aU = cond(kind, I)
            # U_user = (T1 - T0) (W/2 + H): coefficient on W_user is aW + aU T/2, on H_user aU T
            T = T1 - T0
            want_W, want_H = aW + aU * T / 2, aU * T
            got_W, got_H = nf.coefficient_of(nf.reduce_sqrt(x), WA), nf.coefficient_of(nf.reduce_sqrt(x), HA)
            if not nf.equal(got_W, Rat.const(want_W)) or (both and not nf.equal(got_H, Rat.const(want_H))):
                bad.append(f"{kind}[{I[0]},{I[1]}]: coefficients on (W_user, H_user) are ({got_W}, {got_H}); the bridge has "
                           f"({want_W}, {want_H if both else 0})")
        noise = [(k, I, x - nf.coefficient_of(nf.reduce_sqrt(x), WA) * Wn - nf.coefficient_of(nf.reduce_sqrt(x), HA) * Hn)
                 for k, I, x in items]
        for i, (ki, Ii, ni) in enumerate(noise):
            for kj, Ij, nj in noise[i:]:
                aW, aU = cond(ki, Ii)
                want = _ref_cov(ki, Ii, kj, Ij) - (aW * _ref_cov("W", whole, kj, Ij) + aU * _ref_cov("U", whole, kj, Ij))
                got = rp.cov(ni, nj)
                if not nf.equal(got, Rat.const(want)):
                    bad.append(f"conditional Cov({ki}[{Ii[0]},{Ii[1]}], {kj}[{Ij[0]},{Ij[1]}]) = {got}; the bridge has {want}")
        rep.check(not bad, "R04.11", astq.loc(call), f"{construct0}::bridge-law",
                  f"{label}: {bad[0] if bad else ''} ({len(bad)} entries differ): the path is not the bridge pinned at the "
                  f"supplied value(s)", "conditional mean and covariance of the bridge")
    ctx.floor("R04.11", 4)


# ------------------------------------------------------------------------------------------------ R07.9 (cache bound by replay)
def _cfg_r07_9(model, tier, cfg):
    """Every query of every history returns normally and the cache never holds more than cache_size entries."""
    res = []
    seq = on_grid(cfg, HIST_FWD_BWD + HIST_ADAPTIVE + HIST_ODD + HIST_HALF_THEN_STEP + PROBES)
    s = rp.Session(model)
    try:
        me = s.build(cfg)
    except SimRaise as e:
        return [(False, "", f"BrownianInterval({cfg.label()}): the constructor raises {e.exc_name}: {e.message}", "")]
    cache = next((v for k, v in me.attrs.items() if "cache" in k and not k.endswith("_size")), None)
    worst, where = 0, None
    for k, (ta, tb) in enumerate(seq):
        try:
            s.query(me, ta, tb, return_U=cfg.levy != "none")
        except SimRaise as e:
            return [(False, "", f"BrownianInterval({cfg.label()}): query no. {k + 1}, [{ta}, {tb}], raises {e.exc_name}: "
                                f"{e.message}", "")]
        store = getattr(cache, "store", None)
        n = len(store) if store is not None else (len(cache) if isinstance(cache, dict) else 0)
        if n > worst:
            worst, where = n, (k, ta, tb)
    bound = cfg.cache_size
    ok = bound is None or worst <= int(bound)
    res.append((ok, "", f"BrownianInterval({cfg.label()}): after query no. {where[0] + 1 if where else '?'} the cache holds {worst} "
                        f"entries, more than cache_size = {bound}", f"at most {bound} cached entries over {len(seq)} queries"))
    return res


def r07_9(ctx):
    rep, model = ctx.rep, ctx.model
    rep.rule("R07.9", "replay: every query of four histories returns normally and the number of cached entries never exceeds "
                      "cache_size, for cache sizes 0 .. 45 and unbounded, dt hints and both tree modes")
    call = _call_fi(model)
    rep.analysed(call)
    if skipped(ctx, "R07.9", call):
        return
    cfgs = configs(ctx.tier)
    if ctx.tier == "quick" and not light():
        cfgs = cfgs + [rp.Config(cache_size=F(2)), rp.Config(cache_size=F(3), dt=F(1, 8))]
    _report(ctx, "R07.9", call, per_config(model, ctx.tier, "_cfg_r07_9", cfgs))
    ctx.floor("R07.9", 2 if light() else 4)


# ------------------------------------------------------------------------------------------------ R03.10 / R06.11 (wrappers)
DERIVED = "torchsde/_brownian/derived.py"


def _wrapper(session, model, cname, **kw):
    from ..interp import Obj
    cls = model.cls(DERIVED, cname)
    me = Obj(cname, cls=cls)
    session.it.call_function(model.lookup_method(cls, "__init__"), [me], kw)
    call = model.lookup_method(cls, "__call__")
    return me, (lambda *a, **k: session.it.call_function(call, [me] + list(a), k))


def r03_10(ctx):
    """'... and equally through BrownianPath, BrownianTree and ReverseBrownian': the wrappers are built by their own
    constructors and queried by replay.  Increments are additive over triples (after other queries), point evaluations are
    consistent with increments (bm(t) - bm(s) == bm(s, t), bm(t0) == w0), a repeated query returns the same value, and
    ReverseBrownian returns, for (-tb, -ta), the increment of the base over (ta, tb) with U -> (tb - ta) W - U."""
    rep, model = ctx.rep, ctx.model
    rep.rule("R03.10", "replay through the wrappers' own constructors: BrownianTree, BrownianPath and ReverseBrownian are "
                       "additive, consistent between point and interval evaluation, repeatable, and the reflection maps "
                       "(W, U) as Chen's relation prescribes")
    fi = model.lookup_method(model.cls(DERIVED, "BrownianTree"), "__call__")
    rep.analysed(fi)
    if skipped(ctx, "R03.10", fi):
        return
    W0 = nf.sym("W0")
    makers = [("BrownianTree", dict(t0=F(0), w0=W0, t1=F(1), entropy=nf.sym("ENTROPY", True), tol=F(1, 1000))),
              ("BrownianPath", dict(t0=F(0), w0=W0))]
    hist = on_grid(rp.Config(tol=F(1, 1000)), HIST_ADAPTIVE[:6] + HIST_HALF_THEN_STEP)
    triples = [tuple(on_grid(rp.Config(tol=F(1, 1000)), [tr])[0]) for tr in TRIPLES[:4]]
    for cname, kw in makers:
        ses = rp.Session(model)
        construct0 = f"{fi.key}::R03.10::{cname}"
        try:
            me, q = _wrapper(ses, model, cname, **kw)
            for ta, tb in hist:
                q(ta, tb)
            bad = []
            for s_, u, t in triples:
                w, w1, w2 = q(s_, t), q(s_, u), q(u, t)
                if not nf.equal(Rat.lift(w), Rat.lift(w1) + Rat.lift(w2)):
                    bad.append(f"W({s_},{t}) != W({s_},{u}) + W({u},{t})")
                if not nf.equal(Rat.lift(q(t)) - Rat.lift(q(s_)), Rat.lift(w)):
                    bad.append(f"bm({t}) - bm({s_}) != bm({s_}, {t})")
                if not rp.same(q(s_, t), w):
                    bad.append(f"bm({s_}, {t}) asked again differs")
            if not nf.equal(Rat.lift(q(F(0))), W0):
                bad.append("bm(t0) != w0")
        except SimRaise as e:
            bad = [f"a query raises {e.exc_name}: {e.message}"]
        rep.check(not bad, "R03.10", astq.loc(fi), construct0, f"{cname}: {'; '.join(bad[:3])}",
                  "additive, point / interval consistent, repeatable")
    # ReverseBrownian over a BrownianInterval with space-time Levy area
    ses = rp.Session(model)
    base = ses.build(rp.Config())
    from ..interp import Obj
    rcls = model.cls(DERIVED, "ReverseBrownian")
    rev = Obj("ReverseBrownian", cls=rcls)
    ses.it.call_function(model.lookup_method(rcls, "__init__"), [rev, base], {})
    rcall = model.lookup_method(rcls, "__call__")
    bad = []
    for ta, tb in ((F(1, 4), F(1, 2)), (F(3, 10), F(7, 10)), (F(0), F(1))):
        W, U = ses.query(base, ta, tb, return_U=True)
        Wr, Ur = ses.it.call_function(rcall, [rev, -tb, -ta], {"return_U": True})
        if not nf.equal(Rat.lift(Wr), Rat.lift(W)):
            bad.append(f"W_rev(-{tb}, -{ta}) != W({ta}, {tb})")
        if not nf.equal(Rat.lift(Ur), (tb - ta) * Rat.lift(W) - Rat.lift(U)):
            bad.append(f"U_rev(-{tb}, -{ta}) != ({tb} - {ta}) W - U")
    rep.check(not bad, "R03.10", astq.loc(model.lookup_method(rcls, "__call__")), f"{fi.key}::R03.10::ReverseBrownian",
              f"ReverseBrownian: {'; '.join(bad[:3])}", "W -> W, U -> (tb - ta) W - U on the reflected interval")
    ctx.floor("R03.10", 3)


def r06_11(ctx):
    """'(and through BrownianTree) the value returned for an interval depends only on the entropy and options': two
    BrownianTree objects with equal arguments, asked the probes after different histories, agree; and they agree with a
    third built in the process in which the first two were used."""
    rep, model = ctx.rep, ctx.model
    rep.rule("R06.11", "replay through BrownianTree's own constructor: probe values do not depend on the history of other queries")
    fi = model.lookup_method(model.cls(DERIVED, "BrownianTree"), "__call__")
    rep.analysed(fi)
    if skipped(ctx, "R06.11", fi):
        return
    grid = rp.Config(tol=F(1, 1000))
    probes = on_grid(grid, PROBES[:7])
    kw = dict(t0=F(0), w0=nf.sym("W0"), t1=F(1), entropy=nf.sym("ENTROPY", True), tol=F(1, 1000))
    answers = []
    ses0 = rp.Session(model)
    for label, hist, ses in (("no other query", [], ses0), ("an adaptive-looking history first", HIST_ADAPTIVE + HIST_HALF_THEN_STEP, None),
                             ("odd points first, probes in reverse order", HIST_ODD, None), ("in a used process", HIST_FWD_BWD[:6], ses0)):
        ses = ses or rp.Session(model)
        try:
            me, q = _wrapper(ses, model, "BrownianTree", **kw)
            for ta, tb in on_grid(grid, hist):
                q(ta, tb)
            order = list(reversed(probes)) if "reverse" in label else probes
            got = {p: q(*p) for p in order}
            answers.append((label, [got[p] for p in probes]))
        except SimRaise as e:
            rep.fail("R06.11", astq.loc(fi), f"{fi.key}::R06.11::{label}", f"BrownianTree: a query raises {e.exc_name}: {e.message}")
    for label, a in answers[1:]:
        rep.check(rp.same(answers[0][1], a), "R06.11", astq.loc(fi), f"{fi.key}::R06.11::{label}",
                  f"BrownianTree: the probes' values with {label} differ from their values on a fresh object: the value of an "
                  f"interval depends on what else was asked", "identical answers")
    ctx.floor("R06.11", 3)


# ------------------------------------------------------------------------------------------------ R03.11 (Levy areas by replay)
def _cfg_r03_11(model, tier, cfg):
    res = []
    for hname, h in (("fresh object", []), ("an adaptive-looking history", HIST_ADAPTIVE[:6] + HIST_HALF_THEN_STEP))[0 if tier != "quick" else 1:]:
        triples = [tuple(on_grid(cfg, [tr])[0]) for tr in (TRIPLES[:2] if tier == "quick" else TRIPLES)]
        queries = on_grid(cfg, list(h))
        at = len(queries)
        for i, (s_, u, t) in enumerate(triples):
            # the parts first: a Levy-area *approximation* is that of the stored pieces the query is cut into -- an interval
            # that is a node of its own carries its own approximation, which is not the combination of its children's (the
            # property asks for Chen's relation across stored pieces, and for repeatability)
            queries += [(s_, u), (u, t), (s_, t)]
        queries += [(triples[0][0], triples[0][2])]            # asked once more at the very end
        try:
            out, me, ses = rp.replay(model, cfg, queries, return_U=True, return_A=True)
        except SimRaise as e:
            res.append((False, f"::after {hname}", f"BrownianInterval({cfg.label()}): a query raises {e.exc_name}: {e.message}", ""))
            continue
        ans = {}
        for q, o in zip(queries[at:], out[at:]):
            ans.setdefault(q, o)
        # NB no Chen relation *between queries* is demanded of A: a Levy-area approximation is that of the stored pieces a
        # query is cut into, an interval that is a node of its own carries its own approximation, and two queries over
        # the same stretch may be cut into different pieces (coarser nodes where they fit).  Chen's relation across the
        # pieces of one query is R03.2's business (the aggregation loop, symbolically, for 1..5 pieces).
        for s_, u, t in triples:
            (W, U, A) = ans[(s_, t)]
            anti = nf.equal(Rat.lift(A) + nf.transpose(Rat.lift(A)), Rat.const(0))
            res.append((anti, f"::after {hname}::({s_},{u},{t})::antisymmetric",
                        f"BrownianInterval({cfg.label()}), after {hname}: A({s_},{t}) + A({s_},{t})^T != 0", "antisymmetric"))
        again = out[-1]
        res.append((rp.same(again, ans[(triples[0][0], triples[0][2])]), f"::after {hname}::repeatable",
                    f"BrownianInterval({cfg.label()}), after {hname}: (W, U, A) over [{triples[0][0]}, {triples[0][2]}] asked again "
                    f"at the end differs from the first answer", "same (W, U, A) again"))
    return res


def r03_11(ctx):
    """The Levy-area clauses that speak about more than one query, by replay: a requested Levy-area approximation is
    antisymmetric whatever pieces it was combined from, and (C05) A is repeatable like W and U, also when the tree has been
    refined under the interval in the meantime -- Davie and Foster areas, on the real tree, after a history."""
    rep, model = ctx.rep, ctx.model
    rep.rule("R03.11", "replay with Davie / Foster Levy areas: every A returned after a history is antisymmetric, and (W, U, A) of an "
                       "interval is returned unchanged when asked again after the tree was refined underneath it")
    call = _call_fi(model)
    rep.analysed(call)
    if skipped(ctx, "R03.11", call):
        return
    cfgs = [rp.Config(levy="foster", cache_size=F(1))]
    if ctx.tier != "quick" and not light():
        cfgs += [rp.Config(levy="davie", cache_size=F(0)), rp.Config(levy="foster", dt=F(1, 8)),
                 rp.Config(levy="davie", tol=F(1, 1000), halfway=True)]
    _report(ctx, "R03.11", call, per_config(model, ctx.tier, "_cfg_r03_11", cfgs))
    ctx.floor("R03.11", 3)


# ------------------------------------------------------------------------------------------------ R03.12 (resolved times)
def r03_12(ctx):
    """With a tolerance a query is a query of its *resolved* end points: the increment returned for raw times (a, b) is the
    increment of (q(a), q(b)) -- zero exactly when the two coincide, and the increment of the grid interval otherwise,
    however short b - a is.  By replay, plain and dyadic tree, after a short history; raw times on both sides of cell
    boundaries, closer together than a cell, and further apart.  (W only: U is scaled with the raw length, observation
    (xiii).)"""
    rep, model = ctx.rep, ctx.model
    rep.rule("R03.12", "replay with a tolerance: the increment returned for raw query times is the increment of the resolved "
                       "(quantised) end points -- zero iff they coincide")
    call = _call_fi(model)
    rep.analysed(call)
    if skipped(ctx, "R03.12", call):
        return
    tol = F(1, 10)
    raws = [(F(4, 100), F(6, 100)), (F(6, 100), F(14, 100)), (F(12, 100), F(38, 100)), (F(26, 100), F(34, 100)),
            (F(31, 100), F(33, 100)), (F(44, 100), F(76, 100)), (F(55, 100), F(65, 100))]
    hist = [(F(0), F(1, 2)), (F(1, 2), F(1))]
    for cfg in (rp.Config(tol=tol), rp.Config(tol=tol, halfway=True), rp.Config(tol=tol, levy="none", cache_size=F(0))):
        use_U = cfg.levy != "none"
        bad = []
        for a, b in raws:
            qa, qb = F(round(a, 1)), F(round(b, 1))
            o1, _, _ = _run(model, cfg, hist + [(a, b)], use_U)
            o2, _, _ = _run(model, cfg, hist + [(qa, qb)], use_U)
            if isinstance(o1, SimRaise) or isinstance(o2, SimRaise):
                e = o1 if isinstance(o1, SimRaise) else o2
                bad.append(f"the query ({a}, {b}) raises {e.exc_name}: {e.message}")
                continue
            w1 = o1[-1][0] if isinstance(o1[-1], tuple) else o1[-1]
            w2 = o2[-1][0] if isinstance(o2[-1], tuple) else o2[-1]
            if not nf.equal(Rat.lift(w1), Rat.lift(w2)):
                bad.append(f"W({a}, {b}) = `{str(w1)[:80]}` but the resolved end points are ({qa}, {qb}), whose increment is "
                           f"`{str(w2)[:80]}`")
            if qa == qb and not nf.equal(Rat.lift(w1), Rat.const(0)):
                bad.append(f"W({a}, {b}) is not zero although both end points resolve to {qa}")
        rep.check(not bad, "R03.12", astq.loc(call), f"{call.key}::R03.12::{cfg.label()}",
                  f"BrownianInterval({cfg.label()}): {bad[0] if bad else ''} ({len(bad)} of {len(raws)} raw queries): values at "
                  f"resolved times are not additive, and in dyadic mode they depend on the history", "increment of the resolved interval")
    ctx.floor("R03.12", 3)


# ------------------------------------------------------------------------------------------------ seeded random histories
def _random_history(rnd, cfg):
    """6..9 distinct times of [t0, t1] (dyadic, tenths, thirds; on the tolerance grid when there is one), 14..22 queries over
    them -- among them the three intervals of a few triples s < u < t, repeats, and a zero-length query -- then every distinct
    query again in another order."""
    span = cfg.t1 - cfg.t0
    pool = sorted({cfg.t0 + span * F(k, d) for d in (64, 10, 3) for k in range(d + 1)})
    pts = sorted(rnd.sample(pool, rnd.randint(6, 9)))
    if rnd.random() < 0.5:
        pts = sorted(set(pts) | {cfg.t0, cfg.t1})
    pts = sorted({q[0] for q in on_grid(cfg, [(p, p) for p in pts])})
    qs = []
    triples = []
    for _ in range(rnd.randint(2, 4)):
        s, u, t = sorted(rnd.sample(pts, 3))
        triples.append((s, u, t))
        order = [(s, t), (s, u), (u, t)]
        rnd.shuffle(order)
        qs += order
    while len(qs) < rnd.randint(14, 22):
        a, b = sorted(rnd.sample(pts, 2))
        qs.append((a, b))
    rnd.shuffle(qs)
    z = rnd.choice(pts)
    qs.insert(rnd.randint(0, len(qs)), (z, z))
    again = list(dict.fromkeys(qs))
    rnd.shuffle(again)
    return qs, again, triples


def _random_histories(ctx, rule, clauses):
    import random
    rep, model = ctx.rep, ctx.model
    call = _call_fi(model)
    rep.analysed(call)
    if skipped(ctx, rule, call):
        return
    pool = [c for c in configs(ctx.tier)]
    n = 3 if light() else (8 if ctx.tier == "quick" else 60)
    rnd = random.Random(f"random-histories/{ctx.seed}")          # the same histories for the three properties that share them
    failures, done, asked = {}, 0, 0
    for i in range(n):
        cfg = pool[i % len(pool)] if i < len(pool) else rnd.choice(pool)
        use_U = cfg.levy != "none"
        qs, again, triples = _random_history(rnd, cfg)
        shown = f"BrownianInterval({cfg.label()}), history #{i}: " + ", ".join(f"[{a}, {b}]" for a, b in qs)
        bad = lambda clause, text: failures.setdefault(clause, f"{shown}: {text}")         # noqa: E731
        out, me, ses = _run(model, cfg, qs + again, use_U)
        if isinstance(out, SimRaise):
            bad("raises", f"a query raises {out.exc_name}: {out.message}")
            continue
        done += 1
        asked += len(out)
        first = {}
        for k, (q, o) in enumerate(zip(qs + again, out)):
            if q not in first:
                first[q] = (k, o)
            elif "repeatable" in clauses and not rp.same(first[q][1], o):
                bad("repeatable", f"[{q[0]}, {q[1]}] asked as query no. {first[q][0] + 1} and again as no. {k + 1} returns another value")

        def WU(q):
            o = first[q][1]
            return (Rat.lift(o[0]), Rat.lift(o[1])) if isinstance(o, tuple) else (Rat.lift(o), None)
        if "zero-length" in clauses:
            for q in first:
                if q[0] == q[1] and not all(x is None or nf.equal(x, Rat.const(0)) for x in WU(q)):
                    bad("zero-length", f"the zero-length query at {q[0]} does not return zeros")
        if "chen" in clauses:
            for s, u, t in triples:
                (W, U), (W1, U1), (W2, U2) = WU((s, t)), WU((s, u)), WU((u, t))
                if not nf.equal(W, W1 + W2):
                    bad("chen", f"W({s},{t}) != W({s},{u}) + W({u},{t})")
                elif use_U and not nf.equal(U, U1 + U2 + (t - u) * W1):
                    bad("chen", f"U({s},{t}) != U({s},{u}) + U({u},{t}) + ({t} - {u}) W({s},{u})")
        if "law" in clauses:
            ivs = [q for q in first if q[0] < q[1]]
            vals = {q: WU(q) for q in ivs}
            if not all(rp.is_linear(w) and (u is None or rp.is_linear(u)) for w, u in vals.values()):
                bad("law", "an answer is not a linear form in the unit normals drawn by the tree")
                continue
            # coefficient vectors once per answer (rp.cov would reduce both forms again for every pair)
            vec = {}
            for q, (w, u) in vals.items():
                for tag, x in (("W", w), ("U", u)):
                    if x is not None:
                        x = nf.reduce_sqrt(x)
                        vec[q, tag] = {a: nf.coefficient_of(x, a) for a in rp.unit_normals(x)}

            def cov(k1, k2):
                v1, v2 = vec[k1], vec[k2]
                tot = Rat.const(0)
                for a in v1.keys() & v2.keys():
                    tot = tot + v1[a] * v2[a]
                return nf.reduce_sqrt(tot)
            for a_, pi in enumerate(ivs):
                for pj in ivs[a_:]:
                    checks = [("Cov(W_i, W_j)", cov((pi, "W"), (pj, "W")), bm_cov_WW(pi, pj))]
                    if use_U:
                        checks += [("Cov(U_i, W_j)", cov((pi, "U"), (pj, "W")), bm_cov_UW(pi, pj)),
                                   ("Cov(U_j, W_i)", cov((pj, "U"), (pi, "W")), bm_cov_UW(pj, pi)),
                                   ("Cov(U_i, U_j)", cov((pi, "U"), (pj, "U")), bm_cov_UU(pi, pj))]
                    for name, got, want in checks:
                        if not nf.equal(got, Rat.const(want)):
                            bad("law", f"{name} for I_i = [{pi[0]}, {pi[1]}], I_j = [{pj[0]}, {pj[1]}] is `{got}`; Brownian motion has {want}")
    for clause in ("raises",) + tuple(clauses):
        rep.check(clause not in failures, rule, astq.loc(call), f"{call.key}::{rule}::{clause}",
                  f"{failures.get(clause)} (first of the {n} seeded histories that fails this clause)",
                  f"{done} seeded random histories, {asked} queries")
    ctx.floor(rule, 1 + len(clauses))


def r05_10(ctx):
    """C05 for seeded random histories: every interval asked again -- later in the history, and once more after the whole history
    in another order -- returns its first answer."""
    ctx.rep.rule("R05.10", "replay of the real tree, seeded random histories (random times: dyadic, tenths, thirds; random "
                           "configuration of cache size, dt hint, tolerance, tree mode, Levy mode): every repeated query "
                           "returns its first answer; zero-length queries return zeros")
    _random_histories(ctx, "R05.10", ("repeatable", "zero-length"))


def r03_13(ctx):
    """C03 for the same seeded random histories: W additive and Chen's relation for U over the triples of each history."""
    ctx.rep.rule("R03.13", "replay, seeded random histories: W(s,t) = W(s,u) + W(u,t) and U(s,t) = U(s,u) + U(u,t) + (t-u) W(s,u) "
                           "for random triples asked in random order among other queries")
    _random_histories(ctx, "R03.13", ("chen",))


def r04_12(ctx):
    """C04 for the same seeded random histories: the joint covariance of all first answers (W and U of every distinct interval
    of the history) is that of Brownian motion and its time integral, from the definition."""
    ctx.rep.rule("R04.12", "replay, seeded random histories: the covariance of (W, U) over all the distinct intervals of a "
                           "history equals Brownian motion's, entry by entry (reference from the definition)")
    _random_histories(ctx, "R04.12", ("law",))
