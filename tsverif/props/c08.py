"""C08 -- sdeint is differentiable: backprop equals the numerical solution's derivative (DESIGN.md section C08)."""
import ast
import os

from .. import astq, nf
from ..errors import AnalysisError
from ..model import own_nodes, RepoModel
from ..nf import Rat
from . import integrate_kit as ik

SCOPE = ("torchsde._core.methods", "torchsde._core.base_sde", "torchsde._core.base_solver", "torchsde._core.interp",
         "torchsde._core.misc", "torchsde._core.adaptive_stepping", "torchsde._core.sdeint")
# functions of those modules that belong to the adjoint machinery (covered by C11 / C10), not to sdeint's forward path
ADJOINT_SIDE = ("AdjointReversibleHeun.",)

SEVER_METHODS = ("detach", "detach_", "item", "tolist", "numpy", "cpu_numpy")
SEVER_ATTRS = ("data",)

EXPLANATION = (
    "Gradient-flow lint of the forward value path of sdeint (solver steps, ForwardSDE / SDELogqp, the stepping loop, "
    "interpolation, misc helpers, parse_return), ast only. R08.1: every gradient-severing construct (.detach(), .data, "
    ".item(), .tolist(), .numpy(), float()/int() of a tensor expression, torch.tensor(x) re-wrapping, "
    "requires_grad_(False), torch.no_grad) is enumerated and must be one of the tabled idioms, recognised by shape: "
    "leafify-only-when-no-grad (`x if x.requires_grad else x.detach().requires_grad_(True)`), the mask position of "
    "torch.where, or step-size control (the error estimate under no_grad). Anything else is reported. R08.2: every "
    "internal autograd call (misc.vjp / misc.jvp / torch.autograd.grad) on the forward path sits under "
    "torch.enable_grad() with create_graph = the value of torch.is_grad_enabled() captured at function entry (or literal "
    "True for jvp's inner double-backward trick), and the helpers forward **kwargs to torch.autograd.grad. R08.3: the only "
    "no_grad region defines nothing but step-size control scalars, and (abstract evaluation of the loop) the accepted "
    "state depends on them only through the step's time arguments, which are non-differentiable by contract "
    "(assert_no_grad). The rule fires on a positive fixture on every run. Not decided: numerical gradient values."
)


def _in_scope(fi, scope=SCOPE):
    return any(fi.module.name.startswith(s) for s in scope) and not any(fi.qualname.startswith(a) for a in ADJOINT_SIDE)


def _is_leafify(fi, node, pm):
    """node is `X.detach()` inside `X if X.requires_grad else X.detach().requires_grad_(True)` (IfExp or list-comp
    element) -- or `if not X.requires_grad: X = X.detach().requires_grad_()`."""
    recv = ast.unparse(node.func.value)
    p = pm.get(node)
    # X.detach().requires_grad_(...)
    if not (isinstance(p, ast.Attribute) and p.attr == "requires_grad_"):
        return False
    call = pm.get(p)
    if not isinstance(call, ast.Call):
        return False
    if call.args and isinstance(call.args[0], ast.Constant) and call.args[0].value is False:
        return False
    up = pm.get(call)
    if isinstance(up, ast.IfExp) and up.orelse is call and ast.unparse(up.test) == f"{recv}.requires_grad" \
            and ast.unparse(up.body) == recv:
        return True
    for text, pol in astq.facts_at(fi, node):
        if text == f"{recv}.requires_grad" and pol is False:
            return True
    return False


def _in_where_mask(node, pm):
    cur, prev = pm.get(node), node
    while cur is not None and not isinstance(cur, ast.stmt):
        if isinstance(cur, ast.Call) and astq.call_name(cur) == "torch.where" and cur.args and \
                any(x is prev or any(y is prev for y in ast.walk(x)) for x in cur.args[:1]):
            return True
        prev, cur = cur, pm.get(cur)
    return False


def sever_scan(model, scope=SCOPE):
    """[(fi, node, kind, ok, reason)]"""
    out = []
    for fi in model.functions.values():
        if isinstance(fi.node, ast.Lambda) or not _in_scope(fi, scope):
            continue
        pm = astq.parent_map(fi.node)
        under_no_grad = lambda n: any(c.startswith("torch.no_grad") for c in astq.with_contexts(fi, n))  # noqa: E731
        for d in fi.decorators:
            if "no_grad" in d:
                out.append((fi, fi.node, f"decorator @{d}", False, None))
        def in_message(n):
            """Inside a `raise` statement or a warning / log call: the value is text for a human and goes nowhere else."""
            cur = pm.get(n)
            while cur is not None:
                if isinstance(cur, ast.Raise):
                    return True
                if isinstance(cur, ast.Call) and (astq.call_name(cur) or "").split(".")[-1] in ("warn", "warning", "info", "debug"):
                    return True
                if isinstance(cur, ast.stmt):
                    return False
                cur = pm.get(cur)
            return False
        for n in own_nodes(fi.node):
            if isinstance(n, (ast.Call, ast.Attribute)) and in_message(n):
                continue
            if isinstance(n, ast.Call) and isinstance(n.func, ast.Attribute) and n.func.attr in SEVER_METHODS:
                kind = f"`{ast.unparse(n)[:60]}`"
                if n.func.attr == "detach" and _is_leafify(fi, n, pm):
                    out.append((fi, n, kind, True, "leafify-only-when-no-grad: taken only when the tensor carries no graph"))
                elif n.func.attr == "detach" and _in_where_mask(n, pm):
                    out.append((fi, n, kind, True, "mask position of torch.where: only selects, values keep their graph"))
                elif fi.name in ("compute_error",) or under_no_grad(n):
                    out.append((fi, n, kind, True, "step-size control scalar (error estimate), see R08.3"))
                else:
                    out.append((fi, n, kind, False, None))
            elif isinstance(n, ast.Attribute) and isinstance(n.ctx, ast.Load) and n.attr in SEVER_ATTRS:
                out.append((fi, n, f"`{ast.unparse(n)[:60]}`", False, None))
            elif isinstance(n, ast.Call) and isinstance(n.func, ast.Attribute) and n.func.attr == "requires_grad_" \
                    and n.args and isinstance(n.args[0], ast.Constant) and n.args[0].value is False:
                out.append((fi, n, f"`{ast.unparse(n)[:60]}`", False, None))
            elif isinstance(n, ast.Call) and isinstance(n.func, ast.Name) and n.func.id in ("float", "int") and n.args \
                    and not isinstance(n.args[0], ast.Constant):
                arg = n.args[0]
                harmless = isinstance(arg, ast.Call) and astq.call_name(arg) in ("len", "round") or fi.name == "__repr__"
                if not harmless:
                    out.append((fi, n, f"`{ast.unparse(n)[:60]}` (tensor -> Python number)", False, None))
            elif isinstance(n, ast.Call) and astq.call_name(n) in ("torch.tensor", "torch.as_tensor", "torch.from_numpy") \
                    and n.args and not isinstance(n.args[0], (ast.List, ast.Constant, ast.Tuple)):
                tabled = fi.name == "check_contract" and ast.unparse(n.args[0]) == "ts"
                out.append((fi, n, f"`{ast.unparse(n)[:60]}` (re-wraps a value)", tabled,
                            "tabled: converts the list of output times, which are non-differentiable by contract" if tabled else None))
            elif isinstance(n, ast.With):
                for item in n.items:
                    t = ast.unparse(item.context_expr)
                    if t.startswith("torch.no_grad") or t.startswith("torch.inference_mode") or \
                            t.startswith("torch.set_grad_enabled(False"):
                        ok = fi.qualname.endswith("BaseSDESolver.integrate") and _control_only(fi, n)
                        out.append((fi, n, f"`with {t}:`", ok,
                                    "defines step-size control scalars only (R08.3)" if ok else None))
    return out


def _control_only(fi, with_node):
    """The no_grad block only calls the error estimator / controller and binds their results."""
    for s in with_node.body:
        if not isinstance(s, ast.Assign) or not isinstance(s.value, ast.Call):
            return False
        if not astq.call_name(s.value).endswith(("compute_error", "update_step_size")):
            return False
    return True


def r08_1(ctx):
    rep, model = ctx.rep, ctx.model
    rep.rule("R08.1", "every gradient-severing construct on the forward value path is a tabled idiom")
    for fi, node, kind, ok, reason in sever_scan(model):
        rep.analysed(fi)
        rep.check(ok, "R08.1", astq.loc(fi, node), f"{fi.key}::R08.1::{astq.digest(node) if node is not fi.node else 'decorator'}",
                  f"{fi.qualname}: {kind} cuts the autograd graph on sdeint's value path and is not one of the admissible "
                  f"idioms (leafify-only-when-no-grad, torch.where mask, step-size control): gradients of the returned "
                  f"solution would silently miss a contribution", reason or "")
    from ..report import VERIF_DIR
    fx = os.path.join(VERIF_DIR, "fixtures", "c08_bad")
    fm = RepoModel(fx)
    bad = [x for x in sever_scan(fm, scope=("torchsde._core",)) if not x[3]]
    bad2 = [x for x in autograd_scan(fm, scope=("torchsde._core",)) if not x[3]]
    if len(bad) < 4 or len(bad2) < 2:
        raise AnalysisError(f"positive fixture {fx} yields {len(bad)} severing and {len(bad2)} create_graph findings "
                            f"(expected >= 4 and >= 2): rule R08.1 / R08.2 is broken")
    rep.extra["fixture_findings"] = {"R08.1": len(bad), "R08.2": len(bad2)}
    ctx.floor("R08.1", 8)


def autograd_scan(model, scope=SCOPE):
    """[(fi, call, description, ok, reason)] for misc.vjp / misc.jvp / torch.autograd.grad calls."""
    out = []
    for fi in model.functions.values():
        if isinstance(fi.node, ast.Lambda) or not _in_scope(fi, scope):
            continue
        for c in astq.calls(fi):
            nm = astq.call_name(c)
            if not (nm in ("misc.vjp", "misc.jvp", "torch.autograd.grad", "vjp", "jvp", "autograd.grad")
                    or nm.endswith("autograd.functional.vjp") or nm.endswith("autograd.functional.jvp")):
                continue
            helper = fi.module.relpath.endswith("misc.py") and fi.name in ("vjp", "jvp")
            cg = astq.kwarg(c, "create_graph")
            star = [k for k in c.keywords if k.arg is None]
            if helper:
                # the helpers themselves: forward **kwargs, or literal create_graph=True for the double-backward trick
                if star and ast.unparse(star[0].value) == (fi.node.args.kwarg.arg if fi.node.args.kwarg else "?"):
                    out.append((fi, c, f"`{nm}(..., **kwargs)`", True, "forwards the caller's create_graph / allow_unused"))
                elif cg is not None and isinstance(cg, ast.Constant) and cg.value is True:
                    out.append((fi, c, f"`{nm}(..., create_graph=True)`", True,
                                "inner gradient of the double-backward JVP trick: must stay differentiable"))
                else:
                    out.append((fi, c, f"`{ast.unparse(c)[:70]}`", False, None))
                continue
            if cg is None:
                out.append((fi, c, f"`{ast.unparse(c)[:70]}` has no create_graph argument", False, None))
                continue
            ok_val = False
            why = None
            if isinstance(cg, ast.Constant) and cg.value is True:
                ok_val, why = True, "create_graph=True"
            elif isinstance(cg, ast.Name):
                src = astq.resolve_alias(fi, cg)
                if isinstance(src, ast.Call) and ast.unparse(src) == "torch.is_grad_enabled()":
                    # captured before entering enable_grad
                    stmt = astq.stmt_of(fi, src)
                    if stmt is not None and not any(x.startswith("torch.enable_grad") for x in astq.with_contexts(fi, stmt)):
                        ok_val, why = True, f"create_graph={cg.id} = torch.is_grad_enabled() captured at entry"
            under_enable = any(x.startswith("torch.enable_grad") for x in astq.with_contexts(fi, c))
            ok = ok_val and under_enable
            desc = f"`{ast.unparse(c)[:60]}...`"
            if not ok_val:
                desc += f": create_graph=`{ast.unparse(cg)}` is not the grad mode captured at function entry"
            elif not under_enable:
                desc += ": not under torch.enable_grad()"
            out.append((fi, c, desc, ok, why))
    return out


def r08_2(ctx):
    rep, model = ctx.rep, ctx.model
    rep.rule("R08.2", "internal autograd calls keep the graph when grad is enabled (create_graph = captured grad mode), "
                      "under enable_grad; helpers forward **kwargs")
    for fi, c, desc, ok, reason in autograd_scan(model):
        rep.analysed(fi)
        rep.check(ok, "R08.2", astq.loc(fi, c), f"{fi.key}::R08.2::{astq.digest(c)}",
                  f"{fi.qualname}: {desc}: with gradients enabled the internally differentiated term (Milstein g dg, "
                  f"Levy-area Jacobian) would be treated as a constant by backprop", reason or "")
    ctx.floor("R08.2", 7)


def r08_3(ctx):
    rep, model = ctx.rep, ctx.model
    rep.rule("R08.3", "quantities computed under no_grad reach the accepted state only through the step's time arguments")
    fi, prologue, for_node, while_node, tail, epilogue = ik.loop_structure(model)
    rep.analysed(fi)
    n = 0
    for p in ik.enumerate_paths(model, True, while_node.body):
        for ta, tb, y, e, node in p.steps:
            n += 1
            bad = [a for a in nf.all_atoms(y) | (nf.all_atoms(e) if isinstance(e, Rat) else set())
                   if (a[0] == "fn" and a[1] == "ERR") or (a[0] == "s" and str(a[1]).startswith(("NEW_STEP", "NEW_RATIO")))]
            # state arguments of a step may contain earlier steps (whose *time* keys contain control scalars): decode keys
            rep.check(not _state_depends_on_control(y) and not _state_depends_on_control(e), "R08.3", astq.loc(fi, node),
                      f"{fi.key}::R08.3::{p.label()}::{astq.digest(node)}",
                      f"`{ast.unparse(node)}`: the state / extra argument depends on a step-size control scalar computed "
                      f"under no_grad other than through step times", "control scalars enter through times only")
    if n < 6:
        raise AnalysisError("R08.3: fewer than 6 step calls on the adaptive paths")
    ctx.floor("R08.3", 6)


def _state_depends_on_control(v):
    """True if a control atom occurs in the value position (not merely inside the time arguments of STEP atoms)."""
    if isinstance(v, (tuple, list)):
        return any(_state_depends_on_control(x) for x in v)
    if not isinstance(v, Rat):
        return False
    for a in v.atoms():
        if a[0] == "fn" and a[1] in ("STEP_Y", "STEP_E"):
            # args: ta, tb, y, e -- look inside y and e only
            for k in a[4:]:
                if isinstance(k, tuple) and k and k[0] == "rat":
                    if _state_depends_on_control(nf.key_to_rat(k)):
                        return True
                elif isinstance(k, tuple) and k and k[0] == "tuple":
                    for z in k[1:]:
                        if z[0] == "rat" and _state_depends_on_control(nf.key_to_rat(z)):
                            return True
        elif a[0] == "fn" and a[1] == "ERR":
            return True
        elif a[0] == "s" and str(a[1]).startswith(("NEW_STEP", "NEW_RATIO")):
            return True
    return False


def run(ctx):
    ctx.guard(r08_1)
    ctx.guard(r08_2)
    ctx.guard(r08_3)


_run_before_r09_8 = run


def run(ctx):
    _run_before_r09_8(ctx)
    # the entry points make their solver calls in the caller's autograd mode (for reversible Heun the initial solver state
    # is computed outside the adjoint Function and only its ordinary autograd graph carries its cotangents to the parameters)
    from . import c09
    ctx.guard(c09.r09_8)
