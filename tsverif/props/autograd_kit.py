"""Abstract model of autograd as used by ``torchsde/_core/misc.py``.

Instead of treating ``misc.vjp`` / ``misc.jvp`` as opaque, their bodies are evaluated and only ``torch.autograd.grad`` is
given a meaning:

  grad(outputs, inputs, grad_outputs=go)            -> [ sum_j VJP[o_j, i](go_j)  for i in inputs ]
  the double-backward trick of misc.jvp:
      dummies = zeros_like(o, requires_grad=True)   -> fresh symbols DUMMY#k
      v = grad(outputs, inputs, grad_outputs=dummies)           (linear in the dummies)
      grad(v, dummies, grad_outputs=tangents)       -> [ sum_j JVP[o_k, i_j](tangent_j)  for each dummy k ]

so that what the helpers *return* (a list, one entry per input / output; zeros for unused inputs) is read from their
source.  ``VJP`` / ``JVP`` are opaque maps, linear in their last argument and keyed by (outputs, inputs)."""
from fractions import Fraction

from .. import astq, nf
from ..errors import AnalysisError
from ..nf import Rat

MISC = "torchsde/_core/misc.py"


class AutogradModel:
    """Mixin for Hooks classes.  Call `ag_external_call`, `ag_tensor_attr` first in the corresponding hook methods."""

    def ag_init(self):
        self._n_dummies = 0
        self.grad_calls = []         # (outputs, inputs, grad_outputs, kwargs, node, fi, result)

    # -- helpers ---------------------------------------------------------------------------------------------------
    @staticmethod
    def _is_dummy(x):
        return isinstance(x, Rat) and x.is_poly() and len(x.num.terms) == 1 and \
            any(a[0] == "t" and a[1].startswith("DUMMY#") for a in x.atoms()) and len(x.atoms()) == 1

    def ag_tensor_attr(self, interp, recv, name, node, fi):
        if name == "requires_grad" and fi is not None and fi.module.relpath == MISC:
            # inside the helpers: everything handed to them was computed with a graph (whether that is true at the call
            # site is tracked separately, by the grad-mode bookkeeping of the rules)
            return True
        return NotImplemented

    def ag_external_call(self, interp, dotted, args, kwargs, node, fi):
        if dotted == "torch.is_tensor":
            return isinstance(args[0], Rat) or (isinstance(args[0], (Fraction, int, float)) and not isinstance(args[0], bool))
        if dotted == "torch.as_strided":
            return args[0]
        if dotted == "torch.zeros_like":
            if kwargs.get("requires_grad"):
                self._n_dummies += 1
                return nf.sym(f"DUMMY#{self._n_dummies}")
            return Rat.const(0)
        if dotted == "torch.autograd.grad":
            return self._grad(interp, args, kwargs, node, fi)
        return NotImplemented

    def _grad(self, interp, args, kwargs, node, fi):
        a = list(args)
        outputs = kwargs.get("outputs", a[0] if a else None)
        inputs = kwargs.get("inputs", a[1] if len(a) > 1 else None)
        go = kwargs.get("grad_outputs", a[2] if len(a) > 2 else None)
        outs = list(outputs) if isinstance(outputs, (list, tuple)) else [outputs]
        ins = list(inputs) if isinstance(inputs, (list, tuple)) else [inputs]
        gos = list(go) if isinstance(go, (list, tuple)) else ([go] * len(outs) if go is not None else [None] * len(outs))
        where = astq.loc(fi, node) if fi is not None else ""
        if len(gos) != len(outs):
            raise AnalysisError(f"torch.autograd.grad: {len(outs)} outputs but {len(gos)} grad_outputs", where=where)
        if not all(isinstance(o, (Rat, Fraction, int)) for o in outs) or not all(isinstance(i, Rat) for i in ins):
            raise AnalysisError("torch.autograd.grad on values outside the model", where=where)
        if ins and all(self._is_dummy(i) for i in ins):
            res = []
            for d in ins:
                datom = next(iter(d.atoms()))
                total = Rat.const(0)
                for o, g in zip(outs, gos):
                    total = total + self._d_wrt_dummy(Rat.lift(o), datom, g, where)
                res.append(total)
        else:
            res = []
            for i in ins:
                total = Rat.const(0)
                for o, g in zip(outs, gos):
                    o = Rat.lift(o)
                    if o.is_zero():
                        continue
                    total = total + nf.linear("VJP", (o.key(), i.key()), Rat.lift(g) if g is not None else Rat.const(1))
                res.append(total)
        self.grad_calls.append((outs, ins, gos, dict(kwargs), node, fi, res))
        return tuple(res)

    @staticmethod
    def _d_wrt_dummy(o, datom, tangent, where):
        """d(o)/d(dummy) . tangent for o a sum of terms  c * VJP[out, in](dummy)."""
        o = nf.reduce_sqrt(o)
        total = Rat.const(0)
        dkey = nf.mono_key(((datom, 1),))
        for m, c in o.num.terms.items():
            hit = [(a, e) for a, e in m if a[0] == "lin" and a[1] == "VJP" and a[3] == dkey]
            if not hit:
                if any(datom in nf.all_atoms(Rat.atom(a)) for a, e in m):
                    raise AnalysisError("torch.autograd.grad: the differentiated value is not linear in the dummy cotangent",
                                        where=where)
                continue
            if len(hit) != 1 or hit[0][1] != 1:
                raise AnalysisError("torch.autograd.grad: the differentiated value is not linear in the dummy cotangent",
                                    where=where)
            atom = hit[0][0]
            coef = Rat(nf.Poly({tuple((x, e) for x, e in m if x != atom): c}), o.den)
            if tangent is None:
                raise AnalysisError("torch.autograd.grad: second-stage call without grad_outputs", where=where)
            total = total + coef * nf.linear("JVP", atom[2], Rat.lift(tangent))
        return total
