"""Small-model replay of the Brownian interval tree (C03 / C04 / C05 / C06).

The repository's own constructor, `__call__`, tree search (`_loc`, through the trampoline), splitting and bridge
formulas are evaluated by the abstract evaluator on *concrete rational times* with *symbolic Gaussian noise*: every
`_randn(seed)` is the atom NOISE[SEED[entropy, key, pool, n, i], size], an independent unit normal.  Nothing of the tree
is mocked.  What a query returns is then an exact linear form in finitely many independent unit normals, so

  * two answers are the same random variable  iff  their canonical forms coincide (C05 repeatability, C06 determinism
    and order independence, C03 additivity / Chen as polynomial identities), and
  * variances and covariances are exact rationals: sum of products of coefficients (C04, the law itself).

This is still analysis of the source (the evaluator interprets the syntax tree; the library is never imported or run);
what it adds to the per-function rules is the interplay of the pieces over a history of queries -- the cache, the
`_last_interval` hint, the dependency tree, re-splitting, rounding -- for the configurations enumerated by the rules.
"""
from fractions import Fraction

from .. import nf
from ..errors import AnalysisError
from ..interp import Interp, Obj, SimRaise
from ..nf import Rat
from . import brownian_kit as bk

BI = bk.BI
F = Fraction
SIZE_LIMIT = 20000         # terms of one canonical form; the unchanged tree stays below a tenth of it (largest: 1506, R03.11 thorough)


class Config:
    def __init__(self, t0=F(0), t1=F(1), tol=F(0), halfway=False, cache_size=F(45), dt=None, levy="space-time",
                 entropy="ENTROPY", pool="POOL", W=None, H=None):
        self.t0, self.t1, self.tol, self.halfway, self.cache_size, self.dt = t0, t1, tol, halfway, cache_size, dt
        self.levy, self.entropy, self.pool, self.W, self.H = levy, entropy, pool, W, H

    def label(self):
        bits = [f"[{self.t0},{self.t1}]", f"levy={self.levy}"]
        if self.tol:
            bits.append(f"tol={self.tol}")
        if self.halfway:
            bits.append("halfway_tree")
        if self.cache_size != 45:
            bits.append(f"cache_size={self.cache_size}")
        if self.dt is not None:
            bits.append(f"dt={self.dt}")
        return " ".join(bits)


_NOISE_NAMES = {}        # canonical (seed, size) -> short tensor symbol; process-wide, so that sessions can be compared


class ReplayHooks(bk.BrownianHooks):
    """As BrownianHooks, with every unit normal NOISE[SEED[...], size] interned as a short tensor symbol N<k> (the canonical
    forms of a replay are linear forms over a few dozen normals; nested atoms would be re-hashed at every operation)."""

    def on_call(self, interp, callee, args, kwargs, node, fi):
        r = bk.BrownianHooks.on_call(self, interp, callee, args, kwargs, node, fi)
        if isinstance(r, Rat) and self.randn_calls and getattr(callee, "fi", None) is not None and callee.fi.name == "_randn":
            key = repr(r)
            name = _NOISE_NAMES.get(key)
            if name is None:
                name = _NOISE_NAMES[key] = f"N{len(_NOISE_NAMES)}"
            return nf.sym(name)
        return r


def noise_name_table():
    return {v: k for k, v in _NOISE_NAMES.items()}


class Session:
    """One process: module-level state of the package persists between the objects built in it."""

    def __init__(self, model):
        self.model = model
        self.hooks = ReplayHooks({})
        self.it = Interp(model, self.hooks)
        self.it.max_loop = 4096             # concrete loops over tree pieces / levels, not abstract ones
        self.it.size_limit = SIZE_LIMIT
        self.init = model.func(BI, "BrownianInterval.__init__")
        self.call = model.func(BI, "BrownianInterval.__call__")
        self.bcls = model.cls(BI, "BrownianInterval")

    def build(self, cfg):
        me = Obj("bm", cls=self.bcls)
        kwargs = dict(t0=cfg.t0, t1=cfg.t1, size=bk.SIZE, entropy=nf.sym(cfg.entropy, True), tol=cfg.tol,
                      pool_size=nf.sym(cfg.pool, True), halfway_tree=cfg.halfway, levy_area_approximation=cfg.levy,
                      W=cfg.W, H=cfg.H, dt=cfg.dt, cache_size=cfg.cache_size)
        self.it.call_function(self.init, [me], kwargs)
        return me

    def query(self, me, ta, tb, return_U=False, return_A=False):
        out = self.it.call_function(self.call, [me, ta, tb], {"return_U": return_U, "return_A": return_A})
        return out


def replay(model, cfg, queries, return_U=True, return_A=False, session=None):
    """Answers, in order, of the queries [(ta, tb), ...] on one fresh object."""
    s = session or Session(model)
    me = s.build(cfg)
    out = []
    for ta, tb in queries:
        out.append(s.query(me, ta, tb, return_U=return_U, return_A=return_A))
    return out, me, s


def same(a, b):
    if isinstance(a, (tuple, list)) or isinstance(b, (tuple, list)):
        return isinstance(a, (tuple, list)) and isinstance(b, (tuple, list)) and len(a) == len(b) and \
            all(same(x, y) for x, y in zip(a, b))
    if a is None or b is None:
        return a is b
    return nf.equal(Rat.lift(a), Rat.lift(b))


def unit_normals(*xs):
    names = set(_NOISE_NAMES.values())
    atoms = set()
    for x in xs:
        if isinstance(x, Rat):
            atoms |= {a for a in nf.all_atoms(x) if a[0] == "t" and a[1] in names}
            atoms |= set(bk.noise_atoms(x))
    return sorted(atoms, key=repr)


def cov(x, y):
    """Exact covariance of two linear forms in independent unit normals (one component of the sample)."""
    x, y = nf.reduce_sqrt(Rat.lift(x)), nf.reduce_sqrt(Rat.lift(y))
    tot = Rat.const(0)
    for a in unit_normals(x, y):
        tot = tot + nf.coefficient_of(x, a) * nf.coefficient_of(y, a)
    return nf.reduce_sqrt(tot)


def is_linear(x):
    atoms = unit_normals(x)
    x = nf.reduce_sqrt(Rat.lift(x))
    for m in x.num.terms:
        if sum(e for a, e in m if a in atoms) != 1:
            return False
    return not (x.den.atoms() & set(atoms))
