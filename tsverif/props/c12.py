"""C12 -- outputs lie on one dt-grid trajectory: interpolation and output-time invariance (DESIGN.md section C12)."""
import ast
import itertools
from fractions import Fraction

from .. import astq, nf
from ..errors import AnalysisError
from ..interp import Cat, Interp, Obj
from ..nf import Rat
from . import integrate_kit as ik

INTERP = "torchsde/_core/interp.py"
SDEINT = "torchsde/_core/sdeint.py"

EXPLANATION = (
    "BaseSDESolver.integrate is evaluated abstractly (ast only): one generic iteration of the stepping loop per branch "
    "combination from a loop-head state of fresh symbols, with self.step opaque. R12.1 non-interference: the output "
    "time symbol occurs in no argument of self.step and in no carried variable (explicit flows), so moving, adding or "
    "removing output times cannot change the grid. R12.2: the step end is min(curr_t + step_size, ts[-1]) and the "
    "fixed-step arm never changes step_size; the stepping loop continues exactly while curr_t < out_t (truth table). "
    "R12.3: ys starts as [y0] (the parameter), grows by exactly one per output time, is stacked on dim 0. R12.4: the "
    "appended value equals prev_y + (out_t - prev_t)/(curr_t - prev_t) (curr_y - prev_y) as a polynomial identity "
    "(linear_interp inlined), and on every advancing path prev_* is the loop-head curr_* (the previous grid state). "
    "R12.5: a list/tuple ts is converted with y0's dtype and device. Not decided: bit-level equality."
)


def _paths(ctx, adaptive):
    key = ("paths", adaptive)
    if key not in ctx._cache:
        fi, prologue, for_node, while_node, tail, epilogue = ik.loop_structure(ctx.model)
        ctx._cache[key] = ik.enumerate_paths(ctx.model, adaptive, while_node.body)
    return ctx._cache[key]


def _has_atom(v, atom):
    if isinstance(v, (tuple, list)):
        return any(_has_atom(x, atom) for x in v)
    if isinstance(v, Rat):
        return atom in nf.all_atoms(v)
    return False


def r12_1(ctx):
    rep, model = ctx.rep, ctx.model
    rep.rule("R12.1", "the requested output time never flows (explicitly) into a step argument or a carried variable")
    fi = ik._integrate(model)
    rep.analysed(fi)
    out_atom = ("s", "out_t")
    loop_var = ast.unparse(ik.loop_structure(model)[2].target)
    for adaptive in (False, True):
        for p in _paths(ctx, adaptive):
            base = f"{fi.key}::R12.1::{'adaptive' if adaptive else 'fixed'}::{p.label()}"
            for ta, tb, y, e, node in p.steps:
                bad = [n for n, v in (("start time", ta), ("end time", tb), ("state", y), ("extra", e))
                       if _has_atom(v, out_atom)]
                rep.check(not bad, "R12.1", astq.loc(fi, node), f"{base}::step::{astq.digest(node)}",
                          f"`{ast.unparse(node)}`: the output time out_t flows into the step's {bad}: the solver steps "
                          f"to (or depending on) the requested output times instead of staying on the dt grid",
                          "independent of out_t")
            # implicit flow: a branch inside the stepping loop whose test reads the output time decides what is stepped
            for text, d in p.decisions:
                try:
                    names = {n.id for n in ast.walk(ast.parse(text, mode="eval")) if isinstance(n, ast.Name)}
                except SyntaxError:
                    names = set()
                rep.check(loop_var not in names, "R12.1", astq.loc(fi), f"{base}::branch::{text}",
                          f"a branch inside the stepping loop tests `{text}`, which reads the output time `{loop_var}`: the "
                          f"steps taken depend on the requested output times (implicit flow)", "branch independent of out_t")
            for name in ik.CARRIED:
                v = p.env.get(name)
                rep.check(not _has_atom(v, out_atom), "R12.1", astq.loc(fi), f"{base}::carried::{name}",
                          f"loop-carried `{name}` = `{v}` depends on the output time out_t on path [{p.label()}]",
                          "independent of out_t")
    ctx.floor("R12.1", 16)


def _truth_table_while(test, names):
    """Evaluate a loop test over the three orderings of (curr_t, out_t)."""
    out = {}
    for rel, (c, o) in (("<", (1, 2)), ("=", (2, 2)), (">", (3, 2))):
        env = {names[0]: c, names[1]: o}
        out[rel] = bool(_concrete(test, env))
    return out


def _concrete(e, env):
    if isinstance(e, ast.Constant):
        return e.value
    d = astq.dotted(e)
    if d is not None:
        if d in env:
            return env[d]
        raise AnalysisError(f"truth table: unexpected name `{d}` in `{ast.unparse(e)}`")
    if isinstance(e, ast.UnaryOp) and isinstance(e.op, ast.Not):
        return not _concrete(e.operand, env)
    if isinstance(e, ast.BoolOp):
        vals = [_concrete(v, env) for v in e.values]
        return all(vals) if isinstance(e.op, ast.And) else any(vals)
    if isinstance(e, ast.Compare):
        left = _concrete(e.left, env)
        for op, r in zip(e.ops, e.comparators):
            right = _concrete(r, env)
            ok = {ast.Lt: left < right, ast.LtE: left <= right, ast.Gt: left > right, ast.GtE: left >= right,
                  ast.Eq: left == right, ast.NotEq: left != right}.get(type(op))
            if ok is None:
                raise AnalysisError(f"truth table: unsupported comparison in `{ast.unparse(e)}`")
            if not ok:
                return False
            left = right
        return True
    if isinstance(e, ast.BinOp) and isinstance(e.op, (ast.Add, ast.Sub, ast.Mult)):
        l, r = _concrete(e.left, env), _concrete(e.right, env)
        return l + r if isinstance(e.op, ast.Add) else l - r if isinstance(e.op, ast.Sub) else l * r
    raise AnalysisError(f"truth table: unsupported expression `{ast.unparse(e)}`")


def r12_2(ctx):
    rep, model = ctx.rep, ctx.model
    rep.rule("R12.2", "step end = min(curr_t + step_size, ts[-1]); fixed-step arm keeps step_size; stepping loop runs "
                      "exactly while curr_t < out_t")
    fi, prologue, for_node, while_node, tail, epilogue = ik.loop_structure(model)
    ref_end = nf.fn("min", *sorted([ik.H("curr_t") + ik.H("step_size"), nf.sym("ts[-1]", True)],
                                   key=lambda v: repr(Rat.lift(v).key())))
    t_end = nf.sym("ts[-1]", True)
    # a fixed-step grid may be indexed (ts[0] + k dt with a step counter k) instead of accumulated: under the counter's
    # inductive hypothesis both are the same grid
    counters = ik.step_counters(model)
    for adaptive in (False, True):
        for p in _paths(ctx, adaptive):
            base = f"{fi.key}::R12.2::{'adaptive' if adaptive else 'fixed'}::{p.label()}"
            if counters and not adaptive:
                p.steps = [tuple(nf.deep_substitute(x, counters) if isinstance(x, Rat) else x for x in st[:2]) + tuple(st[2:])
                           for st in p.steps]
                for k in list(p.env):
                    if isinstance(p.env[k], Rat):
                        p.env[k] = nf.deep_substitute(p.env[k], counters)
            if not p.steps:
                rep.fail("R12.2", astq.loc(fi, while_node), f"{base}::no-step",
                         f"an iteration of the stepping loop takes no step on path [{p.label()}]")
                continue
            # the step that defines the trial interval is the one starting at curr_t@head with the largest span: all
            # first-level steps must end at ref_end or at the midpoint of [curr_t, ref_end]
            ends = [tb for ta, tb, y, e, n in p.steps]
            full = [tb for ta, tb, y, e, n in p.steps if nf.equal(tb, ref_end)]
            if not full:
                # the clip spelled with a branch (`if next_t > ts[-1]: next_t = ts[-1]`): on each arm min(.,.) is the
                # operand the arm's own comparison selects
                arm = ik.min_on_path(ik.H("curr_t") + ik.H("step_size"), t_end, getattr(p, "facts", []))
                if arm is not None:
                    full = [tb for ta, tb, y, e, n in p.steps if nf.equal(tb, arm) and nf.equal(ta, ik.H("curr_t"))]
            # the end of the horizon itself is the other admissible step end (a remainder of rounding-error size merged
            # into the last step); *when* the code may choose it is pinned down by the exact-arithmetic models of
            # R12.7 / R15.3, and R12.1 keeps the output times out of the decision
            snapped = [tb for ta, tb, y, e, n in p.steps if nf.equal(tb, t_end) and nf.equal(ta, ik.H("curr_t"))]
            trial_end = (full[0] if full else (t_end if snapped else None))
            rep.check(trial_end is not None, "R12.2", astq.loc(fi, p.steps[0][4]), f"{base}::step-end",
                      f"no step of the iteration ends at min(curr_t + step_size, ts[-1]) = `{ref_end}` (or at ts[-1] "
                      f"itself); step ends are {[str(x) for x in ends]}: the grid is not ts[0] + k dt clipped to ts[-1]",
                      "trial interval ends at min(curr_t + step_size, ts[-1])")
            if trial_end is None:
                continue
            if not adaptive:
                ss = p.env["step_size"]
                rep.check(nf.equal(ss, ik.H("step_size")), "R12.2", astq.loc(fi), f"{base}::step-size-const",
                          f"the fixed-step arm changes step_size to `{ss}`", "step_size unchanged")
                ct = p.env["curr_t"]
                rep.check(nf.equal(ct, trial_end), "R12.2", astq.loc(fi), f"{base}::advance",
                          f"the fixed-step arm advances curr_t to `{ct}`, not to the end `{trial_end}` of the step it took",
                          "curr_t advances to the step end")
    # the stepping loop's continuation test
    test = while_node.test
    names = sorted(astq.names_loaded(test))
    construct = f"{fi.key}::R12.2::while-test"
    loop_var = "out_t"          # role name (integrate's locals are canonicalised by role)
    try:
        tt = _truth_table_while(test, ("curr_t", loop_var))
        ok = tt == {"<": True, "=": False, ">": False}
        rep.check(ok, "R12.2", astq.loc(fi, while_node), construct,
                  f"stepping loop continues while `{ast.unparse(test)}` (truth table over curr_t <,=,> out_t: {tt}); it "
                  f"must run exactly while curr_t < out_t (else an output time is overshot without a grid state on "
                  f"either side, or the last zero-length step repeats forever)", "runs exactly while curr_t < out_t")
    except AnalysisError as e:
        rep.fail("R12.2", astq.loc(fi, while_node), construct,
                 f"stepping-loop test `{ast.unparse(test)}` is not a comparison of curr_t with the output time ({e})")
    ctx.floor("R12.2", 8)


def r12_3(ctx):
    rep, model = ctx.rep, ctx.model
    rep.rule("R12.3", "ys starts as [y0]; exactly one append per output time; stacked on dim 0; loop over ts[1:]")
    fi, prologue, for_node, while_node, tail, epilogue = ik.loop_structure(model)
    # prologue from the parameters
    p, hooks = ik.run_body(model, False, prologue, {}, env_override={k: None for k in ()})
    y0, extra0 = nf.sym("y0"), nf.sym("extra0")
    env = p.env
    ys = env.get("ys")
    buffer = ik.is_output_buffer(ys)
    writes = ik.output_writes(ys)
    ok = writes is not None and len(writes) == 1 and writes[0][0] == 0 and isinstance(writes[0][1], Rat) and nf.equal(writes[0][1], y0)
    if buffer:
        # a preallocated output tensor: its first axis must be the number of output times
        sizes = ys.attrs.get("sizes") or ()
        ok = ok and len(sizes) >= 1 and isinstance(sizes[0], Rat) and nf.equal(sizes[0], nf.sym("len(ts)", True))
        # ... and it must be a tensor of y0's dtype ("the result has ... y0's dtype whether ts is a tensor or a list"): one
        # allocated from ts, or in torch's default dtype, comes out in another dtype whenever those differ from y0's
        dt_ = ys.attrs.get("dtype")
        rep.check(dt_ == "y0.dtype", "R12.3", astq.loc(fi), f"{fi.key}::R12.3::ys-dtype",
                  f"the outputs are written into a tensor preallocated with dtype `{dt_ if dt_ is not None else 'the default dtype'}`, "
                  f"not y0's: with a ts tensor (or a default dtype) of another precision than y0 the result is not in y0's "
                  f"dtype and ys[0] is a rounded copy of y0", "allocated in y0's dtype")
    rep.check(ok, "R12.3", astq.loc(fi), f"{fi.key}::R12.3::ys-init",
              f"the outputs start as `{writes}`{' in a buffer of sizes ' + str(ys.attrs.get('sizes')) if buffer else ''}, not "
              f"[y0] (first axis len(ts)): ys[0] would not be y0 exactly", "ys = [y0]")
    init_ok = nf.equal(env["curr_t"], nf.sym("ts[0]", True)) and nf.equal(env["prev_t"], nf.sym("ts[0]", True)) \
        and ik._same(env["curr_y"], y0) and ik._same(env["prev_y"], y0) and ik._same(env["curr_extra"], extra0) \
        and nf.equal(env["step_size"], nf.sym("self.dt", True))
    rep.check(init_ok, "R12.3", astq.loc(fi), f"{fi.key}::R12.3::loop-init",
              f"loop state is initialised to curr_t={env['curr_t']}, prev_t={env['prev_t']}, curr_y={env['curr_y']}, "
              f"prev_y={env['prev_y']}, curr_extra={env['curr_extra']}, step_size={env['step_size']} instead of "
              f"(ts[0], ts[0], y0, y0, extra0, self.dt)", "starts from (ts[0], y0, extra0) with step self.dt")
    # the for loop iterates over ts[1:]
    it_ok = ast.unparse(for_node.iter) in ("ts[1:]", "enumerate(ts[1:], start=1)", "enumerate(ts[1:], 1)")
    rep.check(it_ok, "R12.3", astq.loc(fi, for_node), f"{fi.key}::R12.3::for-iter",
              f"output loop iterates over `{ast.unparse(for_node.iter)}`, not ts[1:]", "for out_t in ts[1:]")
    # tail: one append
    pt, _ = ik.run_body(model, False, tail, {})
    w2 = ik.output_writes(pt.env.get("ys"))
    one = w2 is not None and len(w2) == 2
    if one and buffer:
        # the slot written is the one that travels with the output time (k-th output time <-> row k)
        one = isinstance(w2[1][0], Rat) and nf.equal(w2[1][0], nf.sym("out_index", True))
    rep.check(one, "R12.3", astq.loc(fi, for_node), f"{fi.key}::R12.3::one-append",
              f"after the stepping loop the outputs grow by {len(w2) - 1 if w2 is not None else '?'} "
              f"entries per output time (must be exactly 1{', in the row of that output time' if buffer else ''})",
              "one append per output time")
    # epilogue
    ret = None
    from ..interp import _Return
    try:
        it = Interp(model, ik.LoopHooks({}))
        steps = []
        env2 = ik.head_env(ik.make_self(model, False, steps), *ik.make_ts(), style="buffer" if buffer else "list")
        it.exec_block(epilogue, env2, fi)
    except _Return as r:
        ret = r.value
    ok = isinstance(ret, tuple) and len(ret) == 2 and ik._same(ret[1], ik.H("curr_extra", False))
    if buffer:
        ok = ok and ret[0] is env2["ys"]
    else:
        ok = ok and isinstance(ret[0], Cat) and ret[0].kind == "stack" and ret[0].dim == 0 and len(ret[0].parts) == 1
    rep.check(ok, "R12.3", astq.loc(fi), f"{fi.key}::R12.3::return",
              f"integrate returns `{ret}`; expected (torch.stack(ys, dim=0), curr_extra)",
              "returns (stack(ys, dim=0), carried extra)")
    ctx.floor("R12.3", 5)


def _interp_reference(t0, y0, t1, y1, t):
    return y0 + (t - t0) / (t1 - t0) * (y1 - y0)


def r12_4(ctx, interpolant=True):
    """`interpolant=False` (used by C01): only the clauses about the loop state -- emitting an output leaves it alone and
    prev_* is the previous grid state -- and not the exact form of the value reported between two grid states."""
    rep, model = ctx.rep, ctx.model
    rep.rule("R12.4", "the value appended for an output time is the linear interpolant of (prev_t, prev_y) and "
                      "(curr_t, curr_y) at out_t, and prev_* is the previous accepted grid state")
    fi, prologue, for_node, while_node, tail, epilogue = ik.loop_structure(model)
    if interpolant:
        # linear_interp itself
        li = model.func(INTERP, "linear_interp")
        rep.analysed(li)
        # an output strictly inside the step: ta < tq < tb (the end point itself is R12.8's business)
        it = Interp(model, ik.LoopHooks({}, ordering={"ta": Fraction(1), "tq": Fraction(2), "tb": Fraction(4)}))
        a0, b0, a1, b1, tt = nf.sym("ta", True), nf.sym("ya"), nf.sym("tb", True), nf.sym("yb"), nf.sym("tq", True)
        val = it.call_function(li, [], {"t0": a0, "y0": b0, "t1": a1, "y1": b1, "t": tt})
        ref = _interp_reference(a0, b0, a1, b1, tt)
        rep.check(nf.equal(val, ref), "R12.4", astq.loc(li), f"{li.key}::R12.4::formula",
                  f"linear_interp returns `{val}`, which is not the linear interpolant `{ref}`",
                  "y0 + (t - t0)/(t1 - t0) (y1 - y0)")
    # the output stage of integrate, for an output time strictly inside the last step; every path through it
    inside = {"prev_t@head": Fraction(1), "out_t": Fraction(2), "curr_t@head": Fraction(4)}
    tail_paths = ik.enumerate_paths(model, False, list(tail), ordering=inside)
    ref2 = _interp_reference(ik.H("prev_t"), ik.H("prev_y", False), ik.H("curr_t"), ik.H("curr_y", False),
                             nf.sym("out_t", True))
    for pt in tail_paths:
        tag = "" if len(tail_paths) == 1 else f"::{pt.label()}"
        if interpolant:
            w2 = ik.output_writes(pt.env.get("ys"))
            if not (w2 is not None and len(w2) == 2):
                raise AnalysisError("R12.4: could not isolate the value appended per output time", where=astq.loc(fi))
            appended = w2[1][1]
            rep.check(isinstance(appended, Rat) and nf.equal(appended, ref2), "R12.4", astq.loc(fi, for_node),
                      f"{fi.key}::R12.4::appended{tag}",
                      f"the value appended for out_t is `{appended}`; the property requires the interpolant of the two "
                      f"neighbouring grid states `{ref2}`", "interpolant of (prev_t, prev_y), (curr_t, curr_y) at out_t")
        # the rest of the output-loop body only emits the output: it leaves every loop-carried variable unchanged, so the
        # inductive stamps (prev_y at prev_t, curr_y at curr_t) still hold when the next output time is processed
        for name in ik.CARRIED:
            v = pt.env.get(name)
            head = nf.sym(f"{name}@head", name in ("step_size", "prev_t", "curr_t", "prev_error_ratio"))
            rep.check(ik._same(v, head), "R12.4", astq.loc(fi, for_node), f"{fi.key}::R12.4::tail-preserves::{name}{tag}",
                      f"after an output is emitted `{name}` becomes `{v}`: the loop state must not change between the "
                      f"stepping loop and the next output time, or a second output inside the same step is interpolated "
                      f"from an inconsistent (time, state) pair", "unchanged by the output step")
    # prev pairing on every path
    for adaptive in (False, True):
        for p in _paths(ctx, adaptive):
            base = f"{fi.key}::R12.4::prev::{'adaptive' if adaptive else 'fixed'}::{p.label()}"
            advanced = not nf.equal(p.env["curr_t"], ik.H("curr_t")) or \
                not ik._same(p.env["curr_y"], ik.H("curr_y", False))
            if advanced:
                ok = nf.equal(p.env["prev_t"], ik.H("curr_t")) and ik._same(p.env["prev_y"], ik.H("curr_y", False))
                rep.check(ok, "R12.4", astq.loc(fi), base,
                          f"on advancing path [{p.label()}] prev_t=`{p.env['prev_t']}`, prev_y=`{p.env['prev_y']}` are "
                          f"not the loop-head (curr_t, curr_y): interpolation would not use the neighbouring grid state",
                          "prev_* := loop-head curr_* on advance")
            else:
                ok = nf.equal(p.env["prev_t"], ik.H("prev_t")) and ik._same(p.env["prev_y"], ik.H("prev_y", False))
                rep.check(ok, "R12.4", astq.loc(fi), base,
                          f"on non-advancing path [{p.label()}] prev_* changes although curr_* does not",
                          "prev_* unchanged when nothing advances")
    ctx.floor("R12.4", 12)


def _dtype_name(x):
    t = x if isinstance(x, str) else repr(x)
    for k in ("float64", "double"):
        if k in t:
            return "float64"
    return t


def r12_5(ctx):
    """A list / tuple `ts` reaches the solver as a tensor in y0's dtype, on y0's device, without having been rounded
    through another dtype on the way.  Decided by evaluating the validation phase of sdeint (C19's scenario) with a list and
    with a tuple of Python floats and following the dtype of the time tensor through every conversion: torch.tensor /
    as_tensor without `dtype=` create it in torch's *default* dtype (float32 unless the user changed it), `.to()`,
    `.type_as()`, `.double()` ... change it.  float64 on the way is harmless (Python floats are float64 values); the
    default dtype is not: float64 states would step on float32-rounded times."""
    from . import c19
    from ..interp import Intrinsic, Obj
    rep, model = ctx.rep, ctx.model
    rep.rule("R12.5", "a list / tuple ts reaches integrate as a tensor of y0's dtype on y0's device, and on the way it is "
                      "never held in torch's default dtype (or any dtype other than y0's or float64)")
    fi = model.func(SDEINT, "check_contract")
    rep.analysed(fi)

    def tracked(values, dtype, device, passed):
        seq = c19.TSeq(list(values))
        seq.attrs["dtype"], seq.attrs["device"] = dtype, device
        seq.passed = list(passed) + [dtype]

        def to(it, a, k, n, f):
            dt, dev = dtype, device
            for x in list(a) + [k[key] for key in sorted(k)]:
                if isinstance(x, Obj) and "dtype" in x.attrs:
                    dt, dev = x.attrs["dtype"], x.attrs.get("device", dev)
                elif x is None or isinstance(x, bool):
                    continue
                elif "device" in _dtype_name(x) or _dtype_name(x) in ("cpu", "cuda"):
                    dev = x
                else:
                    dt = x
            return tracked(values, dt, dev, seq.passed)
        seq.attrs["to"] = Intrinsic("to", to)
        seq.attrs["type_as"] = Intrinsic("type_as", to)
        seq.attrs["double"] = Intrinsic("double", lambda it, a, k, n, f: tracked(values, "torch.float64", device, seq.passed))
        seq.attrs["float"] = Intrinsic("float", lambda it, a, k, n, f: tracked(values, "torch.float32", device, seq.passed))
        return seq

    class H(c19.ContractHooks):
        def external_call(self, interp, dotted, args, kwargs, node, fi_):
            if dotted in ("torch.tensor", "torch.as_tensor") and args and isinstance(args[0], (list, tuple)) \
                    and all(isinstance(x, (Fraction, int)) and not isinstance(x, bool) for x in args[0]):
                return tracked(args[0], kwargs.get("dtype", "torch's default dtype"),
                               kwargs.get("device", "torch's default device"), [])
            return c19.ContractHooks.external_call(self, interp, dotted, args, kwargs, node, fi_)

    for kind, ts in (("list", [Fraction(0), Fraction(1, 3), Fraction(1)]), ("tuple", (Fraction(0), Fraction(1, 3), Fraction(1)))):
        y0 = c19.TObj((4, 3), "y0")
        y0.attrs["dtype"], y0.attrs["device"] = "y0.dtype", "y0.device"
        hooks = H()
        r = c19.eval_check_contract(model, y0=y0, ts=ts, method="euler", hooks=hooks)
        construct = f"{fi.key}::R12.5::ts-conversion::{kind}"
        if r[0] != "ok":
            rep.fail("R12.5", astq.loc(fi), construct, f"a {kind} `ts` is rejected: {r[1:]}")
            continue
        call = getattr(hooks, "integration_call", None)
        if call is None:
            raise AnalysisError("the validation phase no longer ends in solver.integrate / init_extra_solver_state",
                                where=astq.loc(fi))
        got = [x for x in call[1] + list(call[2].values()) if isinstance(x, c19.TSeq)]
        if call[0] == "init_extra_solver_state" or not got:
            # the time axis is the tensor whose first entry the solver is initialised at; look it up in sdeint's frame
            got = [x for x in call[1] + list(call[2].values()) if isinstance(x, c19.TSeq)]
        if not got or not hasattr(got[0], "passed"):
            # the first solver call may take ts[0] only: evaluate check_contract itself and read its returned ts
            it = Interp(model, H())
            out = it.call_function(fi, [c19.make_user_sde(), y0, ts,
                                        Obj("bm", attrs={"shape": (Fraction(4), Fraction(3)), "levy_area_approximation": "space-time"}),
                                        "euler", False, None, None, False], {})
            got = [x for x in out if isinstance(x, c19.TSeq)]
        if not got or not hasattr(got[0], "passed"):
            raise AnalysisError(f"R12.5: could not follow a {kind} `ts` to the tensor the solver receives",
                                where=astq.loc(fi))
        t = got[0]
        passed = [_dtype_name(d) for d in t.passed]
        ok = _dtype_name(t.attrs["dtype"]) == "y0.dtype" and _dtype_name(t.attrs["device"]) == "y0.device" \
            and all(d in ("y0.dtype", "float64") for d in passed)
        rep.check(ok, "R12.5", astq.loc(fi), construct,
                  f"a {kind} `ts` reaches the solver with dtype `{t.attrs['dtype']}` on `{t.attrs['device']}` after being "
                  f"held as {passed}: the result is not in y0's dtype / device for a list `ts`, or the times were rounded "
                  f"through a narrower dtype first (a float64 solve would step on float32 times)",
                  "created or converted straight into y0's dtype and device")
    ctx.floor("R12.5", 2)



# ------------------------------------------------------------------------------------------------ R12.8 float-exact end point
def _fx(e, env):
    """Evaluate an expression to a term, simplifying ONLY with identities that are exact in IEEE arithmetic for finite
    operands: a - a = 0, a / a = 1 (a != 0), 0 / a = 0, 0 * x = 0, 1 * x = x, x + 0 = x, x - 0 = x.  No distributivity,
    no re-association: `y0 + (y1 - y0)` stays as it is (it equals y1 only when the subtraction is exact)."""
    if isinstance(e, ast.Constant) and isinstance(e.value, (int, float)) and not isinstance(e.value, bool):
        return ("num", Fraction(e.value))
    if isinstance(e, ast.Name):
        if e.id not in env:
            raise AnalysisError(f"float-exact evaluation: unknown name `{e.id}`")
        return env[e.id]
    if isinstance(e, ast.UnaryOp) and isinstance(e.op, ast.USub):
        v = _fx(e.operand, env)
        return ("num", -v[1]) if v[0] == "num" else ("neg", v)
    if isinstance(e, ast.BinOp) and isinstance(e.op, (ast.Add, ast.Sub, ast.Mult, ast.Div)):
        a, b = _fx(e.left, env), _fx(e.right, env)
        zero, one = ("num", Fraction(0)), ("num", Fraction(1))
        if a[0] == "num" and b[0] == "num" and not (isinstance(e.op, ast.Div) and b[1] == 0):
            x, y = a[1], b[1]
            return ("num", x + y if isinstance(e.op, ast.Add) else x - y if isinstance(e.op, ast.Sub)
                    else x * y if isinstance(e.op, ast.Mult) else x / y)
        if isinstance(e.op, ast.Sub):
            if a == b:
                return zero
            if b == zero:
                return a
        if isinstance(e.op, ast.Add):
            if a == zero:
                return b
            if b == zero:
                return a
        if isinstance(e.op, ast.Mult):
            if a == zero or b == zero:
                return zero
            if a == one:
                return b
            if b == one:
                return a
        if isinstance(e.op, ast.Div):
            if a == b and a != zero:
                return one
            if a == zero:
                return zero
            if b == one:
                return a
        return ("op", type(e.op).__name__, a, b)
    raise AnalysisError(f"float-exact evaluation: unsupported expression `{ast.unparse(e)}`")


def _fx_show(t):
    if t[0] == "sym":
        return t[1]
    if t[0] == "num":
        return str(t[1])
    if t[0] == "neg":
        return f"-({_fx_show(t[1])})"
    sym = {"Add": "+", "Sub": "-", "Mult": "*", "Div": "/"}[t[1]]
    return f"({_fx_show(t[2])} {sym} {_fx_show(t[3])})"


_FX_MODELS = ((1.0, 2.0), (1000.0, 1000.001), (-5.0, -4.9999), (0.0, 1e-6), (-1e-3, 1e3))


def _fx_decide(test, env):
    """Truth value of a test on the times, if it is the same on steps [t0, t1] of very different scale and position
    (t0 < t1 always); None if it depends on the scale (a tolerance test) or mentions anything but times."""
    def num(e, m):
        if isinstance(e, ast.Constant) and isinstance(e.value, (int, float)) and not isinstance(e.value, bool):
            return float(e.value)
        if isinstance(e, ast.Name):
            v = env.get(e.id)
            if v is None or v[0] != "sym" or v[1] not in ("t0", "t1"):
                raise ValueError
            return m[0] if v[1] == "t0" else m[1]
        if isinstance(e, ast.UnaryOp) and isinstance(e.op, ast.USub):
            return -num(e.operand, m)
        if isinstance(e, ast.BinOp) and isinstance(e.op, (ast.Add, ast.Sub, ast.Mult, ast.Div)):
            a, b = num(e.left, m), num(e.right, m)
            return a + b if isinstance(e.op, ast.Add) else a - b if isinstance(e.op, ast.Sub) else a * b if isinstance(e.op, ast.Mult) else a / b
        if isinstance(e, ast.Call) and isinstance(e.func, ast.Name) and e.func.id == "abs" and len(e.args) == 1:
            return abs(num(e.args[0], m))
        raise ValueError

    def truth(e, m):
        if isinstance(e, ast.BoolOp):
            vals = [truth(v, m) for v in e.values]
            return all(vals) if isinstance(e.op, ast.And) else any(vals)
        if isinstance(e, ast.UnaryOp) and isinstance(e.op, ast.Not):
            return not truth(e.operand, m)
        if isinstance(e, ast.Compare):
            left = num(e.left, m)
            for op, r in zip(e.ops, e.comparators):
                right = num(r, m)
                ok = {ast.Lt: left < right, ast.LtE: left <= right, ast.Gt: left > right, ast.GtE: left >= right,
                      ast.Eq: left == right, ast.NotEq: left != right}.get(type(op))
                if ok is None:
                    raise ValueError
                if not ok:
                    return False
                left = right
            return True
        raise ValueError
    try:
        vals = {truth(test, m) for m in _FX_MODELS}
    except (ValueError, ZeroDivisionError):
        return None
    return vals.pop() if len(vals) == 1 else None


def fx_function(fi, args):
    """Float-exact values a function can return (assert statements are skipped; at an `if` whose test is not decided
    here both arms are followed, so the result is the list of all values some path returns)."""
    out = []

    def block(stmts, env):
        """Returns True if every path through `stmts` has returned."""
        for i, st in enumerate(stmts):
            if isinstance(st, ast.Expr) and isinstance(st.value, ast.Constant):
                continue
            if isinstance(st, (ast.Assert, ast.Pass)):
                continue
            if isinstance(st, ast.Assign) and len(st.targets) == 1 and isinstance(st.targets[0], ast.Name):
                env[st.targets[0].id] = _fx(st.value, env)
                continue
            if isinstance(st, ast.Return) and st.value is not None:
                out.append(_fx(st.value, env))
                return True
            if isinstance(st, ast.If):
                d = _fx_decide(st.test, env)
                if d is not None:
                    return block((st.body if d else st.orelse) + stmts[i + 1:], env)
                e1, e2 = dict(env), dict(env)
                r1 = block(st.body + stmts[i + 1:], e1)
                r2 = block(st.orelse + stmts[i + 1:], e2)
                return r1 and r2
            raise AnalysisError(f"float-exact evaluation: unsupported statement `{ast.unparse(st)[:60]}`", where=astq.loc(fi, st))
        return False
    if not block(list(fi.node.body), dict(args)) or not out:
        raise AnalysisError("float-exact evaluation: a path reaches the end of the function without a return", where=astq.loc(fi))
    return out


def r12_8(ctx):
    rep, model = ctx.rep, ctx.model
    rep.rule("R12.8", "an output requested exactly at a step end is the grid state bit for bit: with t = t1 the interpolation "
                      "formula reduces to y1 (and with t = t0 to y0) using only identities that are exact in floating point")
    li = model.func(INTERP, "linear_interp")
    rep.analysed(li)
    if li.params != ["t0", "y0", "t1", "y1", "t"]:
        raise AnalysisError(f"linear_interp has parameters {li.params}", where=astq.loc(li))
    for at, want in (("t1", "y1"), ("t0", "y0")):
        env = {n: ("sym", n) for n in ("t0", "y0", "t1", "y1")}
        env["t"] = ("sym", at)
        vals = fx_function(li, env)
        val = next((v for v in vals if v != ("sym", want)), ("sym", want))
        rep.check(val == ("sym", want), "R12.8", astq.loc(li), f"{li.key}::R12.8::t={at}",
                  f"at t = {at} linear_interp evaluates, with floating-point-exact simplifications only, to "
                  f"`{_fx_show(val)}` instead of `{want}`: the value reported at a grid time is not the solver's own state "
                  f"bit for bit (e.g. y0 + (y1 - y0) != y1 when y changes sign or more than doubles), so a solve restarted "
                  f"from the reported final state differs from the one-shot solve", f"reduces exactly to {want}")
    ctx.floor("R12.8", 2)


def run(ctx):
    ctx.guard(r12_1)
    ctx.guard(r12_2)
    ctx.guard(r12_3)
    ctx.guard(r12_4)
    ctx.guard(r12_5)
    ctx.guard(ik.rule_tiling, "R12.6")
    # "last step clipped to ts[-1]": a genuine remainder is a step of its own (exact-arithmetic model of the last steps)
    ctx.guard(ik.rule_last_steps, "R12.7", False)
    ctx.guard(r12_8)


_run_before_clock = run


def run(ctx):
    _run_before_clock(ctx)
    # termination also when the step size is below the resolution of the times (float32 ts far from the origin)
    ctx.guard(ik.rule_clock_progress, "R12.9")


_run_before_r12_10 = run


def run(ctx):
    _run_before_r12_10(ctx)
    # whole solves with the real steps, as canonical forms (solver_replay.py)
    from . import solver_replay
    ctx.guard(solver_replay.r12_10)
    ctx.guard(solver_replay.r12_11)


EXPLANATION = EXPLANATION + " " + (
    "R12.10 (solver_replay.py): BaseSDESolver.integrate and the step of every distinct (solver class, noise type, option) scenario are interpreted together on concrete rational times (dt = 1/8) with an opaque SDE and an opaque Brownian motion; a reference solve reports every grid point of the horizon (3/8, and 5/16 whose last step is clipped; two steps for the SRK diagonal / scalar step, whose forms grow fastest); solves that request only the end points, or outputs on the grid, inside steps and twice inside one step, must return the reference's grid states, the linear interpolants of its neighbouring grid states, and its final extra solver state, as canonical forms.")
