"""C14 -- adaptive stepping terminates, tiles the interval and honours tolerances (DESIGN.md section C14)."""
import ast
from fractions import Fraction

from .. import astq, nf
from ..errors import AnalysisError
from ..interp import Hooks, Interp
from ..intervals import IntervalEval, Iv, INF
from ..nf import Rat
from . import integrate_kit as ik
from .c12 import _concrete, _paths

ADAPT = "torchsde/_core/adaptive_stepping.py"

EXPLANATION = (
    "The adaptive arm of BaseSDESolver.integrate is evaluated abstractly, one generic loop iteration per branch "
    "combination (ast only; self.step, compute_error, update_step_size opaque). R14.1: the carried state advances "
    "exactly on the paths where the accept predicate holds, and the predicate's truth table over (err <,=,> 1) x "
    "(h <,=,> dt_min) is exactly `err <= 1 or h <= dt_min`. R14.2: compute_error's first argument is the full step "
    "over [curr_t, next_t], its second the two chained half steps through the midpoint (curr_t+next_t)/2; the accepted "
    "state is the second; compute_error vanishes iff both agree, mixes rtol and atol, is an RMS, and is clamped "
    "below by eps > 0. R14.3: interval analysis of update_step_size with the call's actual keywords: factor in "
    "[0.2, 0.94) strictly < 1 when err > 1, in [1, 1.4] when err <= 1. R14.4: a proposal below dt_min is clamped to "
    "dt_min before it is used. R14.5: error control runs under torch.no_grad. R14.6 (= R01.2): steps tile "
    "[curr_t, next_t] contiguously and the trial interval ends at min(curr_t + h, ts[-1]). Termination then follows: "
    "every rejection shrinks h by a factor < 0.94 until dt_min forces acceptance, every acceptance advances curr_t. "
    "Not decided: that tightening tolerances reduces the true error; floating-point effects."
)


def _adaptive_nodes(model):
    fi, prologue, for_node, while_node, tail, epilogue = ik.loop_structure(model)
    ad = [s for s in while_node.body if isinstance(s, ast.If) and ast.unparse(s.test) in ("self.adaptive", "not self.adaptive")]
    if not ad:
        # the test may say more than `self.adaptive` (an extra conjunct): the rules below are path rules and meet the other
        # arm as a path of its own; this statement is only where their reports point
        ad = [s for s in while_node.body if isinstance(s, ast.If) and "self.adaptive" in ast.unparse(s.test)][:1]
    if len(ad) != 1:
        raise AnalysisError("stepping loop no longer has exactly one `if self.adaptive:` statement",
                            where=astq.loc(fi, while_node))
    node = ad[0]
    if ast.unparse(node.test) == "not self.adaptive":
        # same statement written the other way round: a view with the adaptive arm first (in memory only)
        node = ast.copy_location(ast.If(test=node.test.operand, body=node.orelse, orelse=node.body), node)
    return fi, while_node, node


def _role_names(model):
    """Names of the error estimate and of the proposed step size in the adaptive arm, from the calls defining them."""
    fi, while_node, ad = _adaptive_nodes(model)
    err = size = None
    for n in ast.walk(ad):
        if isinstance(n, ast.Assign) and isinstance(n.value, ast.Call):
            nm = astq.call_name(n.value)
            if nm.endswith("compute_error") and isinstance(n.targets[0], ast.Name):
                err = n.targets[0].id
            if nm.endswith("update_step_size") and isinstance(n.targets[0], ast.Tuple):
                size = n.targets[0].elts[0].id
    if err is None or size is None:
        raise AnalysisError("could not find the assignments from compute_error / update_step_size",
                            where=astq.loc(fi, ad))
    return err, size


def r14_1(ctx):
    rep, model = ctx.rep, ctx.model
    rep.rule("R14.1", "accept predicate == (err <= 1 or h <= dt_min) by truth table; the carried state advances exactly "
                      "on the accepting paths")
    fi, while_node, ad = _adaptive_nodes(model)
    rep.analysed(fi)
    err, size = _role_names(model)
    # the accept statement: the `if` inside the adaptive arm whose test reads the error estimate
    accept = [s for s in ast.walk(ad) if isinstance(s, ast.If) and s is not ad
              and err in astq.names_loaded(s.test)]
    if len(accept) != 1:
        raise AnalysisError(f"expected exactly one `if` testing the error estimate `{err}` in the adaptive arm, found "
                            f"{len(accept)}", where=astq.loc(fi, ad))
    test = accept[0].test
    # the accept rule, decided by running one pass of the stepping loop on concrete numbers: error estimate in {<, =, >} 1,
    # controller proposal in {<, =, >} dt_min (a proposal below dt_min is clamped to it), and every extra piece of loop
    # state the prologue introduces (flags, counters) at both of its initial / opposite values -- the decision must be
    # `err <= 1 or h <= dt_min` on today's numbers alone
    _fi, prologue, _f, w_node, _tail, _epi = ik.loop_structure(model)
    F = Fraction
    extras = ik.extra_loop_state(model)
    flag_values = [dict()]
    for name in sorted(extras):
        flag_values = [dict(d, **{name: v}) for d in flag_values for v in (False, True, F(0), F(7))][:16]
    table, bad = {}, []
    dt_min = F(1, 100)
    for e_rel, e_val in (("<", F(1, 2)), ("=", F(1)), (">", F(2))):
        for h_rel, prop in (("<", dt_min / 2), ("=", dt_min), (">", 3 * dt_min)):
            for flags in flag_values:
                class CH(ik.LoopHooks):
                    def on_call(self, interp, callee, args, kwargs, node, fi2, e_val=e_val, prop=prop):
                        nm = getattr(getattr(callee, "fi", None), "name", None)
                        if nm == "compute_error":
                            return e_val
                        if nm == "update_step_size":
                            return (prop, F(1))
                        return ik.LoopHooks.on_call(self, interp, callee, args, kwargs, node, fi2)
                steps = []
                self_obj = ik.make_self(model, True, steps)
                self_obj.attrs["dt"], self_obj.attrs["dt_min"] = F(1, 10), dt_min

                def getitem(it, obj, idx, node, fi2):
                    return F(0) if idx == 0 else F(10)
                from ..interp import Obj
                env = ik.head_env(self_obj, Obj("ts", getitem_hook=getitem), F(5))
                env.update({"curr_t": F(1), "prev_t": F(9, 10), "step_size": F(1, 10), "prev_error_ratio": None})
                env.update(flags)
                it = Interp(model, CH({}))
                try:
                    it.exec_block(w_node.body, env, fi)
                except Exception as ex:
                    raise AnalysisError(f"R14.1: the accept scenario could not be evaluated: {ex}", where=astq.loc(fi, accept[0]))
                got = env["curr_t"] != F(1)
                want = (e_val <= 1) or (prop <= dt_min)
                key = f"err{e_rel}1,h{h_rel}dt_min" + ("," + ",".join(f"{k}={v}" for k, v in sorted(flags.items())) if flags else "")
                table[key] = got
                if got != want:
                    bad.append(f"{key}: accepts={got}, required={want}")
    rep.check(not bad, "R14.1", astq.loc(fi, accept[0]), f"{fi.key}::R14.1::accept-predicate",
              f"accept predicate `{ast.unparse(test)}` differs from `err <= 1 or h <= dt_min` on {bad[:6]}: a step whose "
              f"estimated error exceeds 1 would be accepted above dt_min, or a step at dt_min could never be accepted",
              "truth table equals err <= 1 or h <= dt_min", facts={"table": {k: v for k, v in list(table.items())[:12]}})
    # advance <=> accept, on the enumerated paths
    acc_text = ast.unparse(test)
    for p in _paths(ctx, True):
        d = dict(p.decisions)
        if acc_text not in d:
            raise AnalysisError(f"accept predicate `{acc_text}` was not met on path [{p.label()}]")
        advanced = not nf.equal(p.env["curr_t"], ik.H("curr_t"))
        rep.check(advanced == d[acc_text], "R14.1", astq.loc(fi, accept[0]),
                  f"{fi.key}::R14.1::advance-iff-accept::{p.label()}",
                  f"on path [{p.label()}] the carried state {'advances' if advanced else 'does not advance'} although "
                  f"the accept predicate is {d[acc_text]}: accepting is not controlled by the predicate alone",
                  "advances iff accepted")
    ctx.floor("R14.1", 3)


def r14_2(ctx):
    rep, model = ctx.rep, ctx.model
    rep.rule("R14.2", "error = compute_error(full step, two chained half steps through the midpoint); accepted state is "
                      "the two-half-step state; compute_error is the clamped mixed-tolerance RMS of the difference")
    fi, while_node, ad = _adaptive_nodes(model)
    ct, cy, ce = ik.H("curr_t"), ik.H("curr_y", False), ik.H("curr_extra", False)
    for p in _paths(ctx, True):
        base = f"{fi.key}::R14.2::{p.label()}"
        nt = ik.trial_end(p)             # min(curr_t + step_size, ts[-1]) or ts[-1] (R12.2 decides admissibility)
        if nt is None:
            rep.fail("R14.2", astq.loc(fi, ad), f"{base}::trial-interval",
                     "no step of the iteration starts at curr_t and ends at min(curr_t + step_size, ts[-1])")
            continue
        mid = (ct + nt) * Fraction(1, 2)
        full = nf.fn("STEP_Y", ct, nt, cy, ce)
        half1_y, half1_e = nf.fn("STEP_Y", ct, mid, cy, ce), nf.fn("STEP_E", ct, mid, cy, ce)
        half2 = nf.fn("STEP_Y", mid, nt, half1_y, half1_e)
        half2_e = nf.fn("STEP_E", mid, nt, half1_y, half1_e)
        ces = p.extras["compute_error"]
        if len(ces) != 1:
            rep.fail("R14.2", astq.loc(fi, ad), f"{base}::one-estimate",
                     f"{len(ces)} calls of compute_error in one iteration (expected 1)")
            continue
        args, kwargs, node, under_no_grad = ces[0]
        a = list(args) + [kwargs[k] for k in ("y11", "y12", "rtol", "atol") if k in kwargs]
        ok = len(a) >= 4 and nf.equal(a[0], full) and nf.equal(a[1], half2)
        rep.check(ok, "R14.2", astq.loc(fi, node), f"{base}::estimator-args",
                  f"compute_error is given `{a[0]}` and `{a[1]}`; the estimate must compare the full step "
                  f"`{full}` with the two half steps `{half2}` (midpoint (curr_t + next_t)/2)",
                  "full step vs two chained half steps")
        ok_tol = len(a) >= 4 and nf.equal(a[2], nf.sym("self.rtol", True)) and nf.equal(a[3], nf.sym("self.atol", True))
        rep.check(ok_tol, "R14.2", astq.loc(fi, node), f"{base}::estimator-tols",
                  f"compute_error is given tolerances `{a[2] if len(a) > 2 else None}`, `{a[3] if len(a) > 3 else None}` "
                  f"instead of (self.rtol, self.atol)", "uses self.rtol, self.atol")
        if not nf.equal(p.env["curr_t"], ct):
            ok2 = ik._same(p.env["curr_y"], half2) and ik._same(p.env["curr_extra"], half2_e)
            rep.check(ok2, "R14.2", astq.loc(fi, ad), f"{base}::accepted-state",
                      f"the accepted state is `{p.env['curr_y']}` (extra `{p.env['curr_extra']}`), not the two-half-step "
                      f"state `{half2}`", "accepted state = two-half-step solution")
    # compute_error itself
    cef = model.func(ADAPT, "compute_error")
    rep.analysed(cef)
    _check_compute_error(ctx, cef)
    ctx.floor("R14.2", 8)


class ErrHooks(Hooks):
    """Opaque-but-named tensor operations for compute_error / _rms."""

    def external_call(self, interp, dotted, args, kwargs, node, fi):
        if dotted == "torch.is_tensor":
            return isinstance(args[0], Rat)
        if dotted in ("torch.max", "torch.maximum") and len(args) == 2:
            return nf.fn("max", *sorted(args, key=lambda v: repr(Rat.lift(v).key())))
        if dotted == "torch.abs":
            return nf.fn("abs", args[0])
        if dotted == "torch.sqrt":
            return nf.sqrt_of(Rat.lift(args[0]))
        if dotted in ("torch.any", "torch.isnan"):
            return False
        return NotImplemented

    def tensor_method(self, interp, recv, name, args, kwargs, node, fi):
        if name == "clamp_min":
            return nf.fn("clamp_min", recv, args[0] if args else kwargs.get("min"))
        if name == "numel":
            return nf.fn("numel", nf.sym("shape", True))     # every operand has the state's shape
        if name == "sum" and not args and not kwargs:
            return nf.linear("sum_all", (), Rat.lift(recv))
        if name == "abs":
            return nf.fn("abs", recv)
        if name in ("detach", "cpu", "item"):
            return recv
        return NotImplemented


def _check_compute_error(ctx, cef):
    rep, model = ctx.rep, ctx.model
    it = Interp(model, ErrHooks())
    y11, y12 = nf.sym("y11"), nf.sym("y12")
    rtol, atol = nf.sym("rtol", True), nf.sym("atol", True)
    val = it.call_function(cef, [y11, y12, rtol, atol], {})
    construct = f"{cef.key}::R14.2::norm"
    # expected: clamp_min( sqrt( sum_all(((y11-y12)/tol)^2) / numel ), eps ), tol = clamp_min(rtol*max(|y11|,|y12|)+atol, eps)
    defaults = {a.arg: d for a, d in zip(cef.node.args.args[-len(cef.node.args.defaults):], cef.node.args.defaults)}
    if "eps" not in defaults or not isinstance(defaults["eps"], ast.Constant):
        raise AnalysisError("compute_error has no constant default `eps`", where=astq.loc(cef))
    eps = nf.frac(defaults["eps"].value)
    mx = nf.fn("max", *sorted([nf.fn("abs", y11), nf.fn("abs", y12)], key=lambda v: repr(v.key())))
    tol = nf.fn("clamp_min", rtol * mx + atol, eps)
    ratio = (y11 - y12) / tol
    ref = nf.fn("clamp_min", nf.sqrt_of(nf.linear("sum_all", (), ratio * ratio) / nf.fn("numel", nf.sym("shape", True))),
                eps)
    ok = isinstance(val, Rat) and nf.equal(val, ref)
    rep.check(ok and eps > 0, "R14.2", astq.loc(cef), construct,
              f"compute_error evaluates to `{val}`; the mixed-tolerance RMS norm clamped below by eps is `{ref}` "
              f"(eps = {eps})", "clamped RMS of (y11 - y12) / clamp(rtol max(|y11|,|y12|) + atol)")


def _new_and_factor(fn, ret):
    """(name of the returned step size, name of the factor) if `ret` is `(X, ...)` with the single assignment
    X = prev_step_size * F or F * prev_step_size for a local name F; else (None, None)."""
    if not (isinstance(ret, ast.Tuple) and len(ret.elts) == 2 and isinstance(ret.elts[0], ast.Name)):
        return None, None
    x = ret.elts[0].id
    asg = [s for s in ast.walk(fn.node) if isinstance(s, ast.Assign) and len(s.targets) == 1
           and isinstance(s.targets[0], ast.Name) and s.targets[0].id == x]
    if len(asg) != 1 or not (isinstance(asg[0].value, ast.BinOp) and isinstance(asg[0].value.op, ast.Mult)):
        return x, None
    l, r = asg[0].value.left, asg[0].value.right
    names = [n.id if isinstance(n, ast.Name) else None for n in (l, r)]
    if "prev_step_size" in names and None not in names:
        other = names[1] if names[0] == "prev_step_size" else names[0]
        if other != "prev_step_size":
            return x, other
    return x, None


def r14_3(ctx):
    rep, model = ctx.rep, ctx.model
    rep.rule("R14.3", "interval analysis of update_step_size: a rejected step strictly shrinks (factor in [facmin, "
                      "safety^(1/1.5)] < 1), an accepted one never shrinks and grows at most by facmax")
    fn = model.func(ADAPT, "update_step_size")
    rep.analysed(fn)
    fi, while_node, ad = _adaptive_nodes(model)
    calls = [c for c in ast.walk(ad) if isinstance(c, ast.Call) and astq.call_name(c).endswith("update_step_size")]
    if len(calls) != 1:
        raise AnalysisError("expected one call of update_step_size in the adaptive arm", where=astq.loc(fi, ad))
    call = calls[0]
    # parameter ranges: defaults overridden by constant keywords at the call site
    a = fn.node.args
    params = [x.arg for x in a.args]
    defaults = dict(zip(params[len(params) - len(a.defaults):], a.defaults))
    env_base = {}
    for name, d in defaults.items():
        if isinstance(d, ast.Constant) and isinstance(d.value, (int, float)) and not isinstance(d.value, bool):
            env_base[name] = Iv.point(float(d.value))
    for k in call.keywords:
        if k.arg in ("error_estimate", "prev_step_size", "prev_error_ratio"):
            continue
        if isinstance(k.value, ast.Constant) and isinstance(k.value.value, (int, float)):
            env_base[k.arg] = Iv.point(float(k.value.value))
        else:
            env_base.pop(k.arg, None)
            # a solver attribute (`self.<name>`): the hull of the values it takes over every solver scenario
            if isinstance(k.value, ast.Attribute) and isinstance(k.value.value, ast.Name) and k.value.value.id == "self":
                from . import solvers, steps
                dom = solvers.Domains(model)
                vals = []
                for sc in steps.scenarios(model, dom):
                    try:
                        v = solvers.solver_attr(model, sc.obj, k.value.attr)
                    except Exception:
                        vals = None
                        break
                    if isinstance(v, (Fraction, int, float)) and not isinstance(v, bool):
                        vals.append(float(v))
                    else:
                        vals = None
                        break
                if vals:
                    env_base[k.arg] = Iv(min(vals), max(vals))
    results = {}
    homogeneous = True
    for case, err_iv in (("rejected (err > 1)", Iv(1.0, INF, lo_open=True)), ("accepted (err <= 1)", Iv(0.0, 1.0, lo_open=True))):
        ranges = []
        # the new step size is read off the returned expression itself (first element of the returned pair) for a
        # previous step size of exactly 1 -- its range is then the range of the factor -- and of exactly 4, which must
        # give four times that range (the proposal is proportional to the previous step size)
        for prev in (1.0, 4.0):
            env = dict(env_base)
            env["prev_step_size"] = Iv.point(prev)
            env["error_estimate"] = err_iv
            env["prev_error_ratio"] = Iv(0.0, INF, lo_open=True)

            def decide(test, e, case=case):
                t = ast.unparse(test)
                rej = case.startswith("rejected")
                if t in ("error_estimate > 1", "1 < error_estimate"):
                    return rej
                if t in ("error_estimate <= 1", "1 >= error_estimate"):
                    return not rej
                if t in ("prev_error_ratio is None", "prev_error_ratio is not None"):
                    return None
                raise AnalysisError(f"update_step_size: unexpected test `{t}`", where=astq.loc(fn, test))
            ev = IntervalEval(env, fn, decide)
            body = [s for s in fn.node.body if not (isinstance(s, ast.Expr) and isinstance(s.value, ast.Constant))]
            r = ev.block(body)
            if r is None or r[0] != "return":
                raise AnalysisError("update_step_size: could not reach its return", where=astq.loc(fn))
            ret = r[1]
            if not (isinstance(ret, ast.Tuple) and len(ret.elts) == 2):
                raise AnalysisError("update_step_size no longer returns a pair (new step size, error ratio)", where=astq.loc(fn, ret))
            ranges.append(IntervalEval(r[2], fn, decide).expr(ret.elts[0]))
        f1, f4 = ranges
        if not (abs(f4.lo - 4 * f1.lo) <= 1e-12 * max(1.0, abs(f4.lo)) and (f4.hi == 4 * f1.hi or abs(f4.hi - 4 * f1.hi) <= 1e-12 * abs(f4.hi))):
            homogeneous = False
        results[case] = f1
    f_rej = results["rejected (err > 1)"]
    f_acc = results["accepted (err <= 1)"]
    rep.check(f_rej.positive() and f_rej.lt(1.0), "R14.3", astq.loc(fn), f"{fn.key}::R14.3::reject-shrinks",
              f"on err > 1 the step-size factor ranges over {f_rej}: a rejected step is not guaranteed to shrink strictly "
              f"(and stay positive), so repeated rejection need not reach dt_min", f"factor in {f_rej} subset (0, 1)",
              facts={"factor": repr(f_rej)})
    # "clamped growth/shrink factors": the shrink factor of a rejected step is bounded away from zero.  Without the floor
    # one rejection with a large error estimate takes the proposal from far above dt_min to below it in a single jump; the
    # proposal is clamped to dt_min, the accept test sees "the controller has reached dt_min", and the trial -- far longer
    # than dt_min, with an error far above 1 -- is accepted without ever being retried smaller
    rep.check(f_rej.lo > 0, "R14.3", astq.loc(fn), f"{fn.key}::R14.3::reject-bounded",
              f"on err > 1 the step-size factor ranges over {f_rej}: it is not bounded away from 0, so a single rejection with "
              f"a large error estimate drops the proposal below dt_min and the (long, inaccurate) trial is accepted without a "
              f"retry", f"factor >= {f_rej.lo} > 0", facts={"factor": repr(f_rej)})
    rep.check(f_acc.ge(1.0) and f_acc.hi < INF, "R14.3", astq.loc(fn), f"{fn.key}::R14.3::accept-bounded",
              f"on err <= 1 the step-size factor ranges over {f_acc}: must be >= 1 and bounded",
              f"factor in {f_acc}", facts={"factor": repr(f_acc)})
    rep.check(homogeneous, "R14.3", astq.loc(fn), f"{fn.key}::R14.3::new-step",
              "the returned step size is not proportional to prev_step_size (evaluated for prev_step_size = 1 and 4)",
              "new = prev * factor, returned first")
    # the call passes the current step size as prev_step_size and the estimate as error_estimate
    err, size = _role_names(model)
    kw = {k.arg: ast.unparse(k.value) for k in call.keywords}
    pos = [ast.unparse(x) for x in call.args]
    got_err = kw.get("error_estimate", pos[0] if pos else None)
    got_prev = kw.get("prev_step_size", pos[1] if len(pos) > 1 else None)
    rep.check(got_err == err, "R14.3", astq.loc(fi, call), f"{fi.key}::R14.3::call-args",
              f"update_step_size is called with error_estimate={got_err}; expected the fresh estimate `{err}`",
              "called with the fresh estimate")
    # "rejected and retried smaller": the controller must scale the length of the step that was actually tried -- near
    # ts[-1] the trial is clipped and can be much shorter than the nominal step size; scaling the nominal size instead
    # repeats the identical clipped trial until the nominal size has shrunk below it
    for p in _paths(ctx, True):
        te = ik.trial_end(p)
        for args, kwargs, node, _ng in p.extras["update_step_size"]:
            prev = kwargs.get("prev_step_size", args[1] if len(args) > 1 else None)
            want = (te - ik.H("curr_t")) if te is not None else None
            ok = want is not None and isinstance(prev, Rat) and nf.equal(prev, want)
            rep.check(ok, "R14.3", astq.loc(fi, node), f"{fi.key}::R14.3::scales-trial::{p.label()}",
                      f"the controller is given prev_step_size = `{prev}`; the step that was tried has length `{want}` "
                      f"(clipped to ts[-1] near the end): after a rejection the next trial is factor * `{prev}`, which need "
                      f"not be smaller than the rejected trial -- the same clipped trial is repeated (e.g. dt=0.1, ts=[0, 1], "
                      f"adaptive: the trial (0.826, 1.0) is taken six times in a row)",
                      "prev_step_size is the length of the trial step")
    ctx.floor("R14.3", 4)


def r14_4(ctx):
    rep, model = ctx.rep, ctx.model
    rep.rule("R14.4", "a proposed step size below dt_min is replaced by dt_min before it is used or compared")
    fi, while_node, ad = _adaptive_nodes(model)
    err, size = _role_names(model)
    n = 0
    for p in _paths(ctx, True):
        d = dict(p.decisions)
        clamp_tests = [t for t in d if t.replace(" ", "") in (f"{size}<self.dt_min", f"self.dt_min>{size}")]
        if not clamp_tests:
            rep.fail("R14.4", astq.loc(fi, ad), f"{fi.key}::R14.4::no-clamp::{p.label()}",
                     f"no test `{size} < self.dt_min` on path [{p.label()}]: a proposal below dt_min is never clamped")
            continue
        t = clamp_tests[0]
        n += 1
        final = p.env["step_size"]
        if d[t]:
            rep.check(nf.equal(final, nf.sym("self.dt_min", True)), "R14.4", astq.loc(fi, ad),
                      f"{fi.key}::R14.4::clamped::{p.label()}",
                      f"on path [{p.label()}] the step size carried to the next trial is `{final}`, not self.dt_min",
                      "clamped to dt_min")
        else:
            rep.ok("R14.4", astq.loc(fi, ad), f"{fi.key}::R14.4::unclamped::{p.label()}", "proposal kept (>= dt_min)")
    # the clamp precedes the accept predicate
    # in the order the tests are evaluated on every adaptive path (however they are written)
    order_ok = True
    seen_any = False
    for p in _paths(ctx, True):
        texts = [t for t, _ in p.decisions]
        clamp_i = [i for i, t in enumerate(texts) if size in t and "dt_min" in t and err not in t]
        accept_i = [i for i, t in enumerate(texts) if err in t]
        if clamp_i and accept_i:
            seen_any = True
            order_ok = order_ok and min(clamp_i) < min(accept_i)
    order_ok = order_ok and seen_any
    rep.check(order_ok, "R14.4", astq.loc(fi, ad), f"{fi.key}::R14.4::clamp-before-accept",
              "the dt_min clamp does not precede the accept test: a proposal below dt_min would be compared unclamped",
              "clamp precedes accept")
    ctx.floor("R14.4", 4)


def r14_5(ctx):
    rep, model = ctx.rep, ctx.model
    rep.rule("R14.5", "error estimate and controller run under torch.no_grad()")
    fi, while_node, ad = _adaptive_nodes(model)
    for p in _paths(ctx, True)[:1]:
        for kind in ("compute_error", "update_step_size"):
            for args, kwargs, node, under in p.extras[kind]:
                rep.check(under, "R14.5", astq.loc(fi, node), f"{fi.key}::R14.5::{kind}",
                          f"`{kind}` is called outside torch.no_grad(): step-size control would enter the autograd graph",
                          "under no_grad")
    ctx.floor("R14.5", 2)


def r14_7(ctx):
    """'No trial step is shorter than dt_min except one clipped to end at ts[-1]' -- also the first one.  The prologue of
    integrate and the first pass through the stepping loop are evaluated for concrete (dt, dt_min): the first trial
    [curr_t, next_t] must be at least dt_min long when the initial dt is below dt_min, and must be exactly dt otherwise."""
    rep, model = ctx.rep, ctx.model
    rep.rule("R14.7", "adaptive: the first trial step is max(dt, dt_min) long (the initial step size is clamped like every "
                      "later proposal)")
    fi, prologue, f, w, tail, epi = ik.loop_structure(model)
    rep.analysed(fi)
    F = Fraction
    for label, dt, dt_min in (("dt < dt_min", F(1, 10 ** 6), F(1, 1000)), ("dt > dt_min", F(1, 10), F(1, 1000)),
                              ("dt == dt_min", F(1, 1000), F(1, 1000))):
        steps = []
        self_obj = ik.make_self(model, True, steps)
        self_obj.attrs["dt"], self_obj.attrs["dt_min"] = dt, dt_min
        def getitem(it, obj, idx, node, fi2):
            if idx == 0:
                return F(0)
            if idx == -1:
                return F(10)
            raise AnalysisError(f"unexpected index into ts: {idx!r}", where=astq.loc(fi2, node))
        from ..interp import Obj
        from ..interp import Intrinsic
        ts_obj = Obj("ts", getitem_hook=getitem, attrs=ik.ts_attrs(F(3)))
        path, hooks = ik.run_body(model, True, list(prologue) + list(w.body), {},
                                  env_override={"self": self_obj, "ts": ts_obj, "out_t": F(5)})
        if not steps:
            raise AnalysisError(f"R14.7: the first pass of the adaptive loop made no trial step ({label})", where=astq.loc(fi))
        ta, tb = steps[0][0], steps[0][1]
        ln = nf.reduce_sqrt(Rat.lift(tb) - Rat.lift(ta)).const_value() if isinstance(tb, Rat) or isinstance(ta, Rat) else F(tb) - F(ta)
        want = max(dt, dt_min)
        rep.check(ln is not None and ln == want, "R14.7", astq.loc(fi, steps[0][4]), f"{fi.key}::R14.7::first-trial::{label}",
                  f"adaptive solve with dt={float(dt):g}, dt_min={float(dt_min):g}: the first trial step is "
                  f"{float(ln) if ln is not None else '?'} long; it must be {float(want):g} (no trial shorter than dt_min, and "
                  f"the user's initial step otherwise)", f"first trial {float(want):g}")
    ctx.floor("R14.7", 3)


def run(ctx):
    ctx.guard(r14_1)
    ctx.guard(r14_2)
    ctx.guard(r14_3)
    ctx.guard(r14_4)
    ctx.guard(r14_5)
    ctx.guard(ik.rule_tiling, "R14.6")
    from .c12 import r12_2
    ctx.guard(r12_2)
    # "no trial step is shorter than dt_min except one clipped to end at ts[-1]" / "retried smaller": the trial interval
    # is [curr_t, curr_t + step_size] clipped to ts[-1] -- never stretched beyond the controller's step (exact models)
    ctx.guard(ik.rule_last_steps, "R14.6", True)
    ctx.guard(r14_7)


_run_before_r13_1 = run


def run(ctx):
    _run_before_r13_1(ctx)
    # every integrate call starts from the documented initial controller state: nothing kept on the solver from an earlier call
    # (the adjoint's backward pass calls integrate once per output interval on one solver; rule of C13)
    from . import c13
    ctx.guard(c13.r13_1)


_run_before_clock = run


def run(ctx):
    _run_before_clock(ctx)
    # termination also when the step size is below the resolution of the times (float32 ts far from the origin)
    ctx.guard(ik.rule_clock_progress, "R14.8")


_run_before_r14_9 = run


def run(ctx):
    _run_before_r14_9(ctx)
    # the statement clause by clause on traces of the real adaptive driver under seeded scripted controller schedules
    from . import solver_replay
    ctx.guard(solver_replay.r14_9)
