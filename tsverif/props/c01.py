"""C01 -- convergence at the advertised strong order: the necessary conditions visible in the code
(DESIGN.md section C01).  R01.1 path consumption, R01.2 tiling (integrate loop), R01.3 first-order consistency,
R01.4 advertised order <= established order, plus R02.4 (tableau order conditions) re-used from C02."""
import ast
from fractions import Fraction

from .. import astq, nf
from ..errors import AnalysisError
from ..interp import ClassRef, Interp, SimRaise
from ..model import own_nodes
from ..nf import Rat
from . import c02, solverkit, solvers, steps

EXPLANATION = (
    "Necessary conditions of strong convergence, each decided for every path of every step body reachable through "
    "methods.select (ast only). R01.1: abstract evaluation of each step records every Brownian query; its time "
    "arguments must be exactly the step's own (t0, t1), and no other randomness source is called anywhere in "
    "torchsde/_core. R01.2: one abstract iteration of BaseSDESolver.integrate per branch combination: every "
    "self.step call starts from a state stamped with its start time and the carried (time, state, extra) advance "
    "together. R01.3: under the collapse abstraction (all evaluation points -> base point) each step equals "
    "y0 + F h + G W plus tabled correction atoms only. R01.4: strong_order evaluated per (solver, noise type) from "
    "the constructors is <= the order established in the literature (frozen table). R02.4: Roessler order "
    "conditions on the imported tableaus. R02.3 (shared with C02): weight-1 condition of the Stratonovich RK-type steps and of "
    "derivative-free Milstein (finite difference taken at one time). R02.6 (shared with C02): for a generic scalar SDE the "
    "local mean-square error is O(h^(p+1/2)) and the local mean error O(h^(p+1)) at the advertised p -- the hypotheses "
    "of Milstein's fundamental convergence theorem -- by symbolic stochastic Taylor expansion of each step. Not decided: the limit dt -> 0, error constants, "
    "adaptive accuracy."
)

# Orders established in the literature (DESIGN.md 9.4).  key: (class name, noise kind) with kind in
# {'general', 'commutative' (diagonal / scalar), 'additive'}.
LITERATURE = {
    "Euler": {"general": Fraction(1, 2), "commutative": Fraction(1, 2), "additive": Fraction(1)},
    "MilsteinIto": {"commutative": Fraction(1), "additive": Fraction(1)},
    "MilsteinStratonovich": {"commutative": Fraction(1), "additive": Fraction(1)},
    "SRK": {"commutative": Fraction(3, 2), "additive": Fraction(3, 2)},
    "EulerHeun": {"general": Fraction(1, 2), "commutative": Fraction(1), "additive": Fraction(1)},
    "Heun": {"general": Fraction(1, 2), "commutative": Fraction(1), "additive": Fraction(1)},
    "Midpoint": {"general": Fraction(1, 2), "commutative": Fraction(1), "additive": Fraction(1)},
    "LogODEMidpoint": {"general": Fraction(1, 2), "commutative": Fraction(1), "additive": Fraction(1)},
    "ReversibleHeun": {"general": Fraction(1, 2), "commutative": Fraction(1, 2), "additive": Fraction(1)},
    "AdjointReversibleHeun": {"general": Fraction(1, 2), "commutative": Fraction(1, 2), "additive": Fraction(1)},
}

RNG_PREFIXES = ("torch.rand", "torch.normal", "torch.bernoulli", "torch.multinomial", "torch.poisson",
                "np.random", "numpy.random", "random.", "torch.manual_seed", "torch.seed")


def r01_1(ctx):
    rep, model = ctx.rep, ctx.model
    rep.rule("R01.1", "every Brownian query of a step has exactly the step's (t0, t1) as time arguments; no other "
                      "randomness source in torchsde/_core")
    # no other randomness anywhere in _core (methods, base_solver, base_sde ...)
    cg = ctx.callgraph()
    rep.call_sites += cg.n_calls
    tabled = {"torchsde/_core/sdeint.py::check_contract"}   # dummy vectors for shape validation only (DESIGN 9.3)
    n = 0
    for fi, call, text in cg.externals:
        if not fi.module.name.startswith("torchsde._core"):
            continue
        if any(text.startswith(p) for p in RNG_PREFIXES):
            n += 1
            construct = f"{fi.key}::R01.1::rng::{astq.digest(call)}"
            if fi.key in tabled:
                rep.ok("R01.1", astq.loc(fi, call), construct,
                       "tabled: dummy vector used only to validate shapes before integration")
            else:
                rep.fail("R01.1", astq.loc(fi, call), construct,
                         f"`{ast.unparse(call)[:70]}` draws randomness outside the supplied Brownian motion")
    for sc in c02._scen(ctx):
        try:
            y1, _, log, (t0, h, t1, y0) = c02._eval(ctx, sc)
        except AnalysisError as e:
            ctx.errors.append(f"r01_1[{sc.label}]: {e}")
            continue
        rep.analysed(sc.step_fi)
        if not log.calls:
            rep.fail("R01.1", astq.loc(sc.step_fi), f"{sc.step_fi.key}::R01.1::{sc.cls.name}::no-query",
                     f"{sc.label} never queries the Brownian motion: the step is not driven by the supplied path")
            continue
        for ta, tb, ru, ra, node in log.calls:
            ok = nf.equal(ta, t0) and nf.equal(tb, t1)
            rep.check(ok, "R01.1", astq.loc(sc.step_fi, node),
                      f"{sc.step_fi.key}::R01.1::{sc.cls.name}::{sc.noise_type}::{astq.digest(node)}",
                      f"{sc.label} queries the Brownian motion on [{ta}, {tb}] instead of its own step [{t0}, {t1}]: "
                      f"the solution is not driven by the supplied path over the step",
                      "bm(t0, t1)")
    ctx.floor("R01.1", 20)


def r01_3(ctx):
    rep = ctx.rep
    rep.rule("R01.3", "first-order consistency: collapsed step == y0 + F0 h + prod(G0, W) + tabled correction atoms")
    F0, G0 = nf.sym("F0"), nf.sym("G0")
    for sc in c02._scen(ctx):
        y1, _, _, (t0, h, t1, y0) = c02._eval(ctx, sc)
        rep.analysed(sc.step_fi)
        c = steps.collapse(y1)
        ref = y0 + F0 * h + solverkit.prod(G0, nf.fn("W", t0, t1))
        diff = nf.reduce_sqrt(Rat.lift(c) - ref)
        # remove tabled correction atoms (Milstein g dg term, log-ODE Levy-area term)
        rest = nf.Poly({m: k for m, k in diff.num.terms.items()
                        if not any(a[0] == "lin" and a[1] in ("GDG0", "DGGA0") for a, _ in m)})
        ok = rest.is_zero()
        rep.check(ok, "R01.3", astq.loc(sc.step_fi), f"{sc.step_fi.key}::R01.3::{sc.cls.name}::{sc.noise_type}"
                  + ("::grad_free" if any(sc.options.values()) else ""),
                  f"{sc.label}: with all evaluation points collapsed to the base point the step is `{c}`; a consistent "
                  f"scheme gives `{ref}` (+ Milstein / Levy-area correction terms): drift or diffusion weight is not 1, "
                  f"the local error is O(h) and the scheme does not converge to the declared SDE",
                  "collapsed drift weight 1, diffusion weight 1", facts={"collapsed": repr(c)})
    ctx.floor("R01.3", 15)


def noise_kind(dom, nt):
    if nt == dom.noise_types.get("additive"):
        return "additive"
    if nt == dom.noise_types.get("general"):
        return "general"
    return "commutative"


def r01_4(ctx):
    rep, model = ctx.rep, ctx.model
    rep.rule("R01.4", "advertised strong_order(solver, noise type) <= order established in the literature")
    dom = c02._dom(ctx)
    classes, _ = solvers.solver_classes(model, dom)
    for cls in classes:
        it = Interp(model, solvers.QuietHooks())
        sde_type = it.getattr(ClassRef(cls), "sde_type")
        for nt in dom.noise_types.values():
            adjoint = cls.name == "AdjointReversibleHeun"
            obj = None
            for levy in (dom.levy.get("foster"), dom.levy.get("space_time"), dom.levy.get("none")):
                sde = solvers.make_sde_obj(model, sde_type, nt, adjoint=adjoint)
                bm = solvers.make_bm_obj(levy, 1 if nt == dom.noise_types.get("scalar") else 3)
                try:
                    obj = solvers.instantiate(model, cls, sde, bm, {})
                    break
                except SimRaise:
                    obj = None
            if obj is None:
                continue
            order = solvers.solver_attr(model, obj, "strong_order")
            construct = f"{cls.key}::R01.4::{nt}"
            if cls.name not in LITERATURE:
                raise AnalysisError(f"solver class {cls.name} is not in the literature-order table: R01.4 needs "
                                    f"review", where=cls.module.relpath)
            lit = LITERATURE[cls.name].get(noise_kind(dom, nt))
            if lit is None:
                raise AnalysisError(f"{cls.name} accepts noise type {nt} for which no literature order is tabled",
                                    where=cls.module.relpath)
            if not isinstance(order, Fraction):
                raise AnalysisError(f"strong_order of {cls.name} for {nt} evaluates to {order!r}",
                                    where=cls.module.relpath)
            rep.check(order <= lit, "R01.4", f"{cls.module.relpath}:{cls.node.lineno}", construct,
                      f"{cls.name} advertises strong order {float(order)} for {nt} noise, above the order "
                      f"{float(lit)} established for this scheme: the advertised rate is not attained",
                      f"advertised {float(order)} <= established {float(lit)}")
    ctx.floor("R01.4", 30)


def r12_4_state(ctx):
    """R12.4 without its interpolation clause: C01 needs the solver to continue from the grid state after it has reported
    an output (round-5 seed); how the value between two grid states is formed is C12's business."""
    from . import c12
    return c12.r12_4(ctx, interpolant=False)


def r12_4_state(ctx):
    """R12.4 without its interpolation clause: C01 needs the solver to continue from the grid state after it has reported
    an output (round-5 seed); how the value between two grid states is formed is C12's business."""
    from . import c12
    return c12.r12_4(ctx, interpolant=False)


def run(ctx):
    ctx.guard(r01_1)
    from . import integrate_kit
    ctx.guard(integrate_kit.rule_tiling, "R01.2")
    ctx.guard(r01_3)
    ctx.guard(r01_4)
    ctx.guard(c02.r02_4)
    # converging to the solution of the *declared* calculus at the advertised order needs the weight-1 condition
    # (sum v_i c_i = 1/2 for Stratonovich RK-type steps; exact 1/2 and a single evaluation time for derivative-free Milstein)
    ctx.guard(c02.r02_3)
    # ... and no O(h^1.5) bias per step from a one-sided difference quotient (global strong order would be 1/2)
    ctx.guard(c02.r02_5)
    # the hypotheses of the fundamental theorem of mean-square convergence, decided for a generic scalar SDE:
    # local mean-square error O(h^(p+1/2)) and local mean error O(h^(p+1)) at the advertised p (sufficient for strong
    # order p when d = m = 1 and the coefficients are smooth and Lipschitz)
    ctx.guard(c02.r02_6)
    # strong order 1 of derivative-based Milstein needs the textbook correction term; the operator ForwardSDE derives for
    # it must be one Jacobian-vector product per diffusion column (a transposed product halves the Ito order and makes the
    # Stratonovich scheme converge to a different SDE when the Jacobian of g is not symmetric)
    ctx.guard(c02.r02_2)
    # the state the solver carries from one output interval to the next is a grid state: emitting an output must leave the
    # loop state untouched (continuing from an interpolated value costs O(sqrt(dt)) at every later output) -- rule of C12
    from . import c12
    ctx.guard(r12_4_state)


_run_before_r13_4 = run


def run(ctx):
    _run_before_r13_4(ctx)
    # every step of the solve is the analysed step: nothing carried over from earlier steps of the same solver object
    # (a step-size constant cached at the first step is wrong for the clipped last step; rule of C13)
    from . import c13
    ctx.guard(c13.r13_4)


# ------------------------------------------------------------------------------------------------ R01.6
def r01_6(ctx):
    """'... driven by the very Brownian path that was supplied': the Brownian motion the solver is constructed with is the
    caller's object itself -- not a copy, not an object re-created "with the same entropy" (equal entropy gives another
    path as soon as dtype, device, interval or query history differ).  The validation phase of sdeint / sdeint_adjoint is
    evaluated (C19's scenario) with a supplied BrownianInterval whose dtype and device differ from y0's, and with a
    BrownianPath-like object; the solver's `bm` must be that object."""
    from . import c19
    from ..interp import Intrinsic, Obj, SimRaise
    rep, model = ctx.rep, ctx.model
    rep.rule("R01.6", "the solver is constructed with the caller's Brownian object itself, whatever its dtype / device / class")
    BI = "torchsde/_brownian/brownian_interval.py"
    n = 0
    for entry in ((c19.SDEINT, "sdeint"), ("torchsde/_core/adjoint.py", "sdeint_adjoint")):
        fi = model.func(*entry)
        rep.analysed(fi)
        for label, cls, attrs in (
                ("BrownianInterval of another dtype", model.cls(BI, "BrownianInterval"), {"dtype": "torch.float32", "device": "y0.device"}),
                ("BrownianInterval on another device", model.cls(BI, "BrownianInterval"), {"dtype": "y0.dtype", "device": "cuda:1"}),
                ("BrownianInterval like y0", model.cls(BI, "BrownianInterval"), {"dtype": "y0.dtype", "device": "y0.device"}),
                ("BrownianPath", model.cls("torchsde/_brownian/derived.py", "BrownianPath"), {"dtype": "torch.float32", "device": "cpu"})):
            y0 = c19.TObj((4, 3), "y0")
            y0.attrs["dtype"], y0.attrs["device"] = "y0.dtype", "y0.device"
            a = {"shape": (Fraction(4), Fraction(3)), "levy_area_approximation": "space-time", "entropy": nf.sym("ENTROPY", True),
                 "_entropy": nf.sym("ENTROPY", True)}
            a.update(attrs)
            bm = Obj("supplied-bm", cls=cls, attrs=a)
            class H(c19.ContractHooks):
                def isinstance(self, interp, obj, classes):
                    if any("Module" in repr(c) for c in classes):
                        return True                    # the user's SDE is an nn.Module
                    return c19.ContractHooks.isinstance(self, interp, obj, classes)

                def external_call(self, interp, dotted, args, kwargs, node, fi_):
                    if dotted.endswith("_SdeintAdjointMethod.apply"):
                        self.solver = args[4] if len(args) > 4 else None
                        raise SimRaise("_IntegrationStarts", "validation phase passed", node, fi_)
                    return c19.ContractHooks.external_call(self, interp, dotted, args, kwargs, node, fi_)
            hooks = H()
            sde = c19.make_user_sde()
            theta = c19.TObj((3,), "theta", requires_grad=True)
            sde.attrs["parameters"] = Intrinsic("parameters", lambda it, a_, k, n_, f: [theta])
            r = c19.eval_check_contract(model, sde=sde, y0=y0, bm=bm, method="euler", hooks=hooks, entry=entry,
                                        extra_kw={"adjoint_params": [theta]} if entry[1] == "sdeint_adjoint" else None)
            construct = f"{fi.key}::R01.6::{label}"
            n += 1
            if r[0] != "ok":
                rep.fail("R01.6", astq.loc(fi), construct, f"a supplied {label} is rejected: {r[1:]}")
                continue
            solver = getattr(hooks, "solver", None)
            if solver is None:
                raise AnalysisError("the validation phase did not end in a solver call", where=astq.loc(fi))
            got = solver.attrs.get("bm")
            rep.check(got is bm, "R01.6", astq.loc(fi), construct,
                      f"{entry[1]} is given a {label} but constructs the solver with `{got!r}`: the solve is driven by another "
                      f"sample path than the one supplied ({len(hooks.default_bm)} Brownian object(s) were created on the way)",
                      "solver.bm is the supplied object")
    ctx.floor("R01.6", 8)


_run_before_r01_6 = run


def run(ctx):
    _run_before_r01_6(ctx)
    ctx.guard(r01_6)


_run_before_c12_r12_3 = run


def run(ctx):
    _run_before_c12_r12_3(ctx)
    # the step the fixed-step solve starts with is the requested dt (a dt silently raised to dt_min stops the error from shrinking), the
    # outputs start as [y0] and there is one per output time (rule of C12)
    from . import c12
    ctx.guard(c12.r12_3)


_run_before_c13_r13_1 = run


def run(ctx):
    _run_before_c13_r13_1(ctx)
    # nothing is kept on the solver or the SDE wrapper between evaluations (a diffusion memoised across calls loses its graph to
    # the state, and the Milstein correction differentiated from it is silently zero; rule of C13)
    from . import c13
    ctx.guard(c13.r13_1)
