"""C11 -- adjoint SDE vector fields are the exact vector-Jacobian products (DESIGN.md section C11)."""
import ast
from fractions import Fraction

from .. import astq, nf
from ..errors import AnalysisError
from ..interp import BoundMethod, Cat, Closure, Hooks, Interp, Intrinsic, Obj, SimRaise
from ..model import own_nodes
from ..nf import Rat
from . import solverkit, solvers
from .autograd_kit import AutogradModel

ADJ = "torchsde/_core/adjoint_sde.py"
ADJOINT = "torchsde/_core/adjoint.py"
N_COLS = 2

EXPLANATION = (
    "Every registered method of AdjointSDE is partially evaluated (ast only) for all 2x4 (sde_type, noise_type) cells, "
    "with gradients enabled and disabled, on a symbolic augmented state (y, adj_y); the forward SDE is opaque (F, G, "
    "bilinear prod evaluated at the time the code passes), misc.vjp / misc.jvp are opaque maps linear in their "
    "cotangent, keyed by (outputs, inputs), and .detach() is an opaque wrapper. R11.1: the canonical outputs equal the "
    "prescribed vector fields: state block minus the forward drift / diffusion-vector product at time -t (with the "
    "double Stratonovich correction g'g for Ito non-additive cells), adjoint blocks the VJPs of the effective drift / "
    "product with respect to [y] + params plus the Ito conversion terms; the Milstein term for diagonal noise likewise. "
    "R11.2: every autograd call has allow_unused=True; create_graph is the captured grad mode, and literal True exactly "
    "where the result is differentiated again. R11.3: with gradients disabled every returned block is graph-free "
    "(detached, or the result of a call with create_graph=False). R11.4: dispatch tables total over 2x4; g, f_and_g, "
    "prod are raising stubs. R11.5: get_state asserts leaves and captures the grad mode; the autograd.Function forward "
    "detaches y0 and the extras before integrating. Not decided: that the correction formulas themselves are the "
    "mathematically right ones beyond the structure stated in the property."
)


class AdjHooks(AutogradModel, Hooks):
    def __init__(self, requires_grad):
        self.ag_init()
        self._in_helper = False
        self.rg = requires_grad
        self.calls = []          # dict(kind, outputs, inputs, go, kwargs, node, fi, result)
        self.state_calls = []
        self.grad_depth = 0      # nesting of `with torch.enable_grad()` blocks
        self.graphless = {}      # atom -> (slot name) of forward-SDE values computed while grad mode was off
        self.y, self.adj_y = nf.sym("y"), nf.sym("adj_y")

    def tensor_attr(self, interp, recv, name, node, fi):
        r = self.ag_tensor_attr(interp, recv, name, node, fi)
        if r is not NotImplemented:
            return r
        if name == "requires_grad":
            return False
        if name == "is_leaf":
            return True
        return NotImplemented

    def tensor_method(self, interp, recv, name, args, kwargs, node, fi):
        if name == "detach":
            return nf.linear("DETACH", (), Rat.lift(recv))
        if name == "split":
            return [nf.linear(f"column{k}", (), Rat.lift(recv)) for k in range(N_COLS)]
        if name == "sum" and not args and not kwargs:
            return nf.linear("sum_all", (), Rat.lift(recv))
        if name == "size" and not args and not kwargs:
            return ("shape-of", Rat.lift(recv).key())
        if name in ("reshape", "view", "reshape_as", "view_as") and args and (
                isinstance(args[0], Rat) or (isinstance(args[0], tuple) and args[0] and args[0][0] == "shape-of")):
            # re-shaping to the shape of another tensor of the scenario moves no value (scalar noise: (B, d, 1) <-> (B, d))
            return recv
        return NotImplemented

    def external_call(self, interp, dotted, args, kwargs, node, fi):
        r = self.ag_external_call(interp, dotted, args, kwargs, node, fi)
        if r is not NotImplemented:
            return r
        if dotted == "torch.is_grad_enabled":
            return self.rg
        return NotImplemented

    def on_with(self, interp, ctx_text, entering, fi):
        if ctx_text.startswith("torch.enable_grad"):
            self.grad_depth += 1 if entering else -1

    def grad_mode_on(self):
        return self.rg or self.grad_depth > 0

    def _autograd(self, interp, callee, kind, args, kwargs, node, fi):
        """misc.vjp / misc.jvp: the call site is recorded, the helper's own body is evaluated on the autograd model."""
        outputs = kwargs.get("outputs", args[0] if args else None)
        inputs = kwargs.get("inputs", args[1] if len(args) > 1 else None)
        go = kwargs.get("grad_outputs" if kind == "vjp" else "grad_inputs")
        ins = list(inputs) if isinstance(inputs, (list, tuple)) else [inputs]
        no_graph = sorted({self.graphless[a] for o in (outputs if isinstance(outputs, (list, tuple)) else [outputs])
                           if isinstance(o, Rat) for a in nf.all_atoms(o) if a in self.graphless})
        self._in_helper = True
        try:
            res = interp.call_function(callee.fi, list(args), dict(kwargs))
        finally:
            self._in_helper = False
        flat = [r for r in (res if isinstance(res, (list, tuple)) else [res]) if isinstance(r, Rat)]
        self.calls.append(dict(kind=kind, outputs=outputs, inputs=ins, go=go, kwargs=dict(kwargs), node=node, fi=fi,
                               result=flat, no_graph=no_graph))
        return res

    def on_call(self, interp, callee, args, kwargs, node, fi):
        if isinstance(callee, Closure) and callee.fi is not None and callee.fi.module.relpath.endswith("misc.py"):
            nm = callee.fi.name
            if nm in ("vjp", "jvp") and not self._in_helper:
                return self._autograd(interp, callee, nm, args, kwargs, node, fi)
            if nm == "flatten":
                return Cat("flat", list(args[0]))
        if isinstance(callee, BoundMethod) and callee.fi.name == "get_state":
            self.state_calls.append((args, dict(kwargs), node, fi))
            return (self.y, self.adj_y, [], self.rg)
        return NotImplemented


def make_adjoint(model, sde_type, noise_type, requires_grad):
    cls = model.cls(ADJ, "AdjointSDE")
    fwd = solverkit.make_sde()
    fwd.attrs["sde_type"], fwd.attrs["noise_type"] = sde_type, noise_type
    hooks = AdjHooks(requires_grad)
    # every forward-SDE evaluation records whether autograd was recording at that moment
    for slot, intr in list(fwd.attrs.items()):
        if isinstance(intr, Intrinsic):
            def wrapped(it, a, k, n, f, _orig=intr.fn, _slot=slot):
                out = _orig(it, a, k, n, f)
                if not hooks.grad_mode_on():
                    for o in (out if isinstance(out, (tuple, list)) else (out,)):
                        if isinstance(o, Rat):
                            for atom in nf.all_atoms(o):
                                if atom[0] in ("fn", "bil", "lin"):
                                    hooks.graphless[atom] = _slot
                return out
            fwd.attrs[slot] = Intrinsic(intr.name, wrapped)
    it = Interp(model, hooks)
    theta = nf.sym("theta")
    obj = it.instantiate(cls, [fwd, [theta], ["shape0", "shape1"]], {})
    return obj, it, hooks, theta


def vjp(out, inp, go):
    return nf.linear("VJP", (Rat.lift(out).key(), Rat.lift(inp).key()), Rat.lift(go))


def jvp(out, inp, gi):
    return nf.linear("JVP", (Rat.lift(out).key(), Rat.lift(inp).key()), Rat.lift(gi))


def det(x, rg):
    return x if rg else nf.linear("DETACH", (), Rat.lift(x))


def corrected(kind, t, y, a, theta, rg):
    """(effective drift Fc, extra Ito-conversion VJP terms w.r.t. y, theta)."""
    Fv, Gv = solverkit.F(-t, y), solverkit.G(-t, y)
    if kind == "uncorrected":
        return Fv, Rat.const(0), Rat.const(0)
    if kind == "diagonal":
        J = vjp(Gv, y, Gv)
        adg = vjp(Gv, y, a)
        return Fv - J, vjp(Gv, y, adg), vjp(Gv, theta, adg)
    cols = [nf.linear(f"column{k}", (), Gv) for k in range(N_COLS)]
    J = Rat.const(0)
    ey, et = Rat.const(0), Rat.const(0)
    for c in cols:
        J = J + jvp(c, y, c)
        adg = vjp(c, y, a)
        ey, et = ey + vjp(c, y, adg), et + vjp(c, theta, adg)
    return Fv - J, ey, et


def cell_kind(sde_type, noise_type):
    if sde_type == "stratonovich" or noise_type == "additive":
        return "uncorrected"
    return "diagonal" if noise_type == "diagonal" else "default"


def _value_of(x):
    """The value of an expression: `.detach()` changes what autograd sees, not the number."""
    def f(a, args):
        if a[0] == "lin" and a[1] == "DETACH":
            return args[1]
        return None
    return nf.rewrite(Rat.lift(x), f)


def _cat_matches(got, want, values_only=False):
    if not (isinstance(got, Cat) and len(got.parts) == len(want)):
        return False
    if values_only:
        return all(nf.equal(_value_of(g), _value_of(w)) for g, w in zip(got.parts, want))
    return all(nf.equal(g, w) for g, w in zip(got.parts, want))


def r11_1(ctx):
    rep, model = ctx.rep, ctx.model
    rep.rule("R11.1", "adjoint drift / diffusion-vector product / Milstein term equal the prescribed vector fields in "
                      "every (sde_type, noise_type) cell, with gradients enabled and disabled")
    dom = solvers.Domains(model)
    t, v, v1, v2 = nf.sym("t", True), nf.sym("v"), nf.sym("v1"), nf.sym("v2")
    yaug = nf.sym("y_aug")
    all_calls = []
    for st in dom.sde_types.values():
        for nt in dom.noise_types.values():
            for rg in (True, False):
                obj, it, hooks, theta = make_adjoint(model, st, nt, rg)
                y, a = hooks.y, hooks.adj_y
                kind = cell_kind(st, nt)
                Fc, ey, et = corrected(kind, t, y, a, theta, rg)
                want_f = [-det(Fc, rg), vjp(Fc, y, a) + ey, vjp(Fc, theta, a) + et]
                P = solverkit.prod(solverkit.G(-t, y), v)
                want_g = [-det(P, rg), vjp(P, y, a), vjp(P, theta, a)]
                cell = f"{st}/{nt}/grad={'on' if rg else 'off'}"
                # ---- f
                fslot = obj.attrs.get("f")
                got = it.call(fslot, [t, yaug], {})
                fi = fslot.fi
                rep.analysed(fi)
                rep.check(_cat_matches(got, want_f), "R11.1", astq.loc(fi), f"{fi.key}::R11.1::f::{cell}",
                          f"adjoint drift for ({cell}) is `{_show(got)}`; prescribed: `{[str(x)[:160] for x in want_f]}` "
                          f"(state block minus the forward drift at -t{' with the double Stratonovich correction' if kind != 'uncorrected' else ''}; "
                          f"adjoint blocks the VJPs w.r.t. [y] + params{' plus the Ito conversion terms' if kind != 'uncorrected' else ''})",
                          "equals the prescribed adjoint drift")
                # ---- g_prod
                gp = it.getattr(obj, "g_prod")
                got = it.call(gp, [t, yaug, v], {})
                rep.analysed(gp.fi)
                rep.check(_cat_matches(got, want_g), "R11.1", astq.loc(gp.fi), f"{gp.fi.key}::R11.1::g_prod::{cell}",
                          f"adjoint diffusion-vector product for ({cell}) is `{_show(got)}`; prescribed: "
                          f"`{[str(x)[:160] for x in want_g]}`", "equals the prescribed adjoint diffusion-vector product")
                # ---- f_and_g_prod
                fg = obj.attrs.get("f_and_g_prod")
                got = it.call(fg, [t, yaug, v], {})
                rep.analysed(fg.fi)
                ok = isinstance(got, tuple) and len(got) == 2 and _cat_matches(got[0], want_f) and _cat_matches(got[1], want_g)
                rep.check(ok, "R11.1", astq.loc(fg.fi), f"{fg.fi.key}::R11.1::f_and_g_prod::{cell}",
                          f"adjoint f_and_g_prod for ({cell}) is `{[_show(x) for x in got] if isinstance(got, tuple) else got}`; "
                          f"it must equal (adjoint drift, adjoint diffusion-vector product)",
                          "equals (adjoint drift, adjoint g_prod)")
                # ---- Milstein term (diagonal only)
                ms = obj.attrs.get("g_prod_and_gdg_prod")
                if nt == dom.noise_types.get("diagonal"):
                    got = it.call(ms, [t, yaug, v1, v2], {})
                    rep.analysed(ms.fi)
                    Gv = solverkit.G(-t, y)
                    P1 = solverkit.prod(Gv, v1)
                    want_gp = [-det(P1, rg), vjp(P1, y, a), vjp(P1, theta, a)]
                    dgdy = vjp(nf.linear("sum_all", (), Gv), y, Rat.const(1))
                    w = a * v2 * dgdy
                    # mixed partials from their definition: sum_i (a v2 g)_i d(dg_i/dy_i)/d(y, params) -- the weight is
                    # the cotangent of a VJP of the diagonal derivative.  The same *value* is obtained by differentiating
                    # vjp(g, y, c) with the weight c held constant by .detach() (symmetry of mixed partials); that form is
                    # accepted here, where values are compared -- whether it stays differentiable is R11.6's business.
                    c = a * v2 * Gv
                    want_ms = [vjp(Gv, y, v2 * Gv), vjp(Gv, y, w) - vjp(dgdy, y, c), vjp(Gv, theta, w) - vjp(dgdy, theta, c)]
                    savg = nf.linear("sum_all", (), vjp(Gv, y, nf.linear("DETACH", (), c)))
                    want_ms_detached = [vjp(Gv, y, v2 * Gv), vjp(Gv, y, w) - vjp(savg, y, Rat.const(1)),
                                        vjp(Gv, theta, w) - vjp(savg, theta, Rat.const(1))]
                    # with gradients disabled the blocks may be detached on the way out (R11.3 wants exactly that where a vjp
                    # can hand back its cotangent): values are compared
                    ok = isinstance(got, tuple) and len(got) == 2 and _cat_matches(got[0], want_gp, values_only=not rg) and \
                        (_cat_matches(got[1], want_ms, values_only=not rg) or _cat_matches(got[1], want_ms_detached, values_only=not rg))
                    rep.check(ok, "R11.1", astq.loc(ms.fi), f"{ms.fi.key}::R11.1::milstein::{cell}",
                              f"adjoint Milstein pair for ({cell}) is `{[_show(x) for x in got] if isinstance(got, tuple) else got}`; "
                              f"prescribed: (adjoint g_prod of v1, [vjp(g, y, v2 g), product-rule partials minus mixed "
                              f"partials w.r.t. [y] + params])", "equals the prescribed adjoint Milstein term")
                else:
                    try:
                        it.call(ms, [t, yaug, v1, v2], {})
                        rep.fail("R11.1", astq.loc(ms.fi), f"{ms.fi.key}::R11.1::milstein::{cell}",
                                 f"the adjoint Milstein term for non-diagonal noise ({cell}) returns a value; it is not "
                                 f"implemented and must raise")
                    except SimRaise:
                        rep.ok("R11.1", astq.loc(ms.fi), f"{ms.fi.key}::R11.1::milstein::{cell}", "explicit raise")
                all_calls.append((cell, hooks))
    ctx._cache["adj_calls"] = all_calls
    ctx.floor("R11.1", 60)


def _show(x):
    if isinstance(x, Cat):
        return [str(p)[:160] for p in x.parts]
    return str(x)[:300]


def r11_2(ctx):
    rep, model = ctx.rep, ctx.model
    rep.rule("R11.2", "autograd calls: allow_unused=True; create_graph is the captured grad mode, literal True exactly "
                      "where the result is differentiated again; R11.3: no graph leaks with gradients disabled")
    if "adj_calls" not in ctx._cache:
        raise AnalysisError("R11.2 needs the evaluations of R11.1")
    seen = {}
    for cell, hooks in ctx._cache["adj_calls"]:
        for i, c in enumerate(hooks.calls):
            node, fi = c["node"], c["fi"]
            key = (fi.key, astq.digest(node))
            # is the result used inside the `outputs` of a later call in the same evaluation?
            res_atoms = set()
            for r in c["result"]:
                res_atoms |= set(r.atoms())
            again = False
            for later in hooks.calls[i + 1:]:
                outs = later["outputs"]
                outs = list(outs) if isinstance(outs, (list, tuple)) else [outs]
                for o in outs:
                    if isinstance(o, Rat) and (nf.all_atoms(o) & res_atoms):
                        again = True
            ent = seen.setdefault(key, dict(fi=fi, node=node, again=False, cells=[], cg_values=set()))
            ent["again"] = ent["again"] or again
            ent["cells"].append(cell)
            # the value create_graph evaluated to, per grad mode of the scenario (name-free)
            ent["cg_values"].add((cell.endswith("grad=on"), c["kwargs"].get("create_graph", False)))
            if c.get("no_graph"):
                ent["no_graph"] = sorted(set(ent.get("no_graph", [])) | set(c["no_graph"]))
    for (fkey, dg), ent in sorted(seen.items()):
        fi, node = ent["fi"], ent["node"]
        rep.analysed(fi)
        rep.check(not ent.get("no_graph"), "R11.2", astq.loc(fi, node), f"{fkey}::R11.2::outputs-have-graph::{dg}",
                  f"`{ast.unparse(node)[:70]}...` differentiates a value of the forward SDE (`{', '.join(ent.get('no_graph') or [])}`) "
                  f"that was computed outside `with torch.enable_grad()`: inside the adjoint's backward pass grad mode is off, the "
                  f"value has no graph, and -- because of allow_unused / zero-filling -- the vector-Jacobian product is silently zero",
                  "differentiated values are computed under enable_grad")
        au = astq.kwarg(node, "allow_unused")
        cg = astq.kwarg(node, "create_graph")
        ok_au = isinstance(au, ast.Constant) and au.value is True
        rep.check(ok_au, "R11.2", astq.loc(fi, node), f"{fkey}::R11.2::allow_unused::{dg}",
                  f"`{ast.unparse(node)[:70]}...` lacks allow_unused=True: a parameter the SDE does not use would raise "
                  f"instead of receiving a zero gradient", "allow_unused=True")
        vals = ent["cg_values"]
        lit_true = bool(vals) and all(v is True for _, v in vals)
        from_mode = bool(vals) and all(v is mode for mode, v in vals) and {m for m, _ in vals} == {True, False}
        if ent["again"]:
            rep.check(lit_true, "R11.2", astq.loc(fi, node), f"{fkey}::R11.2::create_graph::{dg}",
                      f"`{ast.unparse(node)[:70]}...`: its result is differentiated again by a later autograd call, so it "
                      f"needs create_graph=True (has `{ast.unparse(cg) if cg is not None else 'nothing'}`): with gradients "
                      f"disabled the second derivative would be silently zero / fail", "create_graph=True (differentiated again)")
        else:
            rep.check(from_mode, "R11.2", astq.loc(fi, node), f"{fkey}::R11.2::create_graph::{dg}",
                      f"`{ast.unparse(node)[:70]}...`: create_graph is `{ast.unparse(cg) if cg is not None else 'absent'}`; "
                      f"it must be the grad mode captured by get_state (`requires_grad`): True loses memory / leaks a graph "
                      f"when gradients are disabled, False breaks double backward", "create_graph=requires_grad")
    ctx.floor("R11.2", 28)


def r11_3(ctx):
    rep, model = ctx.rep, ctx.model
    rep.rule("R11.3", "with gradients disabled every returned block is detached or produced with create_graph=False")
    dom = solvers.Domains(model)
    t, v = nf.sym("t", True), nf.sym("v")
    yaug = nf.sym("y_aug")
    for st in dom.sde_types.values():
        for nt in dom.noise_types.values():
            obj, it, hooks, theta = make_adjoint(model, st, nt, False)
            outs = []
            fslot = obj.attrs.get("f")
            outs.append((fslot.fi, it.call(fslot, [t, yaug], {})))
            gp = it.getattr(obj, "g_prod")
            outs.append((gp.fi, it.call(gp, [t, yaug, v], {})))
            if nt == dom.noise_types.get("diagonal"):
                ms = obj.attrs.get("g_prod_and_gdg_prod")
                r = it.call(ms, [t, yaug, nf.sym("v1"), nf.sym("v2")], {})
                outs.append((ms.fi, r[0]))
                outs.append((ms.fi, r[1]))
            # results of calls whose create_graph evaluated to something true keep a graph
            graphy = set()

            def carries_graph(x):
                """An expression computed under enable_grad from the re-rooted state: opaque evaluations outside a DETACH."""
                return isinstance(x, Rat) and any(a[0] in ("fn", "bil") for a in x.atoms())
            for c in hooks.calls:
                cgv = c["kwargs"].get("create_graph", False)
                if cgv is True:
                    for r in c["result"]:
                        graphy |= set(r.atoms())
                elif c["kind"] == "vjp" and carries_graph(c.get("go")):
                    # autograd hands a cotangent back *as* the gradient when the differentiated map is the identity in that
                    # input (g = y + c: dg/dy = I): the result is then the cotangent tensor itself, graph and all, whatever
                    # create_graph says
                    for r in c["result"][:1]:
                        graphy |= set(r.atoms())
            for fi, cat in outs:
                if not isinstance(cat, Cat):
                    continue
                for k, part in enumerate(cat.parts):
                    leaks = []
                    for a in Rat.lift(part).atoms():
                        if a[0] == "lin" and a[1] == "DETACH":
                            continue
                        if a[0] in ("fn", "bil") or a in graphy:
                            leaks.append(nf.show_atom(a)[:60])
                    rep.check(not leaks, "R11.3", astq.loc(fi), f"{fi.key}::R11.3::{st}/{nt}::block{k}",
                              f"{fi.qualname} ({st}/{nt}) with gradients disabled returns block {k} = `{str(part)[:160]}` "
                              f"which still carries an autograd graph ({leaks}): the graph built under enable_grad is "
                              f"kept alive (memory leak) although nothing will backpropagate through it",
                              "graph-free when gradients are disabled")
    ctx.floor("R11.3", 50)


def r11_6(ctx):
    """'... and remains differentiable when enabled': with gradients enabled no returned block may contain a value that
    was cut out of the graph.  `.detach()` is an opaque wrapper in the evaluation, so a detached factor anywhere inside a
    returned block -- also inside the cotangent of an autograd call -- shows as a DETACH atom: the block then has a
    grad_fn, but its derivative ignores the dependence of that factor on the state, the adjoint and the parameters."""
    rep, model = ctx.rep, ctx.model
    rep.rule("R11.6", "with gradients enabled no returned block of an adjoint vector field contains a detached factor")
    dom = solvers.Domains(model)
    t, v = nf.sym("t", True), nf.sym("v")
    yaug = nf.sym("y_aug")
    n = 0
    for st in dom.sde_types.values():
        for nt in dom.noise_types.values():
            obj, it, hooks, theta = make_adjoint(model, st, nt, True)
            outs = []
            fslot = obj.attrs.get("f")
            outs.append((fslot.fi, "f", it.call(fslot, [t, yaug], {})))
            gp = it.getattr(obj, "g_prod")
            outs.append((gp.fi, "g_prod", it.call(gp, [t, yaug, v], {})))
            fg = obj.attrs.get("f_and_g_prod")
            r = it.call(fg, [t, yaug, v], {})
            outs.append((fg.fi, "f_and_g_prod[0]", r[0]))
            outs.append((fg.fi, "f_and_g_prod[1]", r[1]))
            if nt == dom.noise_types.get("diagonal"):
                ms = obj.attrs.get("g_prod_and_gdg_prod")
                r = it.call(ms, [t, yaug, nf.sym("v1"), nf.sym("v2")], {})
                outs.append((ms.fi, "g_prod_and_gdg_prod[0]", r[0]))
                outs.append((ms.fi, "g_prod_and_gdg_prod[1]", r[1]))
            for fi, label, cat in outs:
                if not isinstance(cat, Cat):
                    raise AnalysisError(f"{fi.qualname} does not return a flattened block list", where=astq.loc(fi))
                for k, part in enumerate(cat.parts):
                    cut = sorted({nf.show_atom(a)[:90] for a in nf.all_atoms(Rat.lift(part)) if a[0] == "lin" and a[1] == "DETACH"})
                    n += 1
                    rep.check(not cut, "R11.6", astq.loc(fi), f"{fi.key}::R11.6::{st}/{nt}::{label}::block{k}",
                              f"{fi.qualname} ({st}/{nt}) with gradients enabled: block {k} of {label} contains the detached "
                              f"factor(s) {cut}: the returned tensor has a grad_fn but its derivative with respect to the "
                              f"state, the adjoint and the parameters ignores them (autograd and finite differences of the "
                              f"function's own values disagree)", "no detached factor")
    ctx.floor("R11.6", 100)


def r11_4(ctx):
    rep, model = ctx.rep, ctx.model
    rep.rule("R11.4", "dispatch tables of AdjointSDE are total over 2x4; g, f_and_g, prod are raising stubs")
    dom = solvers.Domains(model)
    for st in dom.sde_types.values():
        for nt in dom.noise_types.values():
            obj, it, hooks, theta = make_adjoint(model, st, nt, True)
            for slot in ("f", "f_and_g_prod", "g_prod_and_gdg_prod"):
                rep.check(obj.attrs.get(slot) is not None, "R11.4", ADJ, f"{ADJ}::AdjointSDE.__init__::R11.4::{slot}::{st}/{nt}",
                          f"AdjointSDE.{slot} is None for forward ({st}, {nt}): the dispatch table has no entry",
                          f"-> {getattr(getattr(obj.attrs.get(slot), 'fi', None), 'name', None)}")
            rep.check(obj.attrs.get("noise_type") in dom.noise_types.values(), "R11.4", ADJ,
                      f"{ADJ}::AdjointSDE.__init__::R11.4::noise-map::{st}/{nt}",
                      f"adjoint noise type for forward {nt} is {obj.attrs.get('noise_type')!r}", "valid adjoint noise type")
    obj, it, hooks, theta = make_adjoint(model, "ito", "diagonal", True)
    for stub, args in (("g", 2), ("f_and_g", 2), ("prod", 2)):
        m = it.getattr(obj, stub)
        try:
            it.call(m, [nf.sym("a")] * args, {})
            rep.fail("R11.4", astq.loc(m.fi), f"{m.fi.key}::R11.4::stub", f"AdjointSDE.{stub} returns a value; it must raise "
                     f"(a solver needing it would otherwise silently integrate something)")
        except SimRaise as e:
            rep.ok("R11.4", astq.loc(m.fi), f"{m.fi.key}::R11.4::stub", f"raises {e.exc_name}")
    ctx.floor("R11.4", 35)


def r11_5(ctx):
    rep, model = ctx.rep, ctx.model
    rep.rule("R11.5", "leaf discipline: get_state asserts leaves, captures the grad mode, leafifies y only when it has no "
                      "graph; the Function's forward detaches y0 and the extras before integrating")
    gs = model.func(ADJ, "AdjointSDE.get_state")
    rep.analysed(gs)
    asserts = [ast.unparse(n.test) for n in own_nodes(gs.node) if isinstance(n, ast.Assert)]
    ok = "t.is_leaf" in asserts and "y_aug.is_leaf" in asserts and "v.is_leaf" in asserts
    rep.check(ok, "R11.5", astq.loc(gs), f"{gs.key}::R11.5::leaf-asserts",
              f"get_state asserts {asserts}; it must assert that t, y_aug and v are leaves (else autograd.grad walks back "
              f"into the solver's history)", "asserts t, y_aug, v leaves")
    rets = [n for n in own_nodes(gs.node) if isinstance(n, ast.Return)]
    ok = False
    mode_name = None
    if len(rets) == 1 and isinstance(rets[0].value, ast.Tuple) and isinstance(rets[0].value.elts[-1], ast.Name):
        mode_name = rets[0].value.elts[-1].id
        cap = [v for _, v in astq.assignments_to(gs, mode_name)]
        ok = len(cap) == 1 and cap[0] is not None and ast.unparse(cap[0]) == "torch.is_grad_enabled()"
        # captured before any enable_grad block of this function
        for n in own_nodes(gs.node):
            if isinstance(n, ast.With) and any("enable_grad" in ast.unparse(i.context_expr) for i in n.items):
                asg = [t for t, _ in astq.assignments_to(gs, mode_name)]
                ok = ok and all(getattr(a, "lineno", 0) < n.lineno for a in asg)
    rep.check(ok, "R11.5", astq.loc(gs), f"{gs.key}::R11.5::grad-mode",
              "get_state does not return torch.is_grad_enabled() (captured before any enable_grad) as its last element",
              "returns the captured grad mode")
    det_calls = [n for n in own_nodes(gs.node) if isinstance(n, ast.Call) and isinstance(n.func, ast.Attribute)
                 and n.func.attr == "detach"]
    ok = False
    if len(det_calls) == 1 and isinstance(det_calls[0].func.value, ast.Name):
        yname = det_calls[0].func.value.id          # the state block being leafified, whatever it is called
        first = rets[0].value.elts[0] if rets and isinstance(rets[0].value, ast.Tuple) else None
        ok = (f"{yname}.requires_grad", False) in astq.facts_at(gs, det_calls[0]) and \
            isinstance(first, ast.Name) and first.id == yname
    rep.check(ok, "R11.5", astq.loc(gs), f"{gs.key}::R11.5::leafify",
              "get_state detaches the state block other than under `not <state>.requires_grad`", "leafify only when y has no graph")
    # forward of the autograd.Function
    fwd = model.func(ADJOINT, "_SdeintAdjointMethod.forward")
    rep.analysed(fwd)
    seen = []

    class H(Hooks):
        def tensor_method(self, interp, recv, name, args, kwargs, node, fi):
            if name == "detach":
                return nf.linear("DETACH", (), Rat.lift(recv))
            return NotImplemented
    from .c10 import make_ctx
    ctx_obj = make_ctx([], [])
    solver = Obj("solver", attrs={"integrate": Intrinsic("integrate", lambda it, a, k, n, f: (seen.append(tuple(a)) or
                                                                                             (nf.sym("YS"), (nf.sym("E1"),)))),
                                  "adaptive": True, "dt": nf.sym("dt", True), "dt_min": nf.sym("dt_min", True), "options": {}})
    it = Interp(model, H())
    y0, x1 = nf.sym("y0"), nf.sym("X1")
    args = [ctx_obj, Obj("sde"), nf.sym("ts"), nf.sym("dt", True), Obj("bm"), solver, "midpoint", "midpoint", False,
            nf.sym("rtol", True), nf.sym("atol", True), nf.sym("dt_min", True), {}, Fraction(1), y0, x1, nf.sym("P1")]
    it.call_function(fwd, args, {})
    ok = len(seen) == 1 and nf.equal(seen[0][0], nf.linear("DETACH", (), y0)) and nf.equal(seen[0][1], nf.sym("ts")) \
        and isinstance(seen[0][2], tuple) and len(seen[0][2]) == 1 and nf.equal(seen[0][2][0], nf.linear("DETACH", (), x1))
    rep.check(ok, "R11.5", astq.loc(fwd), f"{fwd.key}::R11.5::forward-detaches",
              f"forward calls integrate with `{[[str(x) for x in (a if isinstance(a, tuple) else (a,))] for a in (seen[0] if seen else [])]}`; "
              f"it must pass y0.detach(), ts and the detached extras (the adjoint's leaf checks rely on it)",
              "integrate(y0.detach(), ts, detached extras)")
    ctx.floor("R11.5", 4)


def run(ctx):
    ctx.guard(r11_1)
    ctx.guard(r11_2)
    ctx.guard(r11_3)
    ctx.guard(r11_4)
    ctx.guard(r11_5)
    ctx.guard(r11_6)
    # "equal, at every point, the prescribed quantities": the fields are functions of (t, y_aug, v) -- nothing is kept on the
    # AdjointSDE object from one evaluation to the next (rule of C13: no attribute store outside constructors)
    from . import c13
    ctx.guard(c13.r13_1)
