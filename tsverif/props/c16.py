"""C16 -- equivalent SDE interfaces give identical solutions; derived operators are exact (DESIGN.md section C16)."""
import ast
import itertools
from fractions import Fraction

from .. import astq, nf
from ..errors import AnalysisError
from ..interp import Hooks, Interp, Intrinsic, Obj, SimRaise
from ..model import own_nodes
from ..nf import Rat
from . import solverkit, solvers
from .c02 import FwdHooks

BASE_SDE = "torchsde/_core/base_sde.py"
SDEINT = "torchsde/_core/sdeint.py"
PRIMS = ("f", "g", "f_and_g", "g_prod", "f_and_g_prod")

EXPLANATION = (
    "Finite-domain evaluation of ForwardSDE's registration logic (ast only). R16.1: for each of the 32 subsets of the "
    "user primitives {f, g, f_and_g, g_prod, f_and_g_prod} and for diagonal and general noise, ForwardSDE(user) is "
    "constructed abstractly and every slot is called on symbolic arguments: the result must be exactly the slot's "
    "meaning in terms of the one pair of functions (F, G) the user describes (f -> F, g -> G, f_and_g -> (F, G), "
    "g_prod -> G.v, f_and_g_prod -> (F, G.v), with G.v element-wise for diagonal noise and a batched mat-vec otherwise) "
    "or an explicit RuntimeError -- never a different value; with f and g supplied every slot must be defined. R16.2: "
    "prod / g_prod_and_gdg_prod / dg_ga_jvp_column_sum resolve for all four noise types. R16.3: RenameMethodsSDE binds "
    "each renamed user method to the right slot, and check_contract forwards only keys that are constructor parameters. "
    "R16.4: every SDE slot a solver step uses exists on ForwardSDE. Not decided: bit identity between variants; values "
    "of the autograd-derived operators."
)


def _gv(nt, G, v):
    return G * v if nt == "diagonal" else nf.bilinear("mvp", G, v)


def user_sde(nt, subset):
    """Abstract user SDE exposing `subset`, all describing the same (F, G)."""
    def mk(name):
        def f(it, a, k, n, fi):
            t, y = a[0], a[1]
            Fv, Gv = solverkit.F(t, y), solverkit.G(t, y)
            if name == "f":
                return Fv
            if name == "g":
                return Gv
            if name == "f_and_g":
                return (Fv, Gv)
            if name == "g_prod":
                return _gv(nt, Gv, a[2])
            if name == "f_and_g_prod":
                return (Fv, _gv(nt, Gv, a[2]))
        return Intrinsic(f"user.{name}", f)
    return Obj("user-sde", attrs=dict({"noise_type": nt, "sde_type": "ito"}, **{n: mk(n) for n in subset}))


def meaning(nt, slot, t, y, v):
    Fv, Gv = solverkit.F(t, y), solverkit.G(t, y)
    return {"f": Fv, "g": Gv, "f_and_g": (Fv, Gv), "g_prod": _gv(nt, Gv, v), "f_and_g_prod": (Fv, _gv(nt, Gv, v))}[slot]


def r16_1(ctx):
    rep, model = ctx.rep, ctx.model
    rep.rule("R16.1", "32 method subsets x {diagonal, general}: every ForwardSDE slot is the user's function pair's "
                      "meaning or an explicit error, never something else")
    fwd = model.cls(BASE_SDE, "ForwardSDE")
    t, y, v = nf.sym("t", True), nf.sym("y"), nf.sym("v")
    n = 0
    for nt in ("diagonal", "general"):
        for r in range(len(PRIMS) + 1):
            for subset in itertools.combinations(PRIMS, r):
                it = Interp(model, FwdHooks())
                try:
                    obj = it.instantiate(fwd, [user_sde(nt, subset)], {})
                except SimRaise as e:
                    rep.fail("R16.1", astq.loc(fwd.methods["__init__"]), f"{fwd.key}::R16.1::{nt}::{'+'.join(subset) or 'none'}::ctor",
                             f"ForwardSDE(user with {subset}) raises {e.exc_name} at construction")
                    continue
                for slot in PRIMS:
                    n += 1
                    construct = f"{fwd.key}::R16.1::{nt}::{'+'.join(subset) or 'none'}::{slot}"
                    args = [t, y] + ([v] if slot in ("g_prod", "f_and_g_prod") else [])
                    try:
                        got = it.call(it.getattr(obj, slot), args, {})
                    except SimRaise as e:
                        derivable = _derivable(slot, subset)
                        ok = e.exc_name in ("RuntimeError", "ValueError", "NotImplementedError") and not derivable
                        rep.check(ok, "R16.1", astq.loc(fwd.methods["__init__"]), construct,
                                  f"with user methods {subset} ({nt} noise) slot `{slot}` raises {e.exc_name}"
                                  + (" although it is derivable from the supplied methods" if derivable else
                                     ": a missing method must fail with an explicit RuntimeError"),
                                  f"explicit {e.exc_name}")
                        continue
                    want = meaning(nt, slot, t, y, v)
                    ok = nf.equal(got, want)
                    rep.check(ok, "R16.1", astq.loc(fwd.methods["__init__"]), construct,
                              f"with user methods {subset} ({nt} noise) slot `{slot}` evaluates to `{got}`; the functions the "
                              f"user describes give `{want}`: two interface variants of the same SDE would be solved "
                              f"differently", "equals the meaning of the slot")
    ctx.floor("R16.1", 300)


def _derivable(slot, subset):
    """What ForwardSDE promises to derive (documented by its defaults): with f and g every slot; g_prod from g;
    f_and_g from f and g; f_and_g_prod from (f, g_prod) or f_and_g or (f, g)."""
    s = set(subset)
    if slot in s:
        return True
    if slot == "f_and_g":
        return {"f", "g"} <= s
    if slot == "g_prod":
        return "g" in s
    if slot == "f_and_g_prod":
        return ("f" in s and ("g_prod" in s or "g" in s)) or "f_and_g" in s
    return False


def r16_2(ctx):
    rep, model = ctx.rep, ctx.model
    rep.rule("R16.2", "noise-type dispatch tables of ForwardSDE are total over the four noise types")
    fwd = model.cls(BASE_SDE, "ForwardSDE")
    dom = solvers.Domains(model)
    for nt in dom.noise_types.values():
        it = Interp(model, FwdHooks())
        obj = it.instantiate(fwd, [user_sde(nt, ("f", "g"))], {})
        for slot in ("prod", "g_prod_and_gdg_prod", "dg_ga_jvp_column_sum"):
            val = obj.attrs.get(slot)
            rep.check(val is not None, "R16.2", astq.loc(fwd.methods["__init__"]), f"{fwd.key}::R16.2::{slot}::{nt}",
                      f"ForwardSDE.{slot} is None for {nt} noise: the dispatch table has no entry and no default",
                      f"resolves to {getattr(getattr(val, 'fi', None), 'name', val)}")
        # the product itself
        g, v = nf.sym("g"), nf.sym("v")
        p = it.call(obj.attrs["prod"], [g, v], {})
        want = g * v if nt == dom.noise_types.get("diagonal") else nf.bilinear("mvp", g, v)
        rep.check(nf.equal(p, want), "R16.2", astq.loc(fwd.methods["__init__"]), f"{fwd.key}::R16.2::prod-meaning::{nt}",
                  f"prod for {nt} noise is `{p}`, expected `{want}`", "element-wise (diagonal) / batched mat-vec")
    # batch_mvp is the batched matrix-vector product
    mvp = model.func("torchsde/_core/misc.py", "batch_mvp")
    body = [s for s in mvp.node.body if isinstance(s, ast.Return)]
    ok = len(body) == 1 and ast.unparse(body[0].value).replace(" ", "") in (
        "torch.bmm(m,v.unsqueeze(-1)).squeeze(dim=-1)", "torch.bmm(m,v.unsqueeze(-1)).squeeze(-1)")
    rep.check(ok, "R16.2", astq.loc(mvp), f"{mvp.key}::R16.2::batch_mvp",
              f"batch_mvp is `{ast.unparse(body[0].value) if body else '?'}`, not bmm(m, v[..., None])[..., 0]",
              "bmm(m, v.unsqueeze(-1)).squeeze(-1)")
    ctx.floor("R16.2", 16)


def r16_3(ctx):
    rep, model = ctx.rep, ctx.model
    rep.rule("R16.3", "RenameMethodsSDE binds renamed user methods to the right slots; check_contract forwards only "
                      "constructor parameters")
    rn = model.cls(BASE_SDE, "RenameMethodsSDE")
    init = rn.methods["__init__"]
    rep.analysed(init)
    roles = {"drift": "f", "diffusion": "g", "prior_drift": "h", "diffusion_prod": "g_prod",
             "drift_and_diffusion": "f_and_g", "drift_and_diffusion_prod": "f_and_g_prod"}
    params = init.params[2:]
    rep.check(set(params) == set(roles), "R16.3", astq.loc(init), f"{init.key}::R16.3::params",
              f"RenameMethodsSDE takes {params}; expected the six roles {sorted(roles)}", "six renaming roles")
    user = Obj("user", attrs={"noise_type": "diagonal", "sde_type": "ito"})
    for role in roles:
        user.attrs[f"my_{role}"] = f"<user method for {role}>"
    it = Interp(model, FwdHooks())
    obj = it.instantiate(rn, [user], {role: f"my_{role}" for role in params if role in roles})
    for role, slot in roles.items():
        got = obj.attrs.get(slot)
        rep.check(got == f"<user method for {role}>", "R16.3", astq.loc(init), f"{init.key}::R16.3::{role}",
                  f"names={{'{role}': ...}} binds slot `{slot}` to `{got}`: the renamed method ends up in the wrong slot",
                  f"{role} -> {slot}")
    # defaults: without renaming, slot names map to themselves
    user2 = Obj("user2", attrs={"noise_type": "diagonal", "sde_type": "ito"})
    for slot in roles.values():
        user2.attrs[slot] = f"<user {slot}>"
    obj2 = it.instantiate(rn, [user2], {})
    ok = all(obj2.attrs.get(slot) == f"<user {slot}>" for slot in roles.values())
    rep.check(ok, "R16.3", astq.loc(init), f"{init.key}::R16.3::defaults", "default names do not map each slot to itself",
              "defaults are the identity renaming")
    # a missing user method leaves the slot undefined (no silent substitute)
    user3 = Obj("user3", attrs={"noise_type": "diagonal", "sde_type": "ito", "f": "<f>"})
    obj3 = it.instantiate(rn, [user3], {})
    rep.check("g" not in obj3.attrs and obj3.attrs.get("f") == "<f>", "R16.3", astq.loc(init),
              f"{init.key}::R16.3::missing-stays-missing", "a method the user does not define appears on the renamed SDE",
              "missing methods stay missing")
    cc = model.func(SDEINT, "check_contract")
    keys = None
    for n in own_nodes(cc.node):
        if isinstance(n, ast.DictComp) and "names" in ast.unparse(n):
            for g in n.generators:
                if isinstance(g.iter, ast.Tuple):
                    keys = [e.value for e in g.iter.elts if isinstance(e, ast.Constant)]
    if keys is None:
        raise AnalysisError("check_contract no longer filters `names` through a literal tuple of keys", where=astq.loc(cc))
    rep.check(set(keys) <= set(params) and {"drift", "diffusion"} <= set(keys), "R16.3", astq.loc(cc),
              f"{cc.key}::R16.3::forwarded-keys",
              f"check_contract forwards keys {keys}; they must be constructor parameters of RenameMethodsSDE {params} and "
              f"include drift and diffusion", "forwarded keys are constructor parameters")
    ctx.floor("R16.3", 10)


def r16_4(ctx):
    rep, model = ctx.rep, ctx.model
    rep.rule("R16.4", "every SDE slot used by a solver step exists on ForwardSDE")
    fwd = model.cls(BASE_SDE, "ForwardSDE")
    defined = set(fwd.methods) | {"noise_type", "sde_type"}
    init = fwd.methods["__init__"]
    for n in own_nodes(init.node):
        if isinstance(n, ast.Attribute) and isinstance(n.ctx, ast.Store) and isinstance(n.value, ast.Name) \
                and n.value.id == init.params[0]:
            defined.add(n.attr)
    dom = solvers.Domains(model)
    classes, _ = solvers.solver_classes(model, dom)
    for c in classes:
        if c.name == "AdjointReversibleHeun":
            continue
        uses = {}
        for k in model.mro(c):
            for m in k.methods.values():
                for n in own_nodes(m.node):
                    if isinstance(n, ast.Attribute) and isinstance(n.value, ast.Attribute) and n.value.attr == "sde" \
                            and isinstance(n.value.value, ast.Name) and m.params and n.value.value.id == m.params[0]:
                        uses.setdefault(n.attr, m)
        for attr, m in sorted(uses.items()):
            rep.check(attr in defined, "R16.4", astq.loc(m), f"{c.key}::R16.4::{attr}",
                      f"{c.name} uses self.sde.{attr}, which ForwardSDE does not provide", "provided by ForwardSDE")
    ctx.floor("R16.4", 15)


def run(ctx):
    ctx.guard(r16_1)
    ctx.guard(r16_2)
    ctx.guard(r16_3)
    ctx.guard(r16_4)


# ------------------------------------------------------------------------------------------------ derived operators
class OpHooks(FwdHooks):
    """FwdHooks + a concrete number of noise channels so that the per-column loop of the Levy-area Jacobian unrolls."""
    M = 2

    def tensor_method(self, interp, recv, name, args, kwargs, node, fi):
        if name == "size":
            if args and int(args[0]) == -1:
                return Fraction(self.M)
            if not args:
                return (nf.sym("batch", True), nf.sym("d", True), Fraction(self.M))
        return FwdHooks.tensor_method(self, interp, recv, name, args, kwargs, node, fi)


def r16_5(ctx):
    from .c02 import gdg_wiring
    ctx.rep.rule("R16.5", "derived Milstein operator: g_prod_and_gdg_prod_* == (g v1, sum_l jvp(g[:, l], y, g[:, l] v2_l)) for each noise type a solver uses it with")
    gdg_wiring(ctx, "R16.5")
    ctx.floor("R16.5", 3)


def r16_6(ctx):
    rep, model = ctx.rep, ctx.model
    rep.rule("R16.6", "derived Levy-area Jacobian (column-sum implementation) == sum_l jvp(g[..., l], y, (g a)[..., l]); "
                      "zero for non-general noise; both implementations selected only for general noise")
    fwd = model.cls(BASE_SDE, "ForwardSDE")
    t, y, a = nf.sym("t", True), nf.sym("y"), nf.sym("a")
    hooks = OpHooks()
    it = Interp(model, hooks)
    obj = it.instantiate(fwd, [user_sde("general", ("f", "g"))], {})
    slot = obj.attrs.get("dg_ga_jvp_column_sum")
    fi = slot.fi
    rep.analysed(fi)
    got = it.call(slot, [t, y, a], {})
    G = solverkit.G(t, y)
    ga = nf.bilinear("bmm", G, a)
    want = Rat.const(0)
    for col in range(OpHooks.M):
        gc = nf.linear(f"getitem[...,{col}]", (), G)
        gac = nf.linear(f"getitem[...,{col}]", (), ga)
        want = want + nf.linear("JVP", (gc.key(), y.key()), gac)
    rep.check(isinstance(got, Rat) and nf.equal(got, want), "R16.6", astq.loc(fi), f"{fi.key}::R16.6::definition",
              f"dg_ga_jvp_column_sum (default implementation) evaluates to `{got}`; its definition sum_l "
              f"d g[:, l]/dy . (g a)[:, l] is `{want}`", "equals its definition")
    kw_ok = all(c[1].get("create_graph") is not None and c[1].get("allow_unused") is True for c in hooks.autograd_calls)
    rep.check(kw_ok and len(hooks.autograd_calls) == OpHooks.M, "R16.6", astq.loc(fi), f"{fi.key}::R16.6::per-column",
              f"{len(hooks.autograd_calls)} autograd calls for {OpHooks.M} noise channels (one JVP per column expected)",
              "one JVP per column")
    dom = solvers.Domains(model)
    for nt in dom.noise_types.values():
        it2 = Interp(model, OpHooks())
        o2 = it2.instantiate(fwd, [user_sde(nt, ("f", "g"))], {})
        s2 = o2.attrs.get("dg_ga_jvp_column_sum")
        if nt == dom.noise_types.get("general"):
            ok = getattr(s2, "fi", None) is not None and s2.fi.name.startswith("dg_ga_jvp_column_sum")
            o3 = it2.instantiate(fwd, [user_sde(nt, ("f", "g"))], {"fast_dg_ga_jvp_column_sum": True})
            s3 = o3.attrs.get("dg_ga_jvp_column_sum")
            ok = ok and getattr(s3, "fi", None) is not None and s3.fi.name.startswith("dg_ga_jvp_column_sum") \
                and s3.fi is not s2.fi
            rep.check(ok, "R16.6", astq.loc(fwd.methods["__init__"]), f"{fwd.key}::R16.6::dispatch::{nt}",
                      "general noise does not select the two Levy-area Jacobian implementations by the fast flag",
                      "v1 / v2 selected by fast_dg_ga_jvp_column_sum")
        else:
            val = it2.call(s2, [t, y, a], {})
            rep.check(not isinstance(val, Rat) and val == 0 or (isinstance(val, Rat) and val.is_zero()), "R16.6",
                      astq.loc(fwd.methods["__init__"]), f"{fwd.key}::R16.6::dispatch::{nt}",
                      f"for {nt} (commutative) noise the Levy-area Jacobian term is `{val}`, not zero", "zero")
    ctx.floor("R16.6", 5)


_run_base = run


def run(ctx):
    _run_base(ctx)
    ctx.guard(r16_5)
    ctx.guard(r16_6)


# ------------------------------------------------------------------------------------------------ R16.7 layout typestate
class Ax:
    """Abstract tensor for layout analysis: `axes` is a list of axes, each a tuple of named factors (row-major, major
    first), each factor (name, size).  `kind` says what the elements are, in terms of the factor names."""

    def __init__(self, axes, kind):
        self.axes = [tuple(a) for a in axes]
        self.kind = kind

    def __repr__(self):
        return f"{self.kind}{['*'.join(n for n, _ in a) for a in self.axes]}"


class LayoutError(Exception):
    pass


def _norm(i, n):
    i = int(i)
    return i if i >= 0 else n + i


class LayoutHooks(FwdHooks):
    """Index-layout semantics of the shape operations used by the fast Levy-area Jacobian."""
    B, D, M = ("batch", "B"), ("d", "D"), ("m", "M")

    def __init__(self):
        super().__init__()
        self.jvp_calls = []
        self.errors = []

    def tensor_attr(self, interp, recv, name, node, fi):
        if name == "requires_grad":
            return False
        return NotImplemented

    def external_call(self, interp, dotted, args, kwargs, node, fi):
        if dotted == "torch.is_grad_enabled":
            return True
        if dotted == "torch.bmm":
            g, a = args
            return Ax([g.axes[0], g.axes[1], a.axes[2]], "ga")          # ga[n, j, l] = sum_k g[n, j, k] a[n, k, l]
        if dotted == "torch.repeat_interleave":
            x = args[0]
            reps = kwargs.get("repeats", args[1] if len(args) > 1 else None)
            dim = _norm(kwargs.get("dim", args[2] if len(args) > 2 else 0), len(x.axes))
            axes = list(x.axes)
            axes[dim] = axes[dim] + (("l", str(reps)),)                  # each entry repeated consecutively: minor factor
            return Ax(axes, x.kind + "-dup")
        return NotImplemented


def _ax_method(it, x, name, args, kwargs, node, fi):
    n = len(x.axes)
    if name == "size":
        sizes = tuple(nf.sym("*".join(s for _, s in a), True) for a in x.axes)
        return sizes if not args else sizes[_norm(args[0], n)]
    if name == "detach" or name == "requires_grad_":
        return x
    if name == "transpose":
        i, j = _norm(args[0], n), _norm(args[1], n)
        axes = list(x.axes)
        axes[i], axes[j] = axes[j], axes[i]
        return Ax(axes, x.kind)
    if name == "permute":
        order = [_norm(a, n) for a in args]
        return Ax([x.axes[k] for k in order], x.kind)
    if name == "flatten":
        i, j = _norm(args[0], n), _norm(args[1], n)
        merged = tuple(f for a in x.axes[i:j + 1] for f in a)
        return Ax(x.axes[:i] + [merged] + x.axes[j + 1:], x.kind)
    if name == "repeat":
        reps = list(args)
        axes = list(x.axes)
        for k, r in enumerate(reps):
            if not (isinstance(r, Fraction) and r == 1):
                axes[k] = (("l", str(r)),) + axes[k]                      # whole tensor tiled: major factor
        return Ax(axes, x.kind + "-dup")
    if name in ("reshape", "view"):
        want = [str(a) for a in args]
        flat = [f for a in x.axes for f in a]
        if [s for _, s in flat] != want:
            raise LayoutError(f"`{name}({', '.join(want)})` splits a tensor whose rows are laid out as "
                              f"{[n_ for n_, _ in flat]} with sizes {[s for _, s in flat]}: the requested sizes do not "
                              f"follow the memory order, so rows of different batch elements / columns are mixed")
        return Ax([(f,) for f in flat], x.kind)
    if name == "diagonal":
        i, j = _norm(kwargs.get("dim1", 0), n), _norm(kwargs.get("dim2", 1), n)
        a, b = x.axes[i], x.axes[j]
        rest = [ax for k, ax in enumerate(x.axes) if k not in (i, j)]
        return Ax(rest + [(("diag(" + "*".join(f for f, _ in a) + "=" + "*".join(f for f, _ in b) + ")", a[0][1]),)], x.kind)
    if name == "sum":
        d = _norm(args[0] if args else kwargs.get("dim"), n)
        summed = x.axes[d]
        out = Ax([ax for k, ax in enumerate(x.axes) if k != d], x.kind)
        out.summed = getattr(x, "summed", []) + ["*".join(f for f, _ in summed)]
        return out
    raise AnalysisError(f"layout analysis: tensor method `.{name}` has no modelled index semantics",
                        where=astq.loc(fi, node))


def r16_7(ctx):
    rep, model = ctx.rep, ctx.model
    rep.rule("R16.7", "fast Levy-area Jacobian: index-layout typestate -- the duplicated state rows, the flattened g.a rows "
                      "and the un-flattening reshape use the same (batch, column) row order; the diagonal pairs g's column "
                      "with g.a's column; the result is indexed (batch, state)")
    fwd = model.cls(BASE_SDE, "ForwardSDE")
    fi = fwd.methods.get("dg_ga_jvp_column_sum_v2")
    if fi is None:
        raise AnalysisError("ForwardSDE.dg_ga_jvp_column_sum_v2 vanished", where=BASE_SDE)
    rep.analysed(fi)
    hooks = LayoutHooks()
    B, D, Mm = ("n", "batch_size"), ("j", "d"), ("k", "m")

    class H(LayoutHooks):
        def tensor_method(self, interp, recv, name, args, kwargs, node, f2):
            return NotImplemented

        def on_call(self, interp, callee, args, kwargs, node, f2):
            from ..interp import Closure
            if isinstance(callee, Closure) and callee.fi is not None and callee.fi.module.relpath.endswith("misc.py") \
                    and callee.fi.name == "jvp":
                o, i, gi = kwargs.get("outputs"), kwargs.get("inputs"), kwargs.get("grad_inputs")
                self.jvp_calls.append((o, i, gi, node))
                if not (isinstance(o, Ax) and isinstance(i, Ax) and isinstance(gi, Ax)):
                    raise AnalysisError("layout analysis: jvp called on non-tensor values", where=astq.loc(f2, node))
                if i.axes[0] != gi.axes[0] or o.axes[0] != i.axes[0]:
                    raise LayoutError(f"jvp pairs rows of the duplicated state laid out as {[n_ for n_, _ in i.axes[0]]} "
                                      f"with rows of g.a laid out as {[n_ for n_, _ in gi.axes[0]]}")
                return [Ax([o.axes[0], o.axes[1], o.axes[2]], "jvp")]
            return NotImplemented
    hooks = H()
    it = Interp(model, hooks)

    def g_of(it2, a, k, n2, f2):
        y = a[1]
        return Ax([y.axes[0], (("i", "d"),), (("k", "m"),)], "g")
    user = Obj("user", attrs={"noise_type": "general", "sde_type": "stratonovich", "g": Intrinsic("g", g_of),
                              "f": Intrinsic("f", lambda *a: None)})
    obj = it.instantiate(fwd, [user], {"fast_dg_ga_jvp_column_sum": True})
    y = Ax([(("n", "batch_size"),), (("j", "d"),)], "y")
    a = Ax([(("n", "batch_size"),), (("k", "m"),), (("l", "m"),)], "a")
    construct = f"{fi.key}::R16.7::layout"
    # method calls on Ax values go through Interp.getattr -> we intercept by giving Ax a getattr path
    try:
        out = _run_layout(it, fi, obj, y, a)
    except LayoutError as e:
        rep.fail("R16.7", astq.loc(fi), construct, f"dg_ga_jvp_column_sum_v2: {e}")
        ctx.floor("R16.7", 1)
        return
    ok = isinstance(out, Ax) and [tuple(n_ for n_, _ in ax) for ax in out.axes] == [("n",), ("i",)] and \
        getattr(out, "summed", None) == ["diag(l=k)"]
    rep.check(ok, "R16.7", astq.loc(fi), construct,
              f"dg_ga_jvp_column_sum_v2 returns a tensor indexed {out!r} after summing {getattr(out, 'summed', None)}; the "
              f"definition needs index (batch, state) after summing the diagonal that pairs the duplication index (g.a's "
              f"column) with g's column", "rows consistently (batch, column); diagonal pairs the columns; result (batch, state)")
    ctx.floor("R16.7", 1)


def _run_layout(it, fi, obj, y, a):
    """Evaluate the function body with Ax values; tensor methods on Ax are dispatched to _ax_method."""
    from .. import interp as I
    orig_getattr = it.getattr

    def getattr_(base, name, node=None, f2=None, default=NotImplemented):
        if isinstance(base, Ax):
            if name == "requires_grad":
                return False
            return _AxBound(base, name)
        return orig_getattr(base, name, node, f2, default)
    it.getattr = getattr_
    orig_call = it.call

    def call_(callee, args, kwargs, node=None, f2=None):
        if isinstance(callee, _AxBound):
            return _ax_method(it, callee.x, callee.name, args, kwargs, node, f2)
        return orig_call(callee, args, kwargs, node, f2)
    it.call = call_
    t = nf.sym("t", True)
    return it.call_function(fi, [obj, t, y, a], {})


class _AxBound:
    def __init__(self, x, name):
        self.x, self.name = x, name


_run_c16b = run


def run(ctx):
    _run_c16b(ctx)
    ctx.guard(r16_7)


# ------------------------------------------------------------------------------------------------ R16.8 renaming, end to end
def r16_8(ctx):
    """`names` through the entry point: check_contract is evaluated (shape-only tensors, C19's validation scenario) on a
    user SDE whose methods carry other names, and the SDE that comes out is asked for its drift / diffusion / prior drift:
    each must be the user's method for that role.  The name maps include the awkward ones -- a user method called like
    the canonical name of *another* role that is renamed too (`{'drift': 'mu', 'diffusion': 'f'}`), a swap of f and g --
    where a rename applied in place, one after the other, reads a slot an earlier rename has already overwritten."""
    from . import c19
    rep, model = ctx.rep, ctx.model
    rep.rule("R16.8", "renaming through check_contract: for every name map, also maps that collide with canonical names, "
                      "each role resolves to the user's method for that role")
    cc = model.func(SDEINT, "check_contract")
    rep.analysed(cc)
    B, d = 4, 3
    shapes = {"drift": (B, d), "diffusion": (B, d), "prior_drift": (B, d)}
    slots = {"drift": "f", "diffusion": "g", "prior_drift": "h"}
    maps = [
        {"drift": "mu", "diffusion": "sigma"},
        {"drift": "mu", "diffusion": "f"},
        {"drift": "g", "diffusion": "f"},
        {"drift": "h", "prior_drift": "f", "diffusion": "g"},
        {"diffusion": "f", "drift": "drift_fn"},
        {"drift": "forward"},
    ]
    for names in maps:
        attrs = {"noise_type": "diagonal", "sde_type": "ito"}
        roles_of = {}
        for role, slot in slots.items():
            user_name = names.get(role, slot)
            roles_of[user_name] = role
        for user_name, role in roles_of.items():
            attrs[user_name] = Intrinsic(f"user.{user_name}", (lambda role: lambda it, a, k, n, f: c19.TObj(shapes[role], f"{role}-out"))(role))
        user = Obj("user-sde", attrs=attrs)

        class H(c19.ContractHooks):
            def external_call(self, interp, dotted, args, kwargs, node, fi):
                if dotted == "copy.copy" and args and isinstance(args[0], Obj):
                    src = args[0]
                    return Obj(src.name + "-copy", cls=src.cls, attrs=dict(src.attrs), getattr_hook=src.getattr_hook,
                               call_hook=src.call_hook, getitem_hook=src.getitem_hook)
                return c19.ContractHooks.external_call(self, interp, dotted, args, kwargs, node, fi)
        it = Interp(model, H())
        label = ",".join(f"{k}={v}" for k, v in sorted(names.items()))
        construct = f"{cc.key}::R16.8::{label}"
        try:
            out = it.call_function(cc, [user, c19.TObj((B, d), "y0"), [Fraction(0), Fraction(1)],
                                        Obj("bm", attrs={"shape": (Fraction(B), Fraction(d)), "levy_area_approximation": "none"}),
                                        "euler", False, None, dict(names), False], {})
        except SimRaise as e:
            rep.fail("R16.8", astq.loc(cc), construct,
                     f"names={names}: check_contract raises {e.exc_name} ({str(e.message)[:80]}) for a complete, consistent SDE")
            continue
        sde = out[0]
        t, y = Fraction(0), c19.TObj((B, d), "y")
        bad = []
        for role, slot in slots.items():
            if role == "prior_drift":
                continue                  # the prior drift is only read by the logqp wrapper (C18)
            try:
                got = it.call(it.getattr(sde, slot), [t, y], {})
            except (SimRaise, AnalysisError) as e:
                bad.append(f"{slot} -> error {e}")
                continue
            gname = getattr(got, "name", repr(got))
            if gname != f"{role}-out":
                bad.append(f"`{slot}` evaluates the user's {gname.replace('-out', '')} method instead of the {role}")
        rep.check(not bad, "R16.8", astq.loc(cc), construct,
                  f"names={names}: after check_contract {'; '.join(bad)}: the solver would integrate a different SDE without "
                  f"any error", "every role resolves to the user's method for it")
    ctx.floor("R16.8", 6)


_run_c16c = run


def run(ctx):
    _run_c16c(ctx)
    ctx.guard(r16_8)


# ------------------------------------------------------------------------------------------------ R16.9
def r16_9(ctx):
    """The interfaces of the SDE that check_contract hands to the solver describe ONE drift and ONE diffusion.

    The user's class offers the parts (f, g, possibly other drifts such as a prior `h`) and, for speed, combined methods
    under the default names (f_and_g, g_prod, f_and_g_prod) written in terms of its f and g.  A name map replaces a part
    (`names={'drift': 'h'}`: sample from the prior).  Solvers read different interfaces -- Euler `f_and_g_prod`,
    Milstein `f` and `g_prod_and_gdg_prod`, SRK `f` and `g` -- so whichever interface is asked, the drift must be the
    drift named by the map and the diffusion the diffusion named by the map; a combined method that still describes the
    replaced part makes the solution depend on the solver."""
    from . import c19
    rep, model = ctx.rep, ctx.model
    rep.rule("R16.9", "after renaming through check_contract every interface of the resulting SDE (f, g, f_and_g, g_prod, "
                      "f_and_g_prod) evaluates the drift and the diffusion the name map designates, also when the user's "
                      "class carries combined methods under the default names")
    cc = model.func(SDEINT, "check_contract")
    rep.analysed(cc)
    B, d = 4, 3
    mode = {"sym": False}

    def part(sym):
        return lambda it, a, k, n, f: nf.sym(sym) if mode["sym"] else c19.TObj((B, d), sym)

    def user_sde(parts, combined):
        """parts: {method name: symbol}; combined: {method name: (drift symbol, diffusion symbol)} for fused methods."""
        attrs = {"noise_type": "diagonal", "sde_type": "ito"}
        for name, sym in parts.items():
            attrs[name] = Intrinsic(f"user.{name}", part(sym))
        for name, (fs, gs) in combined.items():
            def fused(it, a, k, n, f, name=name, fs=fs, gs=gs):
                if not mode["sym"]:
                    return (c19.TObj((B, d), fs), c19.TObj((B, d), gs)) if fs else c19.TObj((B, d), gs)
                g = nf.sym(gs)
                if name.endswith("prod"):
                    g = g * a[2]
                return (nf.sym(fs), g) if fs else g
            attrs[name] = Intrinsic(f"user.{name}", fused)
        return Obj("user-sde", attrs=attrs)

    class H(c19.ContractHooks):
        def external_call(self, interp, dotted, args, kwargs, node, fi):
            if dotted == "copy.copy" and args and isinstance(args[0], Obj):
                src = args[0]
                return Obj(src.name + "-copy", cls=src.cls, attrs=dict(src.attrs), getattr_hook=src.getattr_hook,
                           call_hook=src.call_hook, getitem_hook=src.getitem_hook)
            return c19.ContractHooks.external_call(self, interp, dotted, args, kwargs, node, fi)

    all_combined = {"f_and_g": ("F", "G"), "g_prod": (None, "G"), "f_and_g_prod": ("F", "G")}
    scenarios = [
        # (label, parts, combined methods of the class, name map, designated drift, designated diffusion)
        ("prior-drift-with-fused-f_and_g", {"f": "F", "g": "G", "h": "H"}, {"f_and_g": ("F", "G")}, {"drift": "h"}, "H", "G"),
        ("prior-drift-with-fused-f_and_g_prod", {"f": "F", "g": "G", "h": "H"}, {"f_and_g_prod": ("F", "G")}, {"drift": "h"}, "H", "G"),
        ("prior-drift-all-fused", {"f": "F", "g": "G", "h": "H"}, all_combined, {"drift": "h"}, "H", "G"),
        ("other-diffusion-with-g_prod", {"f": "F", "g": "G", "sigma": "S"}, {"g_prod": (None, "G")}, {"diffusion": "sigma"}, "F", "S"),
        ("other-diffusion-all-fused", {"f": "F", "g": "G", "sigma": "S"}, all_combined, {"diffusion": "sigma"}, "F", "S"),
        ("both-renamed-all-fused", {"f": "F", "g": "G", "mu": "MU", "sigma": "S"}, all_combined,
         {"drift": "mu", "diffusion": "sigma"}, "MU", "S"),
        # the combined method is renamed along with the parts: it is the user's statement of the same SDE
        ("fused-renamed-too", {"f": "F", "g": "G", "h": "H"}, {"f_and_g": ("F", "G"), "h_and_g": ("H", "G")},
         {"drift": "h", "drift_and_diffusion": "h_and_g"}, "H", "G"),
        # no renaming of a part: combined methods under the default names are used as they are
        ("no-rename-all-fused", {"f": "F", "g": "G", "h": "H"}, all_combined, {"prior_drift": "h"}, "F", "G"),
    ]
    for label, parts, combined, names, want_f, want_g in scenarios:
        mode["sym"] = False
        user = user_sde(parts, combined)
        it = Interp(model, H())
        construct = f"{cc.key}::R16.9::{label}"
        try:
            out = it.call_function(cc, [user, c19.TObj((B, d), "y0"), [Fraction(0), Fraction(1)],
                                        Obj("bm", attrs={"shape": (Fraction(B), Fraction(d)), "levy_area_approximation": "none"}),
                                        "euler", False, None, dict(names), False], {})
        except SimRaise as e:
            rep.fail("R16.9", astq.loc(cc), construct,
                     f"names={names} on a class with methods {sorted(parts) + sorted(combined)}: check_contract raises "
                     f"{e.exc_name} ({str(e.message)[:80]}) although the parts the map designates are all there")
            continue
        sde = out[0]
        mode["sym"] = True
        t, y, v = nf.sym("t", True), nf.sym("y"), nf.sym("v")
        F, G = nf.sym(want_f), nf.sym(want_g)
        want = {"f": F, "g": G, "f_and_g": (F, G), "g_prod": G * v, "f_and_g_prod": (F, G * v)}
        bad = []
        for slot, w in want.items():
            args = [t, y, v] if slot.endswith("prod") else [t, y]
            try:
                got = it.call(it.getattr(sde, slot), args, {})
            except (SimRaise, AnalysisError) as e:
                bad.append(f"`{slot}` -> {e}")
                continue
            got_t = tuple(got) if isinstance(got, (tuple, list)) else (got,)
            w_t = w if isinstance(w, tuple) else (w,)
            same = len(got_t) == len(w_t) and all(isinstance(a, Rat) and nf.equal(a, b) for a, b in zip(got_t, w_t))
            if not same:
                bad.append(f"`{slot}` evaluates `{got}` where the map designates `{w}`")
        rep.check(not bad, "R16.9", astq.loc(cc), construct,
                  f"names={names} on a class with methods {sorted(parts) + sorted(combined)}: {'; '.join(bad)}: solvers "
                  f"that read this interface integrate another SDE than solvers that read the parts, without any error",
                  "every interface evaluates the designated drift and diffusion")
    ctx.floor("R16.9", 8)


_run_c16d = run


def run(ctx):
    _run_c16d(ctx)
    ctx.guard(r16_9)


_run_before_r13_1 = run


def run(ctx):
    _run_before_r13_1(ctx)
    # the operators the library derives are functions of their arguments: nothing is kept on the wrapper from one call to
    # the next (a diffusion memoised per state tensor is stale at another time; rule of C13)
    from . import c13
    ctx.guard(c13.r13_1)


_run_before_c17_r17_1 = run


def run(ctx):
    _run_before_c17_r17_1(ctx)
    # the operators inside the steps, evaluated through the real ForwardSDE wrapper under a special declaration and under its general
    # embedding, agree (a Levy-area Jacobian term that silently vanishes for one of them shows here; rule of C17)
    from . import c17
    ctx.guard(c17.r17_1)


# ------------------------------------------------------------------------------------------------ R16.10
def r16_10(ctx):
    """'A solver that needs a method ... fails with an explicit error instead of computing something else.'  The operators
    the library derives by differentiating the user's drift / diffusion (the g dg v Milstein term, the Levy-area Jacobian
    sums, every adjoint vjp) all go through misc.vjp / misc.jvp, which ask autograd with allow_unused=True and turn a missing
    derivative into zeros.  Under torch.inference_mode() nothing is recorded -- torch.enable_grad() does not switch
    recording back on there -- so every such derivative would silently be an exact zero (Milstein becomes Euler, log-ODE
    becomes midpoint).  The two helpers are evaluated with torch.is_inference_mode_enabled() answering True: they must
    raise before they reach torch.autograd.grad."""
    rep, model = ctx.rep, ctx.model
    rep.rule("R16.10", "misc.vjp / misc.jvp refuse to run under torch.inference_mode() (where autograd records nothing and their "
                       "allow_unused / None-to-zero convention would return silent zeros)")
    MISC = "torchsde/_core/misc.py"
    for name in ("vjp", "jvp"):
        fi = model.func(MISC, name)
        rep.analysed(fi)
        reached = []

        class H(Hooks):
            def external_call(self, interp, dotted, args, kwargs, node, f2):
                if dotted == "torch.is_inference_mode_enabled":
                    return True
                if dotted == "torch.autograd.grad":
                    reached.append(node)
                    return [nf.sym("GRAD")]
                if dotted == "torch.is_tensor":
                    return isinstance(args[0], Rat)
                if dotted in ("torch.as_strided", "torch.zeros_like"):
                    return nf.sym("DUMMY")
                return NotImplemented

            def tensor_attr(self, interp, recv, name_, node, f2):
                if name_ == "requires_grad":
                    return True
                return NotImplemented
        it = Interp(model, H())
        raised = None
        try:
            it.call_function(fi, [], {"outputs": nf.sym("OUT"), "inputs": nf.sym("IN"), "grad_outputs": nf.sym("GO"),
                                      "allow_unused": True} if name == "vjp" else
                             {"outputs": nf.sym("OUT"), "inputs": nf.sym("IN"), "grad_inputs": nf.sym("GI"), "allow_unused": True})
        except SimRaise as e:
            raised = e
        except AnalysisError:
            pass
        ok = raised is not None and not reached
        rep.check(ok, "R16.10", astq.loc(fi), f"{fi.key}::R16.10::inference-mode",
                  f"misc.{name} under torch.inference_mode(): {'reaches torch.autograd.grad' if reached else 'returns'} without an "
                  f"error; autograd records nothing there, the outputs are re-rooted as fresh leaves and the missing derivative is "
                  f"turned into zeros, so derivative-based Milstein silently becomes Euler and log-ODE midpoint",
                  "explicit error")
    ctx.floor("R16.10", 2)


_run_before_r16_10 = run


def run(ctx):
    _run_before_r16_10(ctx)
    ctx.guard(r16_10)
