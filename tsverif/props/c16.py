"""C16 -- equivalent SDE interfaces give identical solutions; derived operators are exact (DESIGN.md section C16)."""
import ast
import itertools
from fractions import Fraction

from .. import astq, nf
from ..errors import AnalysisError
from ..interp import Hooks, Interp, Intrinsic, Obj, SimRaise
from ..model import own_nodes
from ..nf import Rat
from . import solverkit, solvers
from .c02 import FwdHooks

BASE_SDE = "torchsde/_core/base_sde.py"
SDEINT = "torchsde/_core/sdeint.py"
PRIMS = ("f", "g", "f_and_g", "g_prod", "f_and_g_prod")

EXPLANATION = (
    "Finite-domain evaluation of ForwardSDE's registration logic (ast only). R16.1: for each of the 32 subsets of the "
    "user primitives {f, g, f_and_g, g_prod, f_and_g_prod} and for diagonal and general noise, ForwardSDE(user) is "
    "constructed abstractly and every slot is called on symbolic arguments: the result must be exactly the slot's "
    "meaning in terms of the one pair of functions (F, G) the user describes (f -> F, g -> G, f_and_g -> (F, G), "
    "g_prod -> G.v, f_and_g_prod -> (F, G.v), with G.v element-wise for diagonal noise and a batched mat-vec otherwise) "
    "or an explicit RuntimeError -- never a different value; with f and g supplied every slot must be defined. R16.2: "
    "prod / g_prod_and_gdg_prod / dg_ga_jvp_column_sum resolve for all four noise types. R16.3: RenameMethodsSDE binds "
    "each renamed user method to the right slot, and check_contract forwards only keys that are constructor parameters. "
    "R16.4: every SDE slot a solver step uses exists on ForwardSDE. Not decided: bit identity between variants; values "
    "of the autograd-derived operators."
)


def _gv(nt, G, v):
    return G * v if nt == "diagonal" else nf.bilinear("mvp", G, v)


def user_sde(nt, subset):
    """Abstract user SDE exposing `subset`, all describing the same (F, G)."""
    def mk(name):
        def f(it, a, k, n, fi):
            t, y = a[0], a[1]
            Fv, Gv = solverkit.F(t, y), solverkit.G(t, y)
            if name == "f":
                return Fv
            if name == "g":
                return Gv
            if name == "f_and_g":
                return (Fv, Gv)
            if name == "g_prod":
                return _gv(nt, Gv, a[2])
            if name == "f_and_g_prod":
                return (Fv, _gv(nt, Gv, a[2]))
        return Intrinsic(f"user.{name}", f)
    return Obj("user-sde", attrs=dict({"noise_type": nt, "sde_type": "ito"}, **{n: mk(n) for n in subset}))


def meaning(nt, slot, t, y, v):
    Fv, Gv = solverkit.F(t, y), solverkit.G(t, y)
    return {"f": Fv, "g": Gv, "f_and_g": (Fv, Gv), "g_prod": _gv(nt, Gv, v), "f_and_g_prod": (Fv, _gv(nt, Gv, v))}[slot]


def r16_1(ctx):
    rep, model = ctx.rep, ctx.model
    rep.rule("R16.1", "32 method subsets x {diagonal, general}: every ForwardSDE slot is the user's function pair's "
                      "meaning or an explicit error, never something else")
    fwd = model.cls(BASE_SDE, "ForwardSDE")
    t, y, v = nf.sym("t", True), nf.sym("y"), nf.sym("v")
    n = 0
    for nt in ("diagonal", "general"):
        for r in range(len(PRIMS) + 1):
            for subset in itertools.combinations(PRIMS, r):
                it = Interp(model, FwdHooks())
                try:
                    obj = it.instantiate(fwd, [user_sde(nt, subset)], {})
                except SimRaise as e:
                    rep.fail("R16.1", astq.loc(fwd.methods["__init__"]), f"{fwd.key}::R16.1::{nt}::{'+'.join(subset) or 'none'}::ctor",
                             f"ForwardSDE(user with {subset}) raises {e.exc_name} at construction")
                    continue
                for slot in PRIMS:
                    n += 1
                    construct = f"{fwd.key}::R16.1::{nt}::{'+'.join(subset) or 'none'}::{slot}"
                    args = [t, y] + ([v] if slot in ("g_prod", "f_and_g_prod") else [])
                    try:
                        got = it.call(it.getattr(obj, slot), args, {})
                    except SimRaise as e:
                        derivable = _derivable(slot, subset)
                        ok = e.exc_name in ("RuntimeError", "ValueError", "NotImplementedError") and not derivable
                        rep.check(ok, "R16.1", astq.loc(fwd.methods["__init__"]), construct,
                                  f"with user methods {subset} ({nt} noise) slot `{slot}` raises {e.exc_name}"
                                  + (" although it is derivable from the supplied methods" if derivable else
                                     ": a missing method must fail with an explicit RuntimeError"),
                                  f"explicit {e.exc_name}")
                        continue
                    want = meaning(nt, slot, t, y, v)
                    ok = nf.equal(got, want)
                    rep.check(ok, "R16.1", astq.loc(fwd.methods["__init__"]), construct,
                              f"with user methods {subset} ({nt} noise) slot `{slot}` evaluates to `{got}`; the functions the "
                              f"user describes give `{want}`: two interface variants of the same SDE would be solved "
                              f"differently", "equals the meaning of the slot")
    ctx.floor("R16.1", 300)


def _derivable(slot, subset):
    """What ForwardSDE promises to derive (documented by its defaults): with f and g every slot; g_prod from g;
    f_and_g from f and g; f_and_g_prod from (f, g_prod) or f_and_g or (f, g)."""
    s = set(subset)
    if slot in s:
        return True
    if slot == "f_and_g":
        return {"f", "g"} <= s
    if slot == "g_prod":
        return "g" in s
    if slot == "f_and_g_prod":
        return ("f" in s and ("g_prod" in s or "g" in s)) or "f_and_g" in s
    return False


def r16_2(ctx):
    rep, model = ctx.rep, ctx.model
    rep.rule("R16.2", "noise-type dispatch tables of ForwardSDE are total over the four noise types")
    fwd = model.cls(BASE_SDE, "ForwardSDE")
    dom = solvers.Domains(model)
    for nt in dom.noise_types.values():
        it = Interp(model, FwdHooks())
        obj = it.instantiate(fwd, [user_sde(nt, ("f", "g"))], {})
        for slot in ("prod", "g_prod_and_gdg_prod", "dg_ga_jvp_column_sum"):
            val = obj.attrs.get(slot)
            rep.check(val is not None, "R16.2", astq.loc(fwd.methods["__init__"]), f"{fwd.key}::R16.2::{slot}::{nt}",
                      f"ForwardSDE.{slot} is None for {nt} noise: the dispatch table has no entry and no default",
                      f"resolves to {getattr(getattr(val, 'fi', None), 'name', val)}")
        # the product itself
        g, v = nf.sym("g"), nf.sym("v")
        p = it.call(obj.attrs["prod"], [g, v], {})
        want = g * v if nt == dom.noise_types.get("diagonal") else nf.bilinear("mvp", g, v)
        rep.check(nf.equal(p, want), "R16.2", astq.loc(fwd.methods["__init__"]), f"{fwd.key}::R16.2::prod-meaning::{nt}",
                  f"prod for {nt} noise is `{p}`, expected `{want}`", "element-wise (diagonal) / batched mat-vec")
    # batch_mvp is the batched matrix-vector product
    mvp = model.func("torchsde/_core/misc.py", "batch_mvp")
    body = [s for s in mvp.node.body if isinstance(s, ast.Return)]
    ok = len(body) == 1 and ast.unparse(body[0].value).replace(" ", "") in (
        "torch.bmm(m,v.unsqueeze(-1)).squeeze(dim=-1)", "torch.bmm(m,v.unsqueeze(-1)).squeeze(-1)")
    rep.check(ok, "R16.2", astq.loc(mvp), f"{mvp.key}::R16.2::batch_mvp",
              f"batch_mvp is `{ast.unparse(body[0].value) if body else '?'}`, not bmm(m, v[..., None])[..., 0]",
              "bmm(m, v.unsqueeze(-1)).squeeze(-1)")
    ctx.floor("R16.2", 16)


def r16_3(ctx):
    rep, model = ctx.rep, ctx.model
    rep.rule("R16.3", "RenameMethodsSDE binds renamed user methods to the right slots; check_contract forwards only "
                      "constructor parameters")
    rn = model.cls(BASE_SDE, "RenameMethodsSDE")
    init = rn.methods["__init__"]
    rep.analysed(init)
    roles = {"drift": "f", "diffusion": "g", "prior_drift": "h", "diffusion_prod": "g_prod",
             "drift_and_diffusion": "f_and_g", "drift_and_diffusion_prod": "f_and_g_prod"}
    params = init.params[2:]
    rep.check(set(params) == set(roles), "R16.3", astq.loc(init), f"{init.key}::R16.3::params",
              f"RenameMethodsSDE takes {params}; expected the six roles {sorted(roles)}", "six renaming roles")
    user = Obj("user", attrs={"noise_type": "diagonal", "sde_type": "ito"})
    for role in roles:
        user.attrs[f"my_{role}"] = f"<user method for {role}>"
    it = Interp(model, FwdHooks())
    obj = it.instantiate(rn, [user], {role: f"my_{role}" for role in params if role in roles})
    for role, slot in roles.items():
        got = obj.attrs.get(slot)
        rep.check(got == f"<user method for {role}>", "R16.3", astq.loc(init), f"{init.key}::R16.3::{role}",
                  f"names={{'{role}': ...}} binds slot `{slot}` to `{got}`: the renamed method ends up in the wrong slot",
                  f"{role} -> {slot}")
    # defaults: without renaming, slot names map to themselves
    user2 = Obj("user2", attrs={"noise_type": "diagonal", "sde_type": "ito"})
    for slot in roles.values():
        user2.attrs[slot] = f"<user {slot}>"
    obj2 = it.instantiate(rn, [user2], {})
    ok = all(obj2.attrs.get(slot) == f"<user {slot}>" for slot in roles.values())
    rep.check(ok, "R16.3", astq.loc(init), f"{init.key}::R16.3::defaults", "default names do not map each slot to itself",
              "defaults are the identity renaming")
    # a missing user method leaves the slot undefined (no silent substitute)
    user3 = Obj("user3", attrs={"noise_type": "diagonal", "sde_type": "ito", "f": "<f>"})
    obj3 = it.instantiate(rn, [user3], {})
    rep.check("g" not in obj3.attrs and obj3.attrs.get("f") == "<f>", "R16.3", astq.loc(init),
              f"{init.key}::R16.3::missing-stays-missing", "a method the user does not define appears on the renamed SDE",
              "missing methods stay missing")
    cc = model.func(SDEINT, "check_contract")
    keys = None
    for n in own_nodes(cc.node):
        if isinstance(n, ast.DictComp) and "names" in ast.unparse(n):
            for g in n.generators:
                if isinstance(g.iter, ast.Tuple):
                    keys = [e.value for e in g.iter.elts if isinstance(e, ast.Constant)]
    if keys is None:
        raise AnalysisError("check_contract no longer filters `names` through a literal tuple of keys", where=astq.loc(cc))
    rep.check(set(keys) <= set(params) and {"drift", "diffusion"} <= set(keys), "R16.3", astq.loc(cc),
              f"{cc.key}::R16.3::forwarded-keys",
              f"check_contract forwards keys {keys}; they must be constructor parameters of RenameMethodsSDE {params} and "
              f"include drift and diffusion", "forwarded keys are constructor parameters")
    ctx.floor("R16.3", 10)


def r16_4(ctx):
    rep, model = ctx.rep, ctx.model
    rep.rule("R16.4", "every SDE slot used by a solver step exists on ForwardSDE")
    fwd = model.cls(BASE_SDE, "ForwardSDE")
    defined = set(fwd.methods) | {"noise_type", "sde_type"}
    init = fwd.methods["__init__"]
    for n in own_nodes(init.node):
        if isinstance(n, ast.Attribute) and isinstance(n.ctx, ast.Store) and isinstance(n.value, ast.Name) \
                and n.value.id == init.params[0]:
            defined.add(n.attr)
    dom = solvers.Domains(model)
    classes, _ = solvers.solver_classes(model, dom)
    for c in classes:
        if c.name == "AdjointReversibleHeun":
            continue
        uses = {}
        for k in model.mro(c):
            for m in k.methods.values():
                for n in own_nodes(m.node):
                    if isinstance(n, ast.Attribute) and isinstance(n.value, ast.Attribute) and n.value.attr == "sde" \
                            and isinstance(n.value.value, ast.Name) and m.params and n.value.value.id == m.params[0]:
                        uses.setdefault(n.attr, m)
        for attr, m in sorted(uses.items()):
            rep.check(attr in defined, "R16.4", astq.loc(m), f"{c.key}::R16.4::{attr}",
                      f"{c.name} uses self.sde.{attr}, which ForwardSDE does not provide", "provided by ForwardSDE")
    ctx.floor("R16.4", 15)


def run(ctx):
    ctx.guard(r16_1)
    ctx.guard(r16_2)
    ctx.guard(r16_3)
    ctx.guard(r16_4)


# ------------------------------------------------------------------------------------------------ derived operators
class OpHooks(FwdHooks):
    """FwdHooks + a concrete number of noise channels so that the per-column loop of the Levy-area Jacobian unrolls."""
    M = 2

    def tensor_method(self, interp, recv, name, args, kwargs, node, fi):
        if name == "size":
            if args and int(args[0]) == -1:
                return Fraction(self.M)
            if not args:
                return (nf.sym("batch", True), nf.sym("d", True), Fraction(self.M))
        return FwdHooks.tensor_method(self, interp, recv, name, args, kwargs, node, fi)


def r16_5(ctx):
    from .c02 import gdg_wiring
    ctx.rep.rule("R16.5", "derived Milstein operator: g_prod_and_gdg_prod_* == (g v1, vjp(g, y, g (.) v2)) per noise type")
    gdg_wiring(ctx, "R16.5")
    ctx.floor("R16.5", 4)


def r16_6(ctx):
    rep, model = ctx.rep, ctx.model
    rep.rule("R16.6", "derived Levy-area Jacobian (column-sum implementation) == sum_l jvp(g[..., l], y, (g a)[..., l]); "
                      "zero for non-general noise; both implementations selected only for general noise")
    fwd = model.cls(BASE_SDE, "ForwardSDE")
    t, y, a = nf.sym("t", True), nf.sym("y"), nf.sym("a")
    hooks = OpHooks()
    it = Interp(model, hooks)
    obj = it.instantiate(fwd, [user_sde("general", ("f", "g"))], {})
    slot = obj.attrs.get("dg_ga_jvp_column_sum")
    fi = slot.fi
    rep.analysed(fi)
    got = it.call(slot, [t, y, a], {})
    G = solverkit.G(t, y)
    ga = nf.bilinear("bmm", G, a)
    want = Rat.const(0)
    for col in range(OpHooks.M):
        gc = nf.linear(f"getitem[...,{col}]", (), G)
        gac = nf.linear(f"getitem[...,{col}]", (), ga)
        want = want + nf.linear("JVP", (gc.key(), y.key()), gac)
    rep.check(isinstance(got, Rat) and nf.equal(got, want), "R16.6", astq.loc(fi), f"{fi.key}::R16.6::definition",
              f"dg_ga_jvp_column_sum (default implementation) evaluates to `{got}`; its definition sum_l "
              f"d g[:, l]/dy . (g a)[:, l] is `{want}`", "equals its definition")
    kw_ok = all(c[1].get("create_graph") is not None and c[1].get("allow_unused") is True for c in hooks.autograd_calls)
    rep.check(kw_ok and len(hooks.autograd_calls) == OpHooks.M, "R16.6", astq.loc(fi), f"{fi.key}::R16.6::per-column",
              f"{len(hooks.autograd_calls)} autograd calls for {OpHooks.M} noise channels (one JVP per column expected)",
              "one JVP per column")
    dom = solvers.Domains(model)
    for nt in dom.noise_types.values():
        it2 = Interp(model, OpHooks())
        o2 = it2.instantiate(fwd, [user_sde(nt, ("f", "g"))], {})
        s2 = o2.attrs.get("dg_ga_jvp_column_sum")
        if nt == dom.noise_types.get("general"):
            ok = getattr(s2, "fi", None) is not None and s2.fi.name.startswith("dg_ga_jvp_column_sum")
            o3 = it2.instantiate(fwd, [user_sde(nt, ("f", "g"))], {"fast_dg_ga_jvp_column_sum": True})
            s3 = o3.attrs.get("dg_ga_jvp_column_sum")
            ok = ok and getattr(s3, "fi", None) is not None and s3.fi.name.startswith("dg_ga_jvp_column_sum") \
                and s3.fi is not s2.fi
            rep.check(ok, "R16.6", astq.loc(fwd.methods["__init__"]), f"{fwd.key}::R16.6::dispatch::{nt}",
                      "general noise does not select the two Levy-area Jacobian implementations by the fast flag",
                      "v1 / v2 selected by fast_dg_ga_jvp_column_sum")
        else:
            val = it2.call(s2, [t, y, a], {})
            rep.check(not isinstance(val, Rat) and val == 0 or (isinstance(val, Rat) and val.is_zero()), "R16.6",
                      astq.loc(fwd.methods["__init__"]), f"{fwd.key}::R16.6::dispatch::{nt}",
                      f"for {nt} (commutative) noise the Levy-area Jacobian term is `{val}`, not zero", "zero")
    ctx.floor("R16.6", 5)


_run_base = run


def run(ctx):
    _run_base(ctx)
    ctx.guard(r16_5)
    ctx.guard(r16_6)
