"""Abstract evaluation scenarios for torchsde/_brownian (shared by C03, C04, C05, C06, C20).

Noise draws are opaque atoms NOISE[seed, shape]; seeds produced by a SeedSequence are atoms
SEED[entropy, spawn_key, pool_size, n, i].  Times are scalar symbols.  Nothing is imported from the analysed tree.
"""
import ast
from fractions import Fraction

from .. import astq, nf
from ..errors import AnalysisError
from ..interp import Hooks, Interp, Intrinsic, Obj, SimRaise, Closure, BoundMethod
from ..nf import Rat

BI = "torchsde/_brownian/brownian_interval.py"
DERIVED = "torchsde/_brownian/derived.py"

# a sample shape with two batch axes and one channel axis: (*batch, channels)
SIZE = (Fraction(2), Fraction(3), Fraction(4))


class BrownianHooks(Hooks):
    def __init__(self, decisions=None, ndim=2):
        self.decisions = dict(decisions or {})
        self.undecided = []
        self.randn_calls = []        # (size, seed, node)
        self.seedseq_calls = []      # kwargs
        self.zeros_calls = []
        self.ndim = ndim
        self.warns = 0
        self.ordering = None     # optional representative values of the scalar symbols (one ordering of the times)

    _MIRROR = {ast.Lt: ast.Gt, ast.Gt: ast.Lt, ast.LtE: ast.GtE, ast.GtE: ast.LtE}

    def decide(self, interp, test, env, fi):
        if isinstance(test, ast.UnaryOp) and isinstance(test.op, ast.Not):
            d = self.decide(interp, test.operand, env, fi)
            return d if d is NotImplemented else (not d)
        text = ast.unparse(test)
        if text in self.decisions:
            return self.decisions[text]
        if isinstance(test, ast.Compare) and len(test.ops) == 1 and type(test.ops[0]) in self._MIRROR:
            m = ast.Compare(left=test.comparators[0], ops=[self._MIRROR[type(test.ops[0])]()], comparators=[test.left])
            mt = ast.unparse(m)
            if mt in self.decisions:
                return self.decisions[mt]
        if self.ordering:
            from ..interp import decide_by_model
            return decide_by_model(interp, test, env, fi, self.ordering)
        return NotImplemented

    def truthy(self, interp, value, node, fi):
        # the symbol ENTROPY stands for a non-zero user seed; the zero seed is a scenario of its own (R06.1)
        if isinstance(value, Rat) and nf.equal(value, nf.sym("ENTROPY", True)):
            return True
        return NotImplemented

    def external_call(self, interp, dotted, args, kwargs, node, fi):
        if dotted == "np.random.SeedSequence":
            self.seedseq_calls.append((dict(kwargs), node, fi))
            ent = kwargs.get("entropy", args[0] if args else None)
            spawn = kwargs.get("spawn_key", ())
            pool = kwargs.get("pool_size")

            return _seed_sequence(ent, tuple(spawn) if isinstance(spawn, (tuple, list)) else spawn, pool)
        if dotted == "trampoline.trampoline":
            # the trampoline runs the generator (and every generator it tail-calls or yields) to completion
            return interp.drive(args[0], node, fi)
        if dotted == "torch.zeros":
            self.zeros_calls.append((args, kwargs, node))
            return Rat.const(0)
        if dotted == "torch.zeros_like":
            return Rat.const(0)
        if dotted == "warnings.warn":
            self.warns += 1
            return None
        if dotted == "np.random.randint":
            return nf.sym("RANDOM_ENTROPY", True)
        if dotted == "torch.is_tensor":
            return isinstance(args[0], Rat) and not all(nf.is_scalar_atom(a) for a in args[0].atoms())
        if dotted == "torch.get_default_dtype":
            return "dtype"
        if dotted == "torch.device":
            return "device"
        return NotImplemented

    def on_call(self, interp, callee, args, kwargs, node, fi):
        if isinstance(callee, Closure) and callee.fi is not None and callee.fi.cls is None and \
                callee.fi.parent is None and callee.fi.name == "_randn" and callee.fi.module.relpath == BI:
            a = list(args) + [kwargs[k] for k in ("size", "dtype", "device", "seed")[len(args):] if k in kwargs]
            size, seed = a[0], a[3]
            self.randn_calls.append((size, seed, node, fi))
            return nf.fn("NOISE", seed, tuple(size) if isinstance(size, (tuple, list)) else size)
        if isinstance(callee, Closure) and callee.fi is not None and callee.fi.name in (
                "_check_tensor_info",) and callee.fi.module.relpath == BI:
            return (kwargs.get("size") or SIZE, "dtype", "device")
        if isinstance(callee, Closure) and callee.fi is not None and callee.fi.name in (
                "_assert_floating_tensor", "_is_scalar") and callee.fi.module.relpath == BI:
            return True
        return NotImplemented

    def tensor_method(self, interp, recv, name, args, kwargs, node, fi):
        if name == "ndimension":
            return Fraction(self.ndim)
        return NotImplemented

    def tensor_attr(self, interp, recv, name, node, fi):
        if name in ("shape",):
            return SIZE
        if name in ("dtype", "device"):
            return name
        return NotImplemented


def _seed_sequence(ent, spawn, pool):
    """numpy's SeedSequence: generate_state is a pure function of (entropy, spawn_key, pool_size); spawn is *stateful*
    -- every call hands out children numbered by how many were spawned before (n_children_spawned) -- which is exactly
    why a seed derived through it depends on the order of requests."""
    obj = Obj("SeedSequence", attrs={"_n_children_spawned": 0})

    def generate_state(it, a, k, n, f):
        cnt = int(a[0] if a else k.get("n_words"))
        return [nf.fn("SEED", ent, spawn, pool, Fraction(cnt), Fraction(i)) for i in range(cnt)]

    def spawn_children(it, a, k, n, f):
        cnt = int(a[0] if a else k.get("n_children"))
        first = obj.attrs["_n_children_spawned"]
        obj.attrs["_n_children_spawned"] = first + cnt
        base = spawn if isinstance(spawn, tuple) else (spawn,)
        return [_seed_sequence(ent, base + (Fraction(first + i),), pool) for i in range(cnt)]
    obj.attrs["generate_state"] = Intrinsic("generate_state", generate_state)
    obj.attrs["spawn"] = Intrinsic("spawn", spawn_children)
    return obj


def identity_round():
    return Intrinsic("_round", lambda it, a, k, n, f: a[0])


def make_top(model, have_H=True, have_A=False, levy="space-time", halfway=False, extra=None):
    cache_log = []

    def cache_get(it, obj, idx, node, fi):
        raise SimRaise("KeyError", "cache miss", node, fi)
    cache = Obj("cache", getitem_hook=cache_get, attrs={
        # a cold cache through the reading methods as well: nothing is ever found
        "get": Intrinsic("cache.get", lambda it, a, k, n, f: a[1] if len(a) > 1 else k.get("default")),
        "__contains__": Intrinsic("cache.__contains__", lambda it, a, k, n, f: False),
        "__len__": Intrinsic("cache.__len__", lambda it, a, k, n, f: Fraction(0))})
    attrs = {
        "_increment_and_space_time_levy_area_cache": cache,
        "_have_H": have_H, "_have_A": have_A, "_levy_area_approximation": levy,
        "_size": SIZE, "_dtype": "dtype", "_device": "device",
        "_entropy": nf.sym("ENTROPY", True), "_pool_size": nf.sym("POOL", True),
        "_halfway_tree": halfway, "_round": identity_round(), "_tol": Fraction(1, 2), "_dt": None, "_cache_size": Fraction(45),
    }
    attrs.update(extra or {})
    top = Obj("top", cls=None, attrs=attrs)
    return top, cache


def eval_split(model, have_H, is_left, hooks=None, halfway=False):
    """Child (W, H) of a split as canonical forms in parent (W, H), the two noises and l, r.  With `halfway` the top
    object is in dyadic-tree mode; the stored midpoint is still a general point s + l (it is the *rounded* midpoint, so
    the two children need not have the same length)."""
    fi = model.func(BI, "_Interval._increment_and_space_time_levy_area")
    hooks = hooks or BrownianHooks()
    if getattr(hooks, "ordering", None) is None:
        # the generic position of a split: two unequal parts (a branch for the special case l == r is not what the symbolic
        # identities in l, r are about; splits at exact midpoints are covered by the replay rules)
        hooks.ordering = {"s": Fraction(0), "l": Fraction(1), "r": Fraction(3)}
    it = Interp(model, hooks)
    top, cache = make_top(model, have_H=have_H, halfway=halfway)
    s, l, r = nf.sym("s", True), nf.sym("l", True), nf.sym("r", True)
    W, H = nf.sym("W"), nf.sym("H")
    icls = model.cls(BI, "_Interval")
    parent = Obj("parent", cls=icls, attrs={
        "_start": s, "_midway": s + l, "_end": s + l + r, "_top": top,
        "_W_seed": nf.sym("W_seed", True), "_H_seed": nf.sym("H_seed", True),
        "_left_a_seed": nf.sym("left_a_seed", True), "_right_a_seed": nf.sym("right_a_seed", True),
        "_increment_and_space_time_levy_area": Intrinsic("parent.value", lambda it2, a, k, n, f: "PARENT-VALUE"),
    })
    me = Obj("child", cls=icls, attrs={"_parent": parent, "_is_left": is_left, "_top": top})
    yields = []

    class H2(type(hooks)):
        pass
    orig = hooks.on_yield

    def on_yield(interp, value, node, f):
        yields.append(value)
        return (W, H if have_H else None)
    hooks.on_yield = on_yield
    out = it.run_generator_body(fi, [me], {})
    hooks.on_yield = orig
    if not (isinstance(out, tuple) and len(out) == 2):
        raise AnalysisError(f"split value function returned {out!r}", where=astq.loc(fi))
    return dict(W_out=out[0], H_out=out[1], W=W, H=H, l=l, r=r, cache_log=cache.setitem_log, me=me,
                yields=yields, hooks=hooks, fi=fi)


def noise_atoms(x):
    return sorted([a for a in nf.all_atoms(x) if a[0] == "fn" and a[1] == "NOISE"], key=repr)


def constructed_top(model, halfway=False, levy="space-time"):
    """A BrownianInterval object as its own constructor leaves it (abstractly evaluated): every slot __init__ sets is
    there, whatever it is called, so that the __call__ scenarios below keep working when the constructor gains state."""
    fi = model.func(BI, "BrownianInterval.__init__")
    bcls = model.cls(BI, "BrownianInterval")
    decisions = {"t0 > t1": False, "tol <= 0.0": False, "tol < 0.0": False, "tol == 0.0": not halfway}
    hooks = BrownianHooks(decisions)
    it = Interp(model, hooks)
    me = Obj("bm", cls=bcls)
    kwargs = dict(t0=nf.sym("T0", True), t1=nf.sym("T1", True), size=SIZE, entropy=nf.sym("ENTROPY", True),
                  tol=Fraction(0) if not halfway else nf.sym("TOL", True), pool_size=nf.sym("POOL", True),
                  halfway_tree=halfway, levy_area_approximation=levy, W=None, H=None, dt=None)
    try:
        it.call_function(fi, [me], kwargs)
    except (SimRaise, AnalysisError):
        return Obj("bm", cls=bcls)          # the hand-made slots below are then all there is
    return me


def eval_call(model, n_pieces, have_H, have_A, zero_length=False, return_U=True, return_A=True, hooks=None,
              dt_known=True, size=None, me=None, query=None, round_table=None):
    """BrownianInterval.__call__ on a query covered by n_pieces contiguous stored pieces.  With `me` the call is made on an
    object that already answered other queries; `query` gives the raw end points (symbols) and `round_table` the grid point
    each raw symbol is quantised to."""
    fi = model.func(BI, "BrownianInterval.__call__")
    bcls = model.cls(BI, "BrownianInterval")
    ta, tb = nf.sym("ta", True), nf.sym("tb", True)
    raw_ta, raw_tb = query if query is not None else (ta, tb)
    cuts = [ta] + [nf.sym(f"u{i}", True) for i in range(1, n_pieces)] + [tb]
    pieces = []
    for i in range(n_pieces):
        Wi, Hi, Ai = nf.sym(f"W{i}"), nf.sym(f"H{i}"), nf.sym(f"A{i}")
        val = (Wi, Hi if have_H else None, Ai if have_A else None)
        pieces.append(Obj(f"piece{i}", attrs={
            "_start": cuts[i], "_end": cuts[i + 1],
            "_increment_and_levy_area": Intrinsic("piece.value", lambda it, a, k, n, f, val=val: val)}))
    loc_calls = []

    def loc(it, a, k, n, f):
        loc_calls.append(tuple(a))
        return list(pieces)
    last = Obj("last_interval", attrs={"_loc": Intrinsic("_loc", loc)})
    hooks = hooks or BrownianHooks()
    # one representative ordering of the times: T0 < ta < u1 < ... < tb < T1 (or ta = tb for the zero-length case)
    order = {"T0": Fraction(0), "ta": Fraction(1), "T1": Fraction(100), "TOL": Fraction(1, 1000), "DT": Fraction(1, 7),
             "TREE_DT": Fraction(1)}
    for i in range(1, n_pieces):
        order[f"u{i}"] = Fraction(1 + i)
    order["tb"] = Fraction(1) if zero_length else Fraction(1 + n_pieces)
    if hooks.ordering is None:
        hooks.ordering = order
    it = Interp(model, hooks)
    if me is None:
        me = constructed_top(model)
        me.attrs.update({
            "_start": nf.sym("T0", True), "_end": nf.sym("T1", True), "_size": SIZE if size is None else tuple(size), "_dtype": "dtype",
            "_device": "device", "_have_H": have_H, "_have_A": have_A, "_dt": nf.sym("DT", True) if dt_known else None,
            "_halfway_tree": False, "_round": identity_round(),
            "_num_evaluations": Fraction(0), "_average_dt": Fraction(0), "_tree_dt": nf.sym("TREE_DT", True),
            "_tol": nf.sym("TOL", True), "_entropy": nf.sym("ENTROPY", True), "_pool_size": nf.sym("POOL", True),
            "_cache_size": Fraction(45), "_levy_area_approximation": "foster" if have_A else ("space-time" if have_H else "none"),
        })
    me.attrs["_last_interval"] = last
    if round_table is not None:
        def rnd(it2, a, k, n, f):
            x = a[0]
            for raw, grid in round_table:
                if isinstance(x, Rat) and nf.equal(x, raw):
                    return grid
            return x
        me.attrs["_round"] = Intrinsic("_round", rnd)
    out = it.call_function(fi, [me, raw_ta, raw_tb], {"return_U": return_U, "return_A": return_A})
    return dict(out=out, ta=ta, tb=tb, cuts=cuts, pieces=pieces, loc_calls=loc_calls, me=me, hooks=hooks, fi=fi,
                last_interval_after=me.attrs.get("_last_interval"))


def chen_reference(cuts, n, have_H, have_A):
    """Right-fold composition of the pieces by Chen's relation (independent of the code's left fold)."""
    def piece(i):
        return dict(s=cuts[i], t=cuts[i + 1], W=nf.sym(f"W{i}"), H=nf.sym(f"H{i}"), A=nf.sym(f"A{i}"))

    def combine(a, b):
        s, u, t = a["s"], a["t"], b["t"]
        out = dict(s=s, t=t, W=a["W"] + b["W"])
        out["H"] = ((t - u) * (b["H"] + a["W"] * Fraction(1, 2)) + (u - s) * (a["H"] - b["W"] * Fraction(1, 2))) / (t - s)
        out["A"] = a["A"] + b["A"] + Fraction(1, 2) * (
            nf.wrap_axis(a["W"], "col") * nf.wrap_axis(b["W"], "row")
            - nf.wrap_axis(b["W"], "col") * nf.wrap_axis(a["W"], "row"))
        return out
    acc = piece(n - 1)
    for i in range(n - 2, -1, -1):
        acc = combine(piece(i), acc)
    return acc


def eval_davie_foster(model, levy, hooks=None):
    fi = model.func(BI, "_davie_foster_approximation")
    hooks = hooks or BrownianHooks()
    it = Interp(model, hooks)
    W, H, h = nf.sym("W"), nf.sym("H"), nf.sym("h", True)
    N = nf.sym("N")
    out = it.call_function(fi, [W, H, h, levy, Intrinsic("get_noise", lambda it2, a, k, n, f: N)], {})
    return dict(A=out, W=W, H=H, h=h, N=N, fi=fi)


def eval_reverse(model, return_U, return_A):
    fi = model.func(DERIVED, "ReverseBrownian.__call__")
    rcls = model.cls(DERIVED, "ReverseBrownian")
    calls = []

    def base(it, obj, args, kwargs, node, f):
        a, b = args[0], args[1]
        calls.append((a, b, dict(kwargs)))
        ru = kwargs.get("return_U", args[2] if len(args) > 2 else False)
        ra = kwargs.get("return_A", args[3] if len(args) > 3 else False)
        out = [nf.fn("Wb", a, b)]
        if ru:
            out.append(nf.fn("Ub", a, b))
        if ra:
            out.append(nf.fn("Ab", a, b))
        return out[0] if len(out) == 1 else tuple(out)
    me = Obj("reverse", cls=rcls, attrs={"base_brownian": Obj("base", call_hook=base)})
    it = Interp(model, BrownianHooks())
    ta, tb = nf.sym("ta", True), nf.sym("tb", True)
    out = it.call_function(fi, [me, ta, tb], {"return_U": return_U, "return_A": return_A})
    return dict(out=out, calls=calls, ta=ta, tb=tb, fi=fi)
