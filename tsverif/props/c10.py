"""C10 -- reversible Heun adjoint reproduces backprop gradients (DESIGN.md section C10)."""
import ast
from fractions import Fraction

from .. import astq, nf
from ..errors import AnalysisError
from ..interp import Cat, Closure, Hooks, Interp, Intrinsic, Obj, SimRaise
from ..nf import Rat
from . import solverkit, solvers
from .c15 import forward_run
from .autograd_kit import AutogradModel

RH = "torchsde/_core/methods/reversible_heun.py"
ADJ = "torchsde/_core/adjoint.py"
DERIVED = "torchsde/_brownian/derived.py"

EXPLANATION = (
    "AdjointReversibleHeun.step is partially evaluated (ast only) on the outputs of ReversibleHeun.step, with the "
    "repository's ReverseBrownian as Brownian motion, the forward SDE opaque (F, G, bilinear prod) and misc.vjp an "
    "opaque map linear in its grad_outputs. R10.1: the reconstructed forward state, z and (f, g) equal the forward "
    "step's inputs as polynomial identities (algebraic inverse). R10.2: the forward step is read as a linear map in "
    "(y0, z0, f0, g0, f1, g1) from its canonical form (f1, g1 replaced by free atoms); the cotangents returned by the "
    "adjoint step must equal the transpose of that map applied to the incoming cotangents, the nonlinear part entering "
    "only through one vjp of (f, g) at the carried z with respect to [z] + params, with grad_outputs the accumulated "
    "(adj_f, adj_g); the formal adjoint of prod is element-wise for diagonal noise and an outer product otherwise. "
    "R10.3: extras are saved for backward iff (method, adjoint_method) is the reversible pair, for all 81 pairs. R10.4: "
    "forward returns (ys, *extras) as ordinary differentiable outputs (no other call on the autograd context), and the "
    "backward pass seeds the extra cotangents from the incoming grad_extra_solver_state. "
    "Not decided: the 1e-9 figure (floating point)."
)


class AdjHooks(AutogradModel, solverkit.StepHooks):
    def __init__(self):
        solverkit.StepHooks.__init__(self, 2)
        self.ag_init()
        self._in_helper = False
        self.vjps = []

    def tensor_attr(self, interp, recv, name, node, fi):
        r = self.ag_tensor_attr(interp, recv, name, node, fi)
        if r is not NotImplemented:
            return r
        if name == "requires_grad":
            return False
        return NotImplemented

    def external_call(self, interp, dotted, args, kwargs, node, fi):
        r = self.ag_external_call(interp, dotted, args, kwargs, node, fi)
        if r is not NotImplemented:
            return r
        return solverkit.StepHooks.external_call(self, interp, dotted, args, kwargs, node, fi)

    def on_call(self, interp, callee, args, kwargs, node, fi):
        if isinstance(callee, Closure) and callee.fi is not None and callee.fi.module.relpath.endswith("misc.py"):
            nm = callee.fi.name
            if nm in ("vjp", "jvp") and not self._in_helper:
                outputs = kwargs.get("outputs", args[0] if args else None)
                inputs = kwargs.get("inputs", args[1] if len(args) > 1 else None)
                go = kwargs.get("grad_outputs")
                self.vjps.append((outputs, inputs, go, dict(kwargs), node))
                self._in_helper = True
                try:
                    return interp.call_function(callee.fi, list(args), dict(kwargs))
                finally:
                    self._in_helper = False
            if nm == "flatten":
                return Cat("flat", list(args[0]))
        return NotImplemented


def adjoint_run(model, noise_type):
    """Evaluate AdjointReversibleHeun.step on the outputs of the forward step.  Returns a dict of canonical forms."""
    fw = forward_run(model)
    f1, g1, z1 = fw["extra1"]
    acls = model.cls(RH, "AdjointReversibleHeun")
    dom = solvers.Domains(model)
    # construct the solver through its own constructor so that `_adjoint_of_prod` is the repository's choice
    adj_noise = {"additive": "general"}.get(noise_type, noise_type)
    sde = solvers.make_sde_obj(model, "stratonovich", adj_noise, adjoint=True)
    sde.attrs["forward_sde"].attrs["noise_type"] = noise_type
    a_y, a_f, a_g, a_z, a_p = nf.sym("adj_y"), nf.sym("adj_f"), nf.sym("adj_g"), nf.sym("adj_z"), nf.sym("adj_p")
    theta = nf.sym("theta")
    state_calls = []

    def get_state(it, a, k, n, f):
        state_calls.append((a, dict(k)))
        return (fw["y1"], a_y, [a_f, a_g, a_z, a_p], False)
    sde.attrs["get_state"] = Intrinsic("get_state", get_state)
    sde.attrs["params"] = [theta]
    rcls = model.cls(DERIVED, "ReverseBrownian")
    rev_bm = Obj("reverse_bm", cls=rcls, attrs={"base_brownian": fw["base_bm"], "levy_area_approximation": "none",
                                                 "shape": (Fraction(2), Fraction(3))})
    obj = solvers.instantiate(model, acls, sde, rev_bm, {})
    hooks = AdjHooks()
    it = Interp(model, hooks)
    step = model.lookup_method(acls, "step")
    y_aug0 = nf.sym("aug_state")
    out, extras = it.call_function(step, [obj, -fw["t1"], -fw["t0"], y_aug0, (f1, g1, z1)], {})
    return dict(fw=fw, out=out, extras=extras, hooks=hooks, step=step, state_calls=state_calls,
                cot=dict(y=a_y, f=a_f, g=a_g, z=a_z, p=a_p), theta=theta, obj=obj)


def adj_prod(noise_type, a, w):
    """Formal adjoint of prod(g, w) with respect to g, applied to the cotangent a."""
    if noise_type == "diagonal":
        return a * w
    return nf.wrap_axis(a, "col") * nf.wrap_axis(w, "row")


def r10_1(ctx):
    rep, model = ctx.rep, ctx.model
    rep.rule("R10.1", "the adjoint step reconstructs the forward step's inputs exactly")
    for nt in ("diagonal", "general"):
        r = adjoint_run(model, nt)
        step, fw = r["step"], r["fw"]
        rep.analysed(step)
        out = r["out"]
        if not (isinstance(out, Cat) and len(out.parts) >= 6):
            raise AnalysisError(f"AdjointReversibleHeun.step returns {out!r}, not a flattened state of at least six blocks",
                                where=astq.loc(step))
        ok_y = nf.equal(out.parts[0], fw["y0"])
        rep.check(ok_y, "R10.1", astq.loc(step), f"{step.key}::R10.1::state::{nt}",
                  f"the adjoint step reconstructs the forward state as `{str(out.parts[0])[:300]}`, not the forward step's "
                  f"input y0", "forward state reconstructed exactly")
        want = (fw["f0"], fw["g0"], fw["z0"])
        ex = r["extras"]
        ok_e = isinstance(ex, tuple) and len(ex) == 3 and all(nf.equal(a, b) for a, b in zip(ex, want))
        rep.check(ok_e, "R10.1", astq.loc(step), f"{step.key}::R10.1::extras::{nt}",
                  f"the adjoint step carries extras `{[str(x)[:100] for x in ex] if isinstance(ex, tuple) else ex}`; the "
                  f"forward step's inputs were (f0, g0, z0) = `{[str(x) for x in want]}`", "extras reconstructed exactly")
        # the state is unpacked with the extra cotangents and at the step's start time
        sc = r["state_calls"]
        ok_s = len(sc) == 1 and nf.equal(sc[0][0][0], -fw["t1"]) and sc[0][1].get("extra_states", False) is True
        rep.check(ok_s, "R10.1", astq.loc(step), f"{step.key}::R10.1::get-state::{nt}",
                  f"get_state is called as {[(str(a[0]), k) for a, k in sc]}; it must unpack the extra cotangents "
                  f"(extra_states=True) at the step's start time", "get_state(t0, y0, extra_states=True)")
    ctx.floor("R10.1", 6)


def forward_linear_map(model):
    """The forward step with (f1, g1) as free atoms: {output: canonical form}."""
    cls = model.cls(RH, "ReversibleHeun")
    t0, h, t1, y0 = solverkit.symbols()
    z0, f0, g0, f1, g1 = nf.sym("z0"), nf.sym("f0"), nf.sym("g0"), nf.sym("f1"), nf.sym("g1")
    sde = solverkit.make_sde()
    sde.attrs["f_and_g"] = Intrinsic("f_and_g", lambda it, a, k, n, f: (f1, g1))
    it = Interp(model, solverkit.StepHooks())
    so = solverkit.solver_obj(model, cls, sde, solverkit.make_bm())
    step = model.lookup_method(cls, "step")
    y1, extra1 = it.call_function(step, [so, t0, t1, y0, (f0, g0, z0)], {})
    return dict(y1=y1, z1=extra1[2], t0=t0, h=h, t1=t1, W=nf.fn("W", t0, t1))


def transpose_of(lin, noise_type, cot_y1, cot_z1, W):
    """Transpose of the forward linear map applied to (cot_y1, cot_z1): {input name: cotangent}."""
    out = {}
    for name in ("y0", "z0", "f0", "f1"):
        a = ("t", name)
        out[name] = nf.coefficient_of(lin["y1"], a) * cot_y1 + nf.coefficient_of(lin["z1"], a) * cot_z1
    for name in ("g0", "g1"):
        tot = Rat.const(0)
        for expr, cot in ((lin["y1"], cot_y1), (lin["z1"], cot_z1)):
            e = nf.reduce_sqrt(Rat.lift(expr))
            for m, c in e.num.terms.items():
                for a, ex in m:
                    if a[0] == "bil" and a[1] == "prod" and a[2] == nf.mono_key(((("t", name), 1),)):
                        rest = Rat(nf.Poly({tuple((x, y) for x, y in m if x != a): c})) / Rat(e.den)
                        w = nf.key_to_rat(a[3])
                        tot = tot + adj_prod(noise_type, cot, rest * w)
        out[name] = tot
    return out


def r10_2(ctx):
    rep, model = ctx.rep, ctx.model
    rep.rule("R10.2", "cotangent updates of the adjoint step == transpose of the forward step's linear map; the nonlinear "
                      "part enters through one vjp of (f, g) at the carried z w.r.t. [z] + params")
    lin = forward_linear_map(model)
    for nt in ("diagonal", "general"):
        r = adjoint_run(model, nt)
        step, fw, hooks, cot = r["step"], r["fw"], r["hooks"], r["cot"]
        f1, g1, z1 = fw["extra1"]
        W = nf.fn("W", fw["t0"], fw["t1"])
        out = r["out"].parts
        # 1. exactly one vjp, of (f, g) evaluated at (forward time t1, z1), w.r.t. [z1] + params
        construct = f"{step.key}::R10.2::{nt}"
        if len(hooks.vjps) != 1:
            rep.fail("R10.2", astq.loc(step), construct + "::one-vjp", f"{len(hooks.vjps)} vjp calls in the adjoint step")
            continue
        outputs, inputs, go, kw, node = hooks.vjps[0]
        ok_v = isinstance(outputs, (tuple, list)) and len(outputs) == 2 and nf.equal(outputs[0], f1) and \
            nf.equal(outputs[1], g1) and isinstance(inputs, list) and len(inputs) == 2 and nf.equal(inputs[0], z1) and \
            nf.equal(inputs[1], r["theta"]) and kw.get("allow_unused") is True
        rep.check(ok_v, "R10.2", astq.loc(step, node), construct + "::vjp-wiring",
                  f"the vjp differentiates `{[str(o)[:60] for o in outputs] if isinstance(outputs, (tuple, list)) else outputs}` "
                  f"w.r.t. `{[str(i)[:40] for i in inputs] if isinstance(inputs, list) else inputs}` (allow_unused="
                  f"{kw.get('allow_unused')}); it must differentiate (f, g) re-evaluated at the carried z (forward time "
                  f"t1) w.r.t. [z] + params with allow_unused=True", "vjp((f, g)(t1, z1), [z1] + params)")
        # 2. transpose: cotangents w.r.t. the intermediate (f1, g1) first
        # incoming cotangents: cot.y for y1, cot.z for z1, cot.f / cot.g for (f1, g1)
        tr_y = transpose_of(lin, nt, cot["y"], Rat.const(0), W)
        tot_f1 = cot["f"] + tr_y["f1"]
        tot_g1 = cot["g"] + tr_y["g1"]
        ok_go = isinstance(go, list) and len(go) == 2 and nf.equal(go[0], tot_f1) and nf.equal(go[1], tot_g1)
        rep.check(ok_go, "R10.2", astq.loc(step, node), construct + "::grad-outputs",
                  f"grad_outputs of the vjp are `{[str(x)[:120] for x in go] if isinstance(go, list) else go}`; the transpose "
                  f"of the forward step gives (adj_f + adj_y h/2, adj_g + adj_y (x) dW/2) = (`{tot_f1}`, `{tot_g1}`)",
                  "grad_outputs = accumulated (adj_f, adj_g)")
        vjp_z = nf.linear("VJP", (Rat.lift(f1).key(), Rat.lift(z1).key()), tot_f1) + \
            nf.linear("VJP", (Rat.lift(g1).key(), Rat.lift(z1).key()), tot_g1)
        vjp_p = nf.linear("VJP", (Rat.lift(f1).key(), r["theta"].key()), tot_f1) + \
            nf.linear("VJP", (Rat.lift(g1).key(), r["theta"].key()), tot_g1)
        tot_z1 = cot["z"] + vjp_z
        tr = transpose_of(lin, nt, cot["y"], tot_z1, W)
        want = {"adj_y": tr["y0"], "adj_f": tr["f0"], "adj_g": tr["g0"], "adj_z": tr["z0"], "adj_params": cot["p"] + vjp_p}
        got = {"adj_y": out[1], "adj_f": out[2], "adj_g": out[3], "adj_z": out[4], "adj_params": out[5]}
        for k in want:
            ok = isinstance(got[k], Rat) and nf.equal(got[k], want[k])
            rep.check(ok, "R10.2", astq.loc(step), construct + f"::{k}",
                      f"the adjoint step returns {k} = `{str(got[k])[:300]}`; the transpose of the forward step applied to "
                      f"the incoming cotangents is `{str(want[k])[:300]}`", f"{k} == transpose of the forward map")
    ctx.floor("R10.2", 14)


def make_ctx(saved, other_calls):
    """Abstract autograd context: attribute stores are free; save_for_backward is recorded; any other method call is
    recorded in `other_calls` (it changes how autograd treats the Function's outputs)."""
    def hook(it, obj, name, node, fi):
        if name.startswith("__"):
            return NotImplemented

        def call(it2, a, k, n2, f2):
            other_calls.append((name, list(a), n2, f2))
            return None
        return Intrinsic(f"ctx.{name}", call)
    return Obj("ctx", attrs={"save_for_backward": Intrinsic("save", lambda it, a, k, n, f: saved.append(list(a)))},
               getattr_hook=hook)


def r10_3(ctx):
    rep, model = ctx.rep, ctx.model
    rep.rule("R10.3", "extras are saved for backward iff (method, adjoint_method) = (reversible_heun, "
                      "adjoint_reversible_heun); saved-tensor layout (ys, ts, *extras, *params)")
    fwd = model.func(ADJ, "_SdeintAdjointMethod.forward")
    rep.analysed(fwd)
    dom = solvers.Domains(model)
    n = 0
    for m in dom.methods.values():
        for am in dom.methods.values():
            saved, other = [], []
            ctx_obj = make_ctx(saved, other)
            YS, E = nf.sym("YS"), (nf.sym("E1"), nf.sym("E2"))
            solver = Obj("solver", attrs={"integrate": Intrinsic("integrate", lambda it, a, k, n2, f: (YS, E)), "adaptive": True,
                                          "dt": nf.sym("dt", True), "dt_min": nf.sym("dt_min", True), "options": {}})
            it = Interp(model, solverkit.StepHooks())
            ex_in = (nf.sym("X1"), nf.sym("X2"))
            P = (nf.sym("P1"),)
            args = [ctx_obj, Obj("sde"), nf.sym("ts"), nf.sym("dt", True), Obj("bm"), solver, m, am, False,
                    nf.sym("rtol", True), nf.sym("atol", True), nf.sym("dt_min", True), {}, Fraction(len(ex_in)),
                    nf.sym("y0")] + list(ex_in) + list(P)
            ret = it.call_function(fwd, args, {})
            n += 1
            if m == dom.methods.get("reversible_heun") and am == dom.methods.get("adjoint_reversible_heun"):
                ok_ret = isinstance(ret, tuple) and len(ret) == 3 and nf.equal(ret[0], YS) and nf.equal(ret[1], E[0]) \
                    and nf.equal(ret[2], E[1])
                rep.check(ok_ret and not other, "R10.4", astq.loc(fwd), f"{fwd.key}::R10.4::outputs-differentiable",
                          f"forward returns `{ret}` and calls {[(c[0], [str(x) for x in c[1]]) for c in other]} on the "
                          f"autograd context: the extra solver state (f, g, z) must be returned as ordinary differentiable "
                          f"outputs (their cotangents are the initial adj_f, adj_g, adj_z of the reverse solve); marking them "
                          f"non-differentiable silently zeroes those cotangents when solves are chained or the loss reads "
                          f"the extras", "returns (ys, *extras) as differentiable outputs")
            want_flag = (m == dom.methods.get("reversible_heun") and am == dom.methods.get("adjoint_reversible_heun"))
            flag = ctx_obj.attrs.get("saved_extras_for_backward")
            layout_ok = len(saved) == 1 and nf.equal(saved[0][0], YS) and nf.equal(saved[0][1], nf.sym("ts")) and \
                [str(x) for x in saved[0][2:]] == ([str(x) for x in E] if want_flag else []) + [str(x) for x in P]
            rep.check(flag is want_flag and layout_ok, "R10.3", astq.loc(fwd), f"{fwd.key}::R10.3::{m}/{am}",
                      f"for (method={m}, adjoint_method={am}) saved_extras_for_backward={flag} and the saved tensors are "
                      f"{[[str(x) for x in s] for s in saved]}; extras must be saved exactly for the reversible pair, in the "
                      f"layout (ys, ts, *extras, *params)", "saved iff reversible pair; layout (ys, ts, *extras, *params)")
    ctx.floor("R10.3", 64)
    ctx.floor("R10.4", 1)


def run(ctx):
    ctx.guard(r10_1)
    ctx.guard(r10_2)
    ctx.guard(r10_3)
    # the reverse solve re-creates the forward trajectory from the extras saved at ts[-1]: the backward sweep must
    # start there and cover every output interval, whatever the loss weighting (rule of C09, saved-extras scenarios)
    from . import c09, c15
    ctx.guard(c09.r09_4)
    # forward and reverse solves must walk mirror-image grids: no left-over step of rounding-error length (rule of C15)
    ctx.guard(c15.r15_3)
    from . import c12
    ctx.guard(c12.r12_5)        # time axis in the state's dtype (see C15)
    # the backward pass rebuilds the forward trajectory from the saved extras: the forward step must not have
    # overwritten, in place, the tensors it carried or was handed
    from . import c05
    ctx.guard(c05.r05_5_solvers)
    # ... nor keep anything on the solver object from one step to the next (a list of parameters 'found in use' at the
    # first backward step, a cached evaluation): every step is a function of its arguments (rule of C13)
    from . import c13
    ctx.guard(c13.r13_1)


# ------------------------------------------------------------------------------------------------ R10.7
class FT:
    """A time as a floating-point expression tree with a concrete rational shadow.

    The shadow orders times (which branch the driver takes); the tree records *how* the value is computed: `add` is the
    rounded floating-point sum -- commutative, NOT associative; negation is exact and distributes over a sum
    (round-to-nearest is symmetric); a - b is a + (-b).  Two times are the same double for every dt exactly when their
    trees coincide."""

    def __init__(self, tree, shadow):
        self.tree, self.shadow = tree, Fraction(shadow)

    @staticmethod
    def lift(x):
        if isinstance(x, FT):
            return x
        if isinstance(x, Rat):
            x = x.const_value()
        if isinstance(x, (int, float, Fraction)) and not isinstance(x, bool):
            return FT(("const", nf.frac(x)), nf.frac(x))
        return None

    def sim_key(self):
        return self.shadow

    def sim_neg(self):
        return FT(_ft_neg(self.tree), -self.shadow)

    def sim_binop(self, op, l, r):
        L, R = FT.lift(l), FT.lift(r)
        if L is None or R is None:
            return NotImplemented
        if isinstance(op, ast.Add):
            return FT(("add",) + tuple(sorted((L.tree, R.tree), key=repr)), L.shadow + R.shadow)
        if isinstance(op, ast.Sub):
            return L.sim_binop(ast.Add(), L, R.sim_neg())
        if isinstance(op, ast.Mult):
            return FT(("mul",) + tuple(sorted((L.tree, R.tree), key=repr)), L.shadow * R.shadow)
        if isinstance(op, ast.Div):
            return FT(("div", L.tree, R.tree), L.shadow / R.shadow)
        return NotImplemented

    def sim_compare(self, op, l, r):
        L, R = FT.lift(l), FT.lift(r)
        if L is None or R is None:
            return NotImplemented
        a, b = L.shadow, R.shadow
        table = {ast.Lt: a < b, ast.LtE: a <= b, ast.Gt: a > b, ast.GtE: a >= b, ast.Eq: a == b, ast.NotEq: a != b}
        return table.get(type(op), NotImplemented)

    def __repr__(self):
        return _ft_show(self.tree)


def _ft_neg(t):
    if t[0] == "neg":
        return t[1]
    if t[0] == "const":
        return ("const", -t[1])
    if t[0] == "add":
        return ("add",) + tuple(sorted((_ft_neg(t[1]), _ft_neg(t[2])), key=repr))
    return ("neg", t)


def _ft_show(t):
    if t[0] == "sym":
        return t[1]
    if t[0] == "const":
        return str(t[1])
    if t[0] == "neg":
        return f"-{_ft_show(t[1])}"
    if t[0] == "add":
        return "(" + " (+) ".join(_ft_show(x) for x in t[1:]) + ")"
    return t[0] + "(" + ", ".join(_ft_show(x) for x in t[1:]) + ")"


def _grid_of_solve(model, t_start, t_end, dt):
    """The (ta, tb) of every step `integrate` takes over [t_start, t_end] with fixed steps, times as FT values."""
    from . import integrate_kit as ik
    integrate = model.func(ik.BASE_SOLVER, "BaseSDESolver.integrate")
    steps = []
    me = ik.make_self(model, False, steps)
    me.attrs["dt"] = dt
    me.attrs["dt_min"] = FT(("sym", "dt_min"), Fraction(1, 10 ** 5))

    def step(it, args, kwargs, node, fi):
        steps.append(tuple(args))
        return (nf.sym(f"y{len(steps)}"), nf.sym(f"extra{len(steps)}"))
    me.attrs["step"] = Intrinsic("self.step", step)

    def getitem(it, obj, idx, node, fi):
        seq = [t_start, t_end]
        return seq[idx]
    ts = Obj("ts", getitem_hook=getitem, attrs=ik.ts_attrs(Fraction(2)))

    class H(ik.LoopHooks):
        def on_call(self, interp, callee, args, kwargs, node, fi):
            if isinstance(callee, Closure) and callee.fi is not None and callee.fi.name == "linear_interp":
                return nf.fn("INTERP")
            return ik.LoopHooks.on_call(self, interp, callee, args, kwargs, node, fi)
    it = Interp(model, H({}))
    it.call_function(integrate, [me, nf.sym("y0"), ts, nf.sym("extra0")], {})
    return integrate, [(s[0], s[1]) for s in steps]


def r10_7(ctx):
    """Forward and backward solve query the Brownian motion on the same intervals, as floating-point numbers.

    R09.4 / R10.x establish that the backward pass integrates over (-ts[i], -ts[i-1]) with the forward dt on
    ReverseBrownian(bm).  A BrownianInterval with tol = 0 resolves every distinct double: two query intervals whose end
    points differ by one ulp return increments that differ by O(sqrt(ulp)) = 1e-8, which is what the reconstructed
    trajectory, and so the gradient, then differs by.  Bit-equal grids for *every* dt need the two grids to be the same
    floating-point expressions of (ts, dt); equality that holds only in exact arithmetic is not enough."""
    rep, model = ctx.rep, ctx.model
    rep.rule("R10.7", "the Brownian query intervals of the backward solve are, as floating-point expressions of (ts, dt), the "
                      "query intervals of the forward solve")
    from . import brownian_kit as bk
    T0, T1 = FT(("sym", "ts[i-1]"), 0), FT(("sym", "ts[i]"), Fraction(3, 10))
    dt = FT(("sym", "dt"), Fraction(1, 10))
    integrate, fwd = _grid_of_solve(model, T0, T1, dt)
    rep.analysed(integrate)
    _, bwd_raw = _grid_of_solve(model, T1.sim_neg(), T0.sim_neg(), dt)
    # the time map of ReverseBrownian, by evaluating it
    rb = model.func(bk.DERIVED, "ReverseBrownian.__call__")
    rep.analysed(rb)
    queries = []

    def base(it, a, k, n, f):
        queries.append((a[0], a[1]))
        return nf.sym("W")
    me = Obj("reverse-bm", cls=model.cls(bk.DERIVED, "ReverseBrownian"), attrs={"base_brownian": Intrinsic("base", base)})
    it = Interp(model, bk.BrownianHooks())
    for ta, tb in bwd_raw:
        it.call_function(rb, [me, ta, tb], {})
    bwd = list(reversed(queries))
    if len(fwd) != 3 or len(bwd) != 3:
        raise AnalysisError(f"R10.7: the model solve over three steps takes {len(fwd)} forward and {len(bwd)} backward steps",
                            where=astq.loc(integrate))
    # one obligation for the whole grid; the construct names which output time each of the two expressions of the first
    # differing grid point is built up from (not the expressions themselves, which a re-association would change)
    bad = [(k, a, b_, c, d) for k, ((a, b_), (c, d)) in enumerate(zip(fwd, bwd))
           if not (isinstance(a, FT) and isinstance(c, FT) and isinstance(b_, FT) and isinstance(d, FT)
                   and a.tree == c.tree and b_.tree == d.tree)]
    if not bad:
        rep.ok("R10.7", astq.loc(integrate), f"{integrate.key}::R10.7::grid", "forward and backward grids coincide as expressions")
    else:
        k, a, b_, c, d = bad[0]
        x, y = (b_, d) if a.tree == c.tree else (a, c)
        def anchors(t):
            if t[0] == "sym":
                return set() if t[1] in ("dt", "dt_min") else {t[1]}
            return set().union(*[anchors(c) for c in t[1:] if isinstance(c, tuple)]) if len(t) > 1 else set()
        ax, ay = "+".join(sorted(anchors(x.tree))) or "nothing", "+".join(sorted(anchors(y.tree))) or "nothing"
        rep.fail("R10.7", astq.loc(integrate), f"{integrate.key}::R10.7::grid::forward from {ax}::backward from {ay}",
                 f"model solve of three steps over [ts[i-1], ts[i]] = [0, 3 dt]: in step {k + 1} the forward solve queries the "
                 f"Brownian motion on [{a}, {b_}], the backward solve on [{c}, {d}] ({len(bad)} of 3 steps differ): equal in "
                 f"exact arithmetic only -- for a dt that is not exactly representable (0.1, 0.01, the default 1e-3) the end "
                 f"points differ by an ulp, a BrownianInterval with tol = 0 returns increments that differ by O(sqrt(ulp)) "
                 f"~ 1e-8, and so do the reconstructed trajectory and the gradients")
    ctx.floor("R10.7", 1)


_run_c10g = run


def run(ctx):
    _run_c10g(ctx)
    ctx.guard(r10_7)


_run_before_r09_8 = run


def run(ctx):
    _run_before_r09_8(ctx)
    # the entry points make their solver calls in the caller's autograd mode (for reversible Heun the initial solver state
    # is computed outside the adjoint Function and only its ordinary autograd graph carries its cotangents to the parameters)
    from . import c09
    ctx.guard(c09.r09_8)
